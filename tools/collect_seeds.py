#!/usr/bin/env python3
"""Developer tool: copy the triaged seeded changes from the sub-agents' scratch worktrees into /verif/seeded/<id>/ and write meta.json.
The verdict fields are filled from the logs of tools/seedtest.py runs given on the command line."""
import json, os, re, shutil, sys
V = os.path.dirname(os.path.dirname(os.path.abspath(__file__)))
SEEDS = {
 # id: (source dir, property broken, needs, checks expected to catch)
 "C01-1-neq-wider-left": ("/tmp/seed_C01/SEED/1", "C01", "`!=` with the WIDER operand on the left (Qint[4] != Qint[2] or a small constant) and values that agree on the low bits", ["C01"]),
 "C01-2-assign-copy-aliases-source": ("/tmp/seed_C01/SEED/2", "C01", "a plain copy `old = a`, then an in-place re-assignment of the source (`a = a + 1`, or inside an if), then a use of the copy", ["C01"]),
 "C01-3-if-reuses-condition-variable": ("/tmp/seed_C01/SEED/3", "C01", "an `if` whose test is a bare bool variable that the body re-assigns before other assignments", ["C01"]),
 "C02-1-uncompute-all-skips-gates-touching-keep": ("/tmp/seed_C02/SEED/1", "C03", "uncompute=True, a named temporary computed from a qubit that later becomes an output because a return bit aliases a temporary, and an input row where that output is 1", ["C03"]),
 "C02-2-expqmap-reverse-index-stale": ("/tmp/seed_C02/SEED/2", "C02", "fast optimizer only; a sub-expression repeated verbatim after its qubit was relabelled (negated in place / absorbed into a xor / freed)", ["C02", "C06"]),
 "C02-3-inline-uncompute-not-emitted": ("/tmp/seed_C02/SEED/3", "C02", "uncompute=False only; at least two statements that each use an anonymous ancilla and an input row leaving the recycled ancilla at 1", ["C02"]),
 "C04-1-or2and-double-negation": ("/tmp/seed_C04/SEED/1", "C04", "an Or of arity >= 3 one of whose arguments is the negation of another Or of arity >= 3", ["C04"]),
 "C04-2-merge-expressions-two-pass": ("/tmp/seed_C04/SEED/2", "C04", "a return symbol defined BEFORE a later re-definition of an intermediate (or shadowing of an input) it reads; only arbitrary well-formed lists, never front-end output", ["C04"]),
 "C04-3-obvious-expr-overgeneral": ("/tmp/seed_C04/SEED/3", "C04", "a 2-argument And/Or of a bare symbol and the Not of a compound that has that symbol as a direct operand with the 'wrong' inner operator, as the WHOLE right-hand side", ["C04"]),
 "C05-1-output-qubits-sorted": ("/tmp/seed_C05/SEED/1", "C05", "a return level wider than 10 bits / elements (Qint12, Qint16, a 12-element list): _ret.10 sorts before _ret.2", ["C05"]),
 "C05-2-encode-input-offset": ("/tmp/seed_C05/SEED/2", "C05", "three or more arguments", ["C05"]),
 "C09-3-getsize-counts-inner-tuple-as-one-bit": ("/tmp/seed_C05/SEED/3", "C09", "a type nested three or more levels (Tuple[Qmatrix[bool,2,2], Qint2])", ["C09"]),
 "C09-4-qfixed-to-bool-rounds": ("/tmp/seed_C05/SEED/4", "C09", "only the Qfixed types with 6 fractional bits, 3/8 of their patterns", ["C09"]),
 "C07-1-call-aliases-stored-definition": ("/tmp/seed_C07/SEED/1", "C07", "two or more calls of one callee in one caller with different actual arguments", ["C07"]),
 "C07-2-call-substitution-sequential": ("/tmp/seed_C07/SEED/2", "C07", "a caller symbol named <callee>_<later formal> used in the actual for an earlier formal", ["C07"]),
 "C08-3-bind-shares-statement-nodes": ("/tmp/seed_C07/SEED/3", "C08", "a second bind of the same unbound object, a list parameter, and all/any/sum/range(len()) over it", ["C08"]),
 "C08-4-bind-values-by-call-order": ("/tmp/seed_C07/SEED/4", "C08", "at least two parameters, keywords in non-declaration order, different values", ["C08"]),
 "C10-1-to-logicfun-cached": ("/tmp/seed_C10/SEED/1", "C10", "the same QlassF used as a definition twice (two callers with defs=[f], or defs=[f] then oraclize(f, x))", ["C10", "C07"]),
 "C10-2-vanilla-copy-shares-gate-list": ("/tmp/seed_C10/SEED/2", "C10", "the circuit is inspected or reused after being passed to circuit_boolean_optimizer, which found something to simplify", ["C10", "C14", "C12"]),
 "C10-3-qiskit-gate-export-renames-circuit": ("/tmp/seed_C10/SEED/3", "C10", "a function whose name is also a QuantumCircuit attribute (power, reset, inverse ...), gate-mode qiskit export, then a later export / look at the circuit", ["C10"]),
 "C10-4-bind-shares-body": ("/tmp/seed_C10/SEED/4", "C10", "the same unbound function bound twice with different lookup-table parameters indexed by a non-constant expression", ["C10", "C08"]),
 "C11-1-mcx-decompiled-as-ccx": ("/tmp/seed_C11/SEED/1", "C11", "an MCX with three or more controls (or with one)", ["C11"]),
 "C11-2-section-end-from-length": ("/tmp/seed_C11/SEED/2", "C11", "a barrier strictly inside a classical run", ["C11"]),
 "C12-3-rename-guard-filtered": ("/tmp/seed_C11/SEED/3", "C12", "a section that is a pure qubit permutation (the three-CX swap)", ["C12"]),
 "C12-4-splice-offset-not-accumulated": ("/tmp/seed_C11/SEED/4", "C12", "at least three reducible sections in one circuit", ["C12"]),
 "C13-1-sympy-mcx-drops-controls": ("/tmp/seed_C13/SEED/1", "C13", "sympy exporter only; an MCX with 3 or more controls", ["C13"]),
 "C13-2-qasm2-header-first-alias": ("/tmp/seed_C13/SEED/2", "C13", "QasmExporter(version=2) only; a qubit with two names that a gate touches", ["C13"]),
 "C14-3-iqft-swaps-by-position": ("/tmp/seed_C13/SEED/3", "C14", "a qubit list other than [0..n-1]", ["C14"]),
 "C14-4-remove-identities-barrier-branch": ("/tmp/seed_C13/SEED/4", "C14", "a barrier exactly between two occurrences of the same non-self-inverse gate object", ["C14"]),
 "C15-1-iterations-shift-precedence": ("/tmp/seed_C15/SEED/1", "C15", "n_matching > 1; within 2..5 bits the success probability only drops below 1/2 at n=5, M=2", ["C15"]),
 "C15-2-falsy-element-to-search": ("/tmp/seed_C15/SEED/2", "C15", "only Grover(g, y) with a falsy target (0 / False)", ["C15"]),
 "C16-3-simon-last-hadamard": ("/tmp/seed_C15/SEED/3", "C16", "only periods whose top bit is set", ["C16"]),
 "C16-4-dj-decode-first-bit": ("/tmp/seed_C15/SEED/4", "C16", "a balanced f whose measured outcome has bit 0 clear", ["C16"]),
 "C17-1-dimacs-single-clause": ("/tmp/seed_C17/SEED/1", "C17", "-t dimacs and a function whose whole CNF is one clause of two or more literals", ["C17"]),
 "C17-2-entrypoint-break-indent": ("/tmp/seed_C17/SEED/2", "C17", "a script with at least three functions and -e naming one that is neither first nor last in name order", ["C17"]),
 "C18-3-nary-fold-drops-odd-term": ("/tmp/seed_C17/SEED/3", "C18", "an And / Xor node whose arity is not a power of two", ["C18"]),
 "C18-4-decode-samples-bit-order": ("/tmp/seed_C17/SEED/4", "C18", "an argument wider than one bit and a sample whose bits for it are not a palindrome", ["C18"]),
}
logs = sys.argv[1:]
verdicts = {}
for lg in logs:
    cur = None
    for line in open(lg):
        m = re.match(r"SEED (\S+) demo (\S+) (\S+) tests (\S+)", line)
        if m:
            cur = m.group(1)
            verdicts.setdefault(cur, dict(checks={}))
            verdicts[cur].update(demo_unchanged_exit=m.group(2), demo_changed_exit=m.group(3))
            if m.group(4) != "None":
                verdicts[cur]["stable_tests_pass_with_change"] = m.group(4) == "True"
            continue
        m = re.match(r"\s+(C\d+) exit (\d+) \| (.*?) \| (.*)", line)
        if m and cur:
            verdicts[cur]["checks"][m.group(1)] = dict(exit=int(m.group(2)), first_failed_obligation=None if m.group(3) == "None" else m.group(3), result_tail=m.group(4).strip())
os.makedirs(os.path.join(V, "seeded"), exist_ok=True)
rows = []
for sid, (src, prop, needs, expect) in SEEDS.items():
    if not os.path.isdir(src):
        print("missing", src); continue
    dst = os.path.join(V, "seeded", sid)
    shutil.rmtree(dst, ignore_errors=True)
    os.makedirs(dst)
    for f in os.listdir(src):
        p = os.path.join(src, f)
        if f in ("patch.diff", "demo.py", "notes.md"):
            shutil.copy(p, dst)
        elif os.path.isdir(p) and f == "pyqubo":
            shutil.copytree(p, os.path.join(dst, f))
    v = verdicts.get(src, {})
    caught = {c: (r["exit"] == 1) for c, r in v.get("checks", {}).items()}
    meta = dict(id=sid, breaks_property=prop, needs_to_manifest=needs, author="independent sub-agent given only the property text and a scratch worktree",
                confirmed=dict(patch_applies_to="/repo HEAD at the time of the run (scratch worktree, never /repo itself)",
                               demo_exit_on_unchanged_tree=v.get("demo_unchanged_exit"), demo_exit_with_change=v.get("demo_changed_exit"),
                               stable_tests_pass_with_change=v.get("stable_tests_pass_with_change")),
                ran="tools/seedtest.py <seed> " + " ".join(sorted(v.get("checks", {}))) + " (quick tier, VERIF_REPO = scratch worktree with the patch applied)",
                checks=v.get("checks", {}), caught_by=sorted(c for c, ok in caught.items() if ok))
    json.dump(meta, open(os.path.join(dst, "meta.json"), "w"), indent=1)
    rows.append((sid, prop, ", ".join(meta["caught_by"]) or "NOT CAUGHT", next((r["first_failed_obligation"] for c, r in v.get("checks", {}).items() if r["exit"] == 1), "")))
with open(os.path.join(V, "seeded", "README.md"), "w") as fh:
    fh.write("# Seeded changes\n\nIndependently written changes to dakk/qlasskit that break a property while the package imports and the 408 stable tests pass.\n"
             "Each directory: `patch.diff`, the author's `demo.py` (exit 0 unchanged / 1 changed), `notes.md`, `meta.json` (what it needs, what was run, verdicts).\n"
             "Run one with `tools/seedtest.py seeded/<id> <property ids>`; nothing is ever applied to /repo itself.\n\n| seed | property | caught by (quick tier) | first failed obligation |\n|---|---|---|---|\n")
    for r in rows:
        fh.write("| " + " | ".join(str(x) for x in r) + " |\n")
print(len(rows), "seeds collected")
