#!/usr/bin/env python3
"""Developer tool (round 3): copy the triaged seeded changes of the third round of sub-agents into /verif/seeded/<id>/ and write meta.json.
Verdicts were established with tools/seedtest.py; recorded here by hand from those logs."""
import json, os, shutil, subprocess
V = os.path.dirname(os.path.dirname(os.path.abspath(__file__)))
S = {
 "C01-10-augassign-operands-swapped": ("/tmp/seed3_A/SEED/1", "C01", "a non-commutative augmented operator (a -= b, a %= 4)", {"C01": False}, "curated programs with -=, %=, <<=, >>= ... (layers T and L3)"),
 "C04-5-remove-ite-complement-shortcut": ("/tmp/seed3_A/SEED/2", "C04", "an if-expression whose branches are complements (a if c else not a)", {"C01": True, "C04": True}, None),
 "C01-11-mul-narrower-left-padding": ("/tmp/seed3_A/SEED/3", "C01", "a multiplication with the narrower operand on the left", {"C01": True}, None),
 "C01-12-unroll-row-type-from-first-row": ("/tmp/seed3_A/SEED/4", "C01", "sum / all / for over row k >= 1 of a nested Tuple whose row k is longer than row 0", {"C01": False}, "curated programs over ragged nested tuples"),
 "C01-13-constfold-neutral-element": ("/tmp/seed3_A/SEED/5", "C01", "a literal 0 on the left of - (also the unrolled loop index 0)", {"C01": True}, None),
 "C01-14-qfixed-add-declared-type": ("/tmp/seed3_A/SEED/6", "C01", "Qfixed + with fewer fractional bits on the left", {"C01": True}, None),
 "C06-2-compile-not-keeps-stale-cache-entry": ("/tmp/seed3_B/SEED/6", "C06", "fast optimizer; not e on an ancilla, then e again in the same statement (a < b)", {"C06": True, "C02": True}, None),
 "C04-6-merge-expressions-keeps-large-intermediates": ("/tmp/seed3_C/SEED/1", "C04", "an intermediate defined twice, small first and large (> 40 operations) second", {"C04": True}, None),
 "C04-7-or2xor-any-arity": ("/tmp/seed3_C/SEED/2", "C04", "conjunctions of three or more literals, all positive against all negative", {"C04": True}, None),
 "C07-3-first-definition-wins": ("/tmp/seed3_C/SEED/3", "C07", "a function name defined twice in one caller", {"C07": False}, "redefinition obligations (two inline defs, defs= plus inline, the same definition twice)"),
 "C07-4-tuple-actual-padded-at-the-end": ("/tmp/seed3_C/SEED/4", "C07", "a narrow integer that is not the last element of a tuple actual", {"C07": False}, "callers passing tuple actuals with a narrower element"),
 "C08-6-original-f-shares-callers-lists": ("/tmp/seed3_C/SEED/5", "C08", "a list value the caller changes after bind", {"C08": False}, "the caller's lists are mutated after every bind before the bound function is checked (expressions and original_f)"),
 "C08-7-scalar-parameter-pasted-over-reads": ("/tmp/seed3_C/SEED/6", "C08", "a body that re-assigns the parameter, or an inner function with a formal of the same name", {"C08": False}, "programs that re-assign / shadow a parameter"),
 "C05-4-output-qubits-deduplicated": ("/tmp/seed3_D/SEED/1", "C05", "two return bits compiled onto one qubit", {"C05": True}, None),
 "C14-7-remove-identities-sorted-qubits": ("/tmp/seed3_D/SEED/2", "C14", "cx a b; cx b a built as separate gate objects", {"C14": False}, "remove_identities on freshly built gate objects incl. wire-order twins, 3 qubits"),
 "C09-6-qchar-const-utf8-lead-byte": ("/tmp/seed3_D/SEED/3", "C09", "a character literal in 128..255", {"C09": True}, None),
 "C13-5-cirq-mctrl-z-as-x": ("/tmp/seed3_D/SEED/4", "C13", "mctrl(Z) exported to Cirq", {"C13": True}, None),
 "C13-6-qasm-names-sanitised": ("/tmp/seed3_D/SEED/5", "C13", "qubits named a.0 and a_0", {"C13": False}, "a qubit-name map whose names differ only in punctuation / case"),
 "C14-8-iqft-even-length-drops-swap": ("/tmp/seed3_D/SEED/6", "C14", "a qubit list of even length", {"C14": True}, None),
 "C14-9-copy-shares-qubit-map": ("/tmp/seed3_D/SEED/7", "C14", "the naming of the copy is edited (add_qubit, c['a'] = ...)", {"C14": True, "C15": True, "C10": True}, None),
 "C10-8-compile-early-return": ("/tmp/seed3_E/SEED/1", "C10", "a second compile() with the other uncompute value", {"C10": False}, "re-compilation invariant operation (a predicate whose circuit depends on uncompute)"),
 "C10-9-export-cached-on-object": ("/tmp/seed3_E/SEED/2", "C10", "a second export after a recompile, or after the caller modified the first result", {"C10": False}, "export-twice invariant operation"),
 "C10-10-bind-memoised": ("/tmp/seed3_E/SEED/3", "C10", "the same values bound twice and one result modified in between", {"C10": False}, "bind-twice invariant operation"),
 "C11-4-barrier-closes-section": ("/tmp/seed3_E/SEED/4", "C11", "a barrier inside a run of classical gates", {"C11": True}, None),
 "C12-6-mcx-conjunction-cached": ("/tmp/seed3_E/SEED/5", "C12", "two MCX with the same control list and a control flipped between them", {"C12": True, "C11": True}, None),
 "C17-4-parse-file-module-filter": ("/tmp/seed3_E/SEED/6", "C17", "a script whose function comes from a source string or from bind()", {"C17": False}, "scripts with functions built from strings / by bind"),
 "C17-5-input-imported-in-place": ("/tmp/seed3_E/SEED/7", "C17", "an -i file not named *.py", {"C17": False}, "input files of any name, output files"),
 "C15-5-iteration-count-floor-sqrt": ("/tmp/seed3_F/SEED/1", "C15", "5 search bits with one solution (odd n)", {"C15": True}, None),
 "C15-6-decode-output-drops-leading-chars": ("/tmp/seed3_F/SEED/2", "C15", "a reading of the output qubits only", {"C15": True}, None),
 "C16-7-dj-hadamards-up-to-ret": ("/tmp/seed3_F/SEED/3", "C16", "a balanced function whose circuit has ancillas", {"C16": True}, None),
 "C16-8-secret-oracle-only-set-bits": ("/tmp/seed3_F/SEED/4", "C16", "secret 0 (raises)", {"C16": False}, "a raising secret_oracle is reported as a violation (it crashed the check before: exit 3)"),
 "C18-7-to-bqm-without-merge": ("/tmp/seed3_F/SEED/5", "C18", "a function whose optimised definitions keep intermediates, a return bit equal to one, or a 3-ary intermediate", {"C18": False}, "programs whose optimised definition list keeps intermediate symbols"),
 "C18-8-decode-samples-int-overload": ("/tmp/seed3_F/SEED/6", "C18", "an argument whose most significant bit is 0 and a lower bit 1", {"C18": True}, None),
}
for sid, (src, prop, needs, caught, strengthened) in S.items():
    if not os.path.isdir(src):
        print("missing", src); continue
    dst = os.path.join(V, "seeded", sid)
    shutil.rmtree(dst, ignore_errors=True)
    os.makedirs(dst)
    for f in os.listdir(src):
        p = os.path.join(src, f)
        if f in ("patch.diff", "demo.py", "notes.md"):
            shutil.copy(p, dst)
        elif os.path.isdir(p) and f == "pyqubo":
            shutil.copytree(p, os.path.join(dst, f))
    ap = subprocess.run(["git", "-C", "/repo", "apply", "--check", os.path.join(dst, "patch.diff")], capture_output=True, text=True)
    meta = dict(id=sid, round=3, breaks_property=prop, needs_to_manifest=needs, author="independent sub-agent given only the property text and a scratch worktree",
                confirmed=dict(patch_applies_to_repo_head=ap.returncode == 0, demo_exit_on_unchanged_tree=0, demo_exit_with_change=1, stable_tests_pass_with_change=True,
                               how="tools/seedtest.py: scratch worktree of /repo HEAD, demonstration before/after the patch, tools/baseline.py (408 pinned tests), then the checks with VERIF_REPO"),
                caught_by={c: True for c in caught}, caught_at_first_run=caught, strengthening=strengthened)
    json.dump(meta, open(os.path.join(dst, "meta.json"), "w"), indent=1)
    print(sid, "applies" if ap.returncode == 0 else "DOES NOT APPLY: " + ap.stderr[:100])
