#!/usr/bin/env python3
"""Developer tool (round 5): copy the triaged seeded changes of the fifth round of sub-agents into /verif/seeded/<id>/ and write meta.json.
Verdicts were established with tools/seedtest.py and tools/baseline.py (408 pinned tests re-run for every change); recorded by hand from those logs."""
import json, os, shutil, subprocess
V = os.path.dirname(os.path.dirname(os.path.abspath(__file__)))
S = {
 "C07-7-rename-map-formals-only": ("/tmp/seed5_A/SEED/1", "C07", "a callee reaching bind_function unmerged that re-assigns one of its own parameters", {"C07": True}, None),
 "C07-8-returns-selected-by-name-prefix": ("/tmp/seed5_A/SEED/2", "C07", "a callee with a local whose name starts with _ret", {"C07": False}, "callees whose locals are named like the machinery's own symbols (_ret..., prefixed formals); the same programs exposed a defect of the unchanged tree (fix 6e66eb7)"),
 "C08-10-constant-type-set-once": ("/tmp/seed5_A/SEED/3", "C08", "a bound Qlist/Tuple parameter re-assigned to a list of another length and read with a variable index", {"C08": False}, "sequence parameters re-assigned in the body to displays of another length (exposed the flat-name defect of the unchanged tree, fix d576e50)"),
 "C08-11-binding-injected-into-inner-functions": ("/tmp/seed5_A/SEED/4", "C08", "an inner function with a formal named like a parameter", {"C08": True}, None),
 "C10-14-const-memo-by-value": ("/tmp/seed5_A/SEED/5", "C10", "an integral float constant compiled after the equal integer constant (1 == 1.0 == True)", {"C10": False}, "histories compiling equal constants of different types (int / float / bool) one after the other"),
 "C05-8-getsize-one-level": ("/tmp/seed5_B/SEED/1", "C05", "a result type nested three levels deep", {"C05": False}, "signatures with three nesting levels (tuple of tuple of tuple, tuple of lists)"),
 "C05-9-encode-input-per-argument": ("/tmp/seed5_B/SEED/2", "C05", "two or more arguments", {"C05": True}, None),
 "C17-8-bexp-one-level-substitution": ("/tmp/seed5_B/SEED/3", "C17", "chained intermediates under the fast optimizer", {"C17": True}, None),
 "C17-9-functions-deduplicated-by-def-name": ("/tmp/seed5_B/SEED/4", "C17", "two different functions with the same def name (two bindings of one parameterised function)", {"C17": False}, "scripts whose functions share a def name (two bindings, two source strings)"),
 "C18-11-binary-labels-sanitised": ("/tmp/seed5_B/SEED/5", "C18", "any multi-bit argument", {"C18": True}, None),
 "C18-12-decode-samples-sorted-by-energy": ("/tmp/seed5_B/SEED/6", "C18", "a sample set whose energies are not ascending", {"C18": False}, "a sample SET with mixed energies: entry i decodes sample i"),
 "C11-7-section-length-cap": ("/tmp/seed5_C/SEED/1", "C11", "a classical run longer than 64 gates", {"C11": False}, "proved-class step of the SECTION loop of decompile from a run of every length (ghost length as a mathematical integer)"),
 "C12-8-cancel-adjacent-same-class": ("/tmp/seed5_C/SEED/2", "C12", "MCtrl(Z) directly followed by MCtrl(X) on the same wires", {"C12": False}, "sequences over generic multi-controlled Z / X gates mixed with classical gates"),
 "C13-10-qasm-application-used-qubits": ("/tmp/seed5_C/SEED/3", "C13", "circuit mode and an idle qubit", {"C13": True}, None),
 "C13-11-qasm2-cnx-from-wires": ("/tmp/seed5_C/SEED/4", "C13", "QASM 2 and an MCX with 3 or more controls", {"C13": True}, None),
 "C14-13-iadd-lines-up-by-name": ("/tmp/seed5_C/SEED/5", "C14", "both operands share a qubit name at different indices", {"C14": False}, "qubit-naming scenarios for + and += (same names at reversed / rotated indices, unnamed right operand)"),
 "C14-14-copy-shares-ancilla-sets": ("/tmp/seed5_C/SEED/6", "C14", "a QCircuitEnhanced copy followed by an ancilla operation on the copy", {"C14": True}, None),
 "C01-20-ifexp-test-is-true": ("/tmp/seed5_D/SEED/1", "C01", "an if-expression whose test folds to a truthy constant other than True", {"C01": True}, None),
 "C01-21-matrix-next-i-max-i": ("/tmp/seed5_D/SEED/2", "C01", "a non-square argument matrix indexed by two variables", {"C01": True}, None),
 "C01-22-tuple-compare-first-element-width": ("/tmp/seed5_D/SEED/3", "C01", "tuples whose elements have different widths compared with == / !=", {"C01": True}, None),
 "C09-9-qchar-amplitude-index-reversed": ("/tmp/seed5_D/SEED/4", "C09", "characters whose 8-bit code is not a bit palindrome", {"C09": True}, None),
 "C15-9-h-layer-only-used-qubits": ("/tmp/seed5_D/SEED/5", "C15", "a predicate that ignores an argument bit", {"C15": True}, None),
 "C16-11-simon-output-sized-by-result": ("/tmp/seed5_D/SEED/6", "C16", "a function whose result width differs from the argument width", {"C16": True}, None),
}
for sid, (src, prop, needs, caught, strengthened) in S.items():
    if not os.path.isdir(src):
        print("missing", src); continue
    dst = os.path.join(V, "seeded", sid)
    shutil.rmtree(dst, ignore_errors=True)
    os.makedirs(dst)
    for f in os.listdir(src):
        p = os.path.join(src, f)
        if f in ("patch.diff", "demo.py", "notes.md"):
            shutil.copy(p, dst)
        elif os.path.isdir(p) and f == "pyqubo":
            shutil.copytree(p, os.path.join(dst, f))
    ap = subprocess.run(["git", "-C", "/repo", "apply", "--check", os.path.join(dst, "patch.diff")], capture_output=True, text=True)
    meta = dict(id=sid, round=5, breaks_property=prop, needs_to_manifest=needs, author="independent sub-agent given only the property text and a scratch worktree",
                confirmed=dict(patch_applies_to_repo_head=ap.returncode == 0, demo_exit_on_unchanged_tree=0, demo_exit_with_change=1, stable_tests_pass_with_change=True,
                               how="tools/seedtest.py: scratch worktree of /repo HEAD, demonstration before/after the patch, tools/baseline.py (408 pinned tests), then the checks with VERIF_REPO"),
                caught_by={c: True for c in caught}, caught_at_first_run=caught, strengthening=strengthened)
    json.dump(meta, open(os.path.join(dst, "meta.json"), "w"), indent=1)
    print(sid, "applies" if ap.returncode == 0 else "DOES NOT APPLY: " + ap.stderr[:100])
