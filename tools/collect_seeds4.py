#!/usr/bin/env python3
"""Developer tool (round 4): copy the triaged seeded changes of the fourth round of sub-agents into /verif/seeded/<id>/ and write meta.json.
Verdicts were established with tools/seedtest.py (pinned tests re-run here for every change); recorded by hand from those logs."""
import json, os, shutil, subprocess
V = os.path.dirname(os.path.dirname(os.path.abspath(__file__)))
S = {
 "C02-6-or2and-does-not-descend": ("/tmp/seed4_A/SEED/1", "C02", "a 3+-ary Or nested inside another 3+-ary Or", {"C02": False}, "curated programs with wide disjunctions nested in wide disjunctions / conjunctions"),
 "C03-4-and-marks-only-with-own-dest": ("/tmp/seed4_A/SEED/2", "C03", "an And accumulated into a Xor with a compound operand (full-adder carry)", {"C03": True, "C06": True}, None),
 "C02-7-xor-direct-cache-write": ("/tmp/seed4_A/SEED/3", "C02", "fast optimizer; a Xor whose operand recurs in a sibling compiled later", {"C02": True, "C06": True}, None),
 "C03-5-and-single-operand-shortcut": ("/tmp/seed4_A/SEED/4", "C03", "fast optimizer; a copy of a variable and-ed with the original inside a Xor", {"C03": True}, None),
 "C02-8-statement-cache-not-purged": ("/tmp/seed4_A/SEED/5", "C02", "fast optimizer; a variable updated twice with the same right-hand side", {"C02": True, "C06": True}, None),
 "C01-15-gt-first-extra-bit-only": ("/tmp/seed4_B/SEED/1", "C01", "left operand >= 2 bits narrower and a right value using the second extra bit", {"C01": True}, None),
 "C01-16-sub-constant-fast-path": ("/tmp/seed4_B/SEED/2", "C01", "a variable wider than the constant's type minus a constant", {"C01": True}, None),
 "C01-17-mul-sizing-row": ("/tmp/seed4_B/SEED/3", "C01", "both padded operands 3 bits wide", {"C01": True}, None),
 "C01-18-constant-matrix-max-j": ("/tmp/seed4_B/SEED/4", "C01", "a non-square list-of-lists constant read with variable indices", {"C01": False}, "curated constant matrices with variable indices; layer T executes symbolic indices (subscript hook, feasibility pruning)"),
 "C01-19-bitwise-result-type-stale": ("/tmp/seed4_B/SEED/5", "C01", "a bitwise op with a narrower right operand, then <<, + or -", {"C01": True}, None),
 "C04-8-implies-contrapositive": ("/tmp/seed4_B/SEED/6", "C04", "an implication with both sides negated", {"C04": True}, None),
 "C04-9-apply-reorders-returns-last": ("/tmp/seed4_B/SEED/7", "C04", "a symbol defined again after a return symbol that read its earlier value", {"C04": True}, None),
 "C05-5-input-qubits-by-name": ("/tmp/seed4_C/SEED/1", "C05", "a function that re-assigns an argument, fast optimizer", {"C05": False}, "input_qubits clause on compiled functions (argument bit k = qubit k), curated programs under both profiles"),
 "C05-6-decode-output-keeps-leading-chars": ("/tmp/seed4_C/SEED/2", "C05", "a reading longer than the result", {"C05": False}, "decode_output clause for readings of the whole register (symbolic leading characters)"),
 "C05-7-encode-input-flattens-one-level": ("/tmp/seed4_C/SEED/3", "C05", "arguments nested two or more levels", {"C05": True}, None),
 "C09-7-qfixed-from-bool-rounded": ("/tmp/seed4_C/SEED/4", "C09", "the Qfixed*_6 types, patterns with one of the two lowest fractional bits", {"C09": True}, None),
 "C09-8-const-to-qtype-65536": ("/tmp/seed4_C/SEED/5", "C09", "exactly the constant 65536", {"C09": True, "C01": True}, None),
 "C14-10-append-circuit-permutation-fast-path": ("/tmp/seed4_C/SEED/6", "C14", "a qubit list that is a non-identity permutation of 0..n-1", {"C14": True}, None),
 "C14-11-qft-angle-linear": ("/tmp/seed4_C/SEED/7", "C14", "qubit lists of length 4 or more", {"C14": True}, None),
 "C11-5-last-section-closed-after-loop": ("/tmp/seed4_D/SEED/1", "C11", "a classical run that ends the circuit followed by one barrier", {"C11": False}, "the range clause is exact at BOTH ends (after repo fix a5624c5 made the unchanged tree consistent); patch rebased onto that fix"),
 "C11-6-barrier-opens-section": ("/tmp/seed4_D/SEED/2", "C11", "a barrier directly before a run", {"C11": True}, None),
 "C12-7-fold-xor-literals-negation": ("/tmp/seed4_D/SEED/3", "C12", "an even number of negated literals collapsing to unchanged / flipped (5-gate identity on two qubits)", {"C12": False}, "all runs of 4-5 (6) gates over two qubits"),
 "C14-12-vanilla-copy-sized-from-names": ("/tmp/seed4_D/SEED/4", "C14", "the highest-index qubit has no name", {"C14": False}, "copy obligations with an unnamed top qubit / no names"),
 "C13-7-qasm-formals-insertion-order": ("/tmp/seed4_D/SEED/5", "C13", "qubit names inserted out of index order", {"C13": True}, None),
 "C13-8-sympy-classical-fast-path": ("/tmp/seed4_D/SEED/6", "C13", "sympy circuit mode on a classical circuit with a non-palindromic result", {"C13": True}, None),
 "C13-9-qasm2-cp-as-crz": ("/tmp/seed4_D/SEED/7", "C13", "QASM version 2 and a CP gate", {"C13": True}, None),
 "C07-5-call-cache-by-text": ("/tmp/seed4_E/SEED/1", "C07", "the same call text twice while the argument variable changes width in between", {"C07": False}, "callers repeating a call text with a changing argument; the reference semantics models zero-extension at the call boundary (the rows were vacuous before)"),
 "C07-6-nest-one-level": ("/tmp/seed4_E/SEED/2", "C07", "a callee returning a tuple containing a tuple containing a multi-bit element", {"C07": False}, "callees with two-level tuple results"),
 "C08-8-default-tested-by-truthiness": ("/tmp/seed4_E/SEED/3", "C08", "a parameter with a default bound to False / 0", {"C08": False}, "programs whose parameters have default values"),
 "C08-9-iterator-exhausted-by-check": ("/tmp/seed4_E/SEED/4", "C08", "a value given as a one-shot iterable", {"C08": False}, "sequence values handed over as list / tuple / iterator / generator in turn"),
 "C10-11-bind-exec-into-module-globals": ("/tmp/seed4_E/SEED/5", "C10", "a parameterised function named like a module global and one bind", {"C10": True}, None),
 "C10-12-grover-copy-dropped": ("/tmp/seed4_E/SEED/6", "C10", "Grover(qf) then any later look at qf", {"C10": True, "C15": True}, None),
 "C10-13-bind-function-renames-in-place": ("/tmp/seed4_E/SEED/7", "C10", "the same LogicFun bound twice (revert of fix 9ca06c6)", {"C07": True, "C08": True}, None),
 "C15-7-oraclize-bool-without-comparison": ("/tmp/seed4_F/SEED/1", "C15", "a bool-valued function searched for False", {"C15": True}, None),
 "C15-8-phase-kick-from-last-qubit": ("/tmp/seed4_F/SEED/2", "C15", "an oracle whose _ret is not the last qubit", {"C15": True}, None),
 "C16-9-secret-oracle-inferred-type": ("/tmp/seed4_F/SEED/3", "C16", "secrets narrower than n bits", {"C16": True}, None),
 "C16-10-simon-qubit-count": ("/tmp/seed4_F/SEED/4", "C16", "a function whose circuit has ancillas", {"C16": True}, None),
 "C17-6-last-return-bit-only": ("/tmp/seed4_F/SEED/5", "C17", "a function returning more than one bit", {"C17": True}, None),
 "C17-7-py2qasm-skips-compile": ("/tmp/seed4_F/SEED/6", "C17", "a script whose function was not compiled (to_compile=False)", {"C17": False}, "scripts with functions the script did not compile"),
 "C18-9-duplicate-return-expression-skipped": ("/tmp/seed4_F/SEED/7", "C18", "two return bits sharing an expression, a function with no zero", {"C18": False}, "programs whose return bits share an expression / are never all false"),
 "C18-10-decode-samples-drops-missing-bits": ("/tmp/seed4_F/SEED/8", "C18", "samples lacking an argument bit that is not the least significant one", {"C18": False}, "samples with each variable missing in turn (present bits keep their position)"),
}
for sid, (src, prop, needs, caught, strengthened) in S.items():
    if not os.path.isdir(src):
        print("missing", src); continue
    dst = os.path.join(V, "seeded", sid)
    shutil.rmtree(dst, ignore_errors=True)
    os.makedirs(dst)
    for f in os.listdir(src):
        p = os.path.join(src, f)
        if f in ("patch.diff", "demo.py", "notes.md"):
            shutil.copy(p, dst)
        elif os.path.isdir(p) and f == "pyqubo":
            shutil.copytree(p, os.path.join(dst, f))
    ap = subprocess.run(["git", "-C", "/repo", "apply", "--check", os.path.join(dst, "patch.diff")], capture_output=True, text=True)
    meta = dict(id=sid, round=4, breaks_property=prop, needs_to_manifest=needs, author="independent sub-agent given only the property text and a scratch worktree",
                confirmed=dict(patch_applies_to_repo_head=ap.returncode == 0, demo_exit_on_unchanged_tree=0, demo_exit_with_change=1, stable_tests_pass_with_change=True,
                               how="tools/seedtest.py: scratch worktree of /repo HEAD, demonstration before/after the patch, tools/baseline.py (408 pinned tests), then the checks with VERIF_REPO"),
                caught_by={c: True for c in caught}, caught_at_first_run=caught, strengthening=strengthened)
    json.dump(meta, open(os.path.join(dst, "meta.json"), "w"), indent=1)
    print(sid, "applies" if ap.returncode == 0 else "DOES NOT APPLY: " + ap.stderr[:100])
