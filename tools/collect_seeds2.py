#!/usr/bin/env python3
"""Developer tool (round 2): copy the triaged seeded changes of the second round of sub-agents from their scratch worktrees into
/verif/seeded/<id>/ (patch.diff, demo.py, notes.md [, pyqubo stub]) and write meta.json.  Verdicts were established with tools/seedtest.py
(scratch worktree of /repo, pinned tests, demonstration before/after, the listed checks); they are recorded here by hand from those logs."""
import json, os, shutil, subprocess, sys
V = os.path.dirname(os.path.dirname(os.path.abspath(__file__)))
S = {
 # id: (source dir, property, needs, {check: caught-at-first-run?}, strengthening that was needed (or None))
 "C01-5-tuple-unpack-elementwise": ("/tmp/seed2_A/SEED/1", "C01", "a tuple assignment whose right side reads an earlier target (a, b = b, a)", {"C01": True}, None),
 "C01-6-constfold-gte-as-gt": ("/tmp/seed2_A/SEED/2", "C01", "both sides of a >= are constants and tie - in practice an unrolled loop index (if i >= 2)", {"C01": False},
                               "ConstantFolder put under contract (layer A of C01: symbolic integers for ==,!=,<,<=,>,>=,+,-,unary, branch selection; CPython grid for the rest)"),
 "C01-7-shift-left-by-zero-empty": ("/tmp/seed2_A/SEED/3", "C01", "x << 0 (first iteration of a shift-and-add loop)", {"C01": True}, None),
 "C01-8-for-drops-index-assignment": ("/tmp/seed2_A/SEED/4", "C01", "the loop variable read AFTER the loop and bound before it (local or shadowed argument)", {"C01": False},
                                      "curated L3 programs: loop variable after the loop, ties on unrolled indices, shifts by the index from 0, for/else"),
 "C01-9-qfixed3_4-fractional-bits": ("/tmp/seed2_A/SEED/5", "C01", "+ / - on Qfixed[3,4] only", {"C01": True}, None),
 "C06-1-input-symbols-last-argument-only": ("/tmp/seed2_B/SEED/1", "C06", "uncompute=True, 2+ arguments, the function returns a bare bit of a non-last argument", {"C06": True}, None),
 "C02-4-xor-not-or-falls-through": ("/tmp/seed2_B/SEED/2", "C02", "a Xor with a non-first Not(Or(..)) term", {"C02": True}, None),
 "C03-2-final-uncompute-shortcut": ("/tmp/seed2_B/SEED/3", "C03", "uncompute=True, a multi-bit return whose bits share a qubit, plus a live intermediate", {"C03": True}, None),
 "C02-5-cached-cx-direction": ("/tmp/seed2_B/SEED/4", "C02", "a cached non-symbol sub-expression that is a direct Xor term", {"C02": True}, None),
 "C03-3-or-marks-last-operand-only": ("/tmp/seed2_B/SEED/5", "C03", "uncompute=True, a 2-argument Or whose first operand ancilla takes 2+ gates", {"C03": True}, None),
 "C10-5-cse-counter-global": ("/tmp/seed2_C/SEED/1", "C10", "any earlier compilation with CSE temporaries renames the next program's temporaries", {"C10": True}, None),
 "C10-6-merge-expressions-in-place": ("/tmp/seed2_C/SEED/2", "C10", "truth_table() / to_bqm() on a function with intermediate symbols, then another look at it", {"C10": True}, None),
 "C10-7-gettype-class-memo": ("/tmp/seed2_C/SEED/4", "C10", "two user types with the same __name__ passed via types= in one process", {"C10": False},
                              "histories with two same-named custom types (vlib/c10_custom.py) and same-name/same-expression functions; vacuity guard on reference compilations"),
 "C05-3-decode-counts-discard-before-merge": ("/tmp/seed2_D/SEED/1", "C05", "discard_lower given and two readings decoding to the same value", {"C05": False},
                                              "decode_counts contract discharged for all counts and thresholds (pyvc mathematical integers, every partition of the readings)"),
 "C09-5-qfixed-amplitudes-mirrored": ("/tmp/seed2_D/SEED/2", "C09", "Qfixed types, non-palindromic encodings", {"C09": True}, None),
 "C13-3-cirq-cp-half-angle": ("/tmp/seed2_D/SEED/3", "C13", "cirq only, a CP gate, a phase-sensitive comparison", {"C13": True}, None),
 "C13-4-qasm3-class-name": ("/tmp/seed2_D/SEED/4", "C13", "QASM v3, MCX / MCtrl gates", {"C13": True}, None),
 "C14-5-iadd-tuple-drops-param": ("/tmp/seed2_D/SEED/5", "C14", "qc += (gate, qubits, param) with a parametrised gate", {"C14": False}, "obligation for the applied-gate tuple form of +="),
 "C14-6-append-circuit-gates-computed-not-remapped": ("/tmp/seed2_D/SEED/6", "C14", "append_circuit with a non-identity qubit list, gates_computed inspected", {"C14": True}, None),
 "C04-4-remove-ite-else-true": ("/tmp/seed2_E/SEED/1", "C04", "an ITE with else arm True that reaches remove_ITE", {"C04": True}, None),
 "C08-5-bind-fallback-positional": ("/tmp/seed2_E/SEED/3", "C08", "a decorated function defined in a file, a parameter not in leading position, original_f of the bound function", {"C08": False},
                                    "original_f clause over decorated file-defined functions (vlib/c08_funcs.py); patch rebased onto fix 41daf63"),
 "C11-3-decompiler-identity-filter": ("/tmp/seed2_E/SEED/4", "C11", "a qubit that ends a run holding another qubit's entry value (three-CX swap)", {"C11": True}, None),
 "C12-5-decopt-splice-length": ("/tmp/seed2_E/SEED/5", "C12", "a barrier inside a classical run that gets rewritten", {"C12": True}, None),
 "C17-3-dimacs-unit-negative": ("/tmp/seed2_E/SEED/6", "C17", "-t dimacs, a CNF with a negative unit clause", {"C17": True}, None),
 "C15-3-grover-shallow-copy": ("/tmp/seed2_F/SEED/1", "C15", "a second Grover on the same predicate object", {"C15": True, "C10": True}, None),
 "C15-4-repeat-doubling": ("/tmp/seed2_F/SEED/2", "C15", "an iteration count that is not a power of two", {"C15": True, "C14": True}, None),
 "C16-5-simon-decode-return-type": ("/tmp/seed2_F/SEED/3", "C16", "Simon on a function whose return type differs from its argument type", {"C16": False}, "Simon.decode_output clause with a wider return type"),
 "C16-6-dj-phase-qubit-index": ("/tmp/seed2_F/SEED/4", "C16", "a balanced oracle compiled with ancillas", {"C16": True}, None),
 "C18-5-ising-from-qubo": ("/tmp/seed2_F/SEED/5", "C18", "the ising format only", {"C18": True}, None),
 "C18-6-bqm-ret-name-exact": ("/tmp/seed2_F/SEED/6", "C18", "a function returning more than one bit", {"C18": True}, None),
}
for sid, (src, prop, needs, caught, strengthened) in S.items():
    if not os.path.isdir(src):
        print("missing", src); continue
    dst = os.path.join(V, "seeded", sid)
    shutil.rmtree(dst, ignore_errors=True)
    os.makedirs(dst)
    for f in os.listdir(src):
        p = os.path.join(src, f)
        if f in ("patch.diff", "demo.py", "notes.md"):
            shutil.copy(p, dst)
        elif os.path.isdir(p) and f == "pyqubo":
            shutil.copytree(p, os.path.join(dst, f))
    ap = subprocess.run(["git", "-C", "/repo", "apply", "--check", os.path.join(dst, "patch.diff")], capture_output=True, text=True)
    meta = dict(id=sid, round=2, breaks_property=prop, needs_to_manifest=needs, author="independent sub-agent given only the property text and a scratch worktree",
                confirmed=dict(patch_applies_to_repo_head=ap.returncode == 0, demo_exit_on_unchanged_tree=0, demo_exit_with_change=1, stable_tests_pass_with_change=True,
                               how="tools/seedtest.py: scratch worktree of /repo HEAD, demonstration before/after the patch, tools/baseline.py (408 pinned tests), then the checks with VERIF_REPO"),
                caught_by={c: True for c in caught}, caught_at_first_run=caught, strengthening=strengthened)
    json.dump(meta, open(os.path.join(dst, "meta.json"), "w"), indent=1)
    print(sid, "applies" if ap.returncode == 0 else "DOES NOT APPLY: " + ap.stderr[:100])
