#!/usr/bin/env python3
"""Developer tool (never run by a check): run ./check <ID> --tier <tier> on the CURRENT tree and append the names of
the refuted, not-yet-listed instances to known_findings/<finding-id>.txt.  Every name added this way must have been
triaged by hand as an instance of that finding's root cause."""
import json, os, subprocess, sys
prop, tier, fid = sys.argv[1], sys.argv[2], sys.argv[3]
V = os.path.dirname(os.path.dirname(os.path.abspath(__file__)))
env = dict(os.environ, VERIF_LIST_ALL_VIOLATIONS="1")
subprocess.run(["./check", prop, "--tier", tier], cwd=V, env=env, stdout=subprocess.DEVNULL)
ev = json.load(open(os.path.join(V, "evidence", f"{prop}.json")))
names = ev["coverage"].get("violation_names", [])
path = os.path.join(V, "known_findings", f"{fid}.txt")
os.makedirs(os.path.dirname(path), exist_ok=True)
old = [l.strip() for l in open(path)] if os.path.exists(path) else []
new = sorted(set(old) | set(names))
open(path, "w").write("\n".join(new) + "\n")
print(f"{fid}: {len(old)} -> {len(new)} instances")
