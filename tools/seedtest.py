#!/usr/bin/env python3
"""Self-validation helper: apply a seeded change to a SCRATCH worktree of /repo (never to /repo itself), confirm that the repository's
stable tests still pass and that the author's demonstration fails with the change, run the given checks against the scratch tree
(VERIF_REPO) with evidence redirected to a scratch directory (VERIF_OUT), print one line per check, and remove the worktree.

usage: tools/seedtest.py <seed dir with patch.diff [+ demo.py]> <property id> [<property id> ...] [--tier quick|thorough] [--skip-tests]"""
import json, os, shutil, subprocess, sys, tempfile, time
V = os.path.dirname(os.path.dirname(os.path.abspath(__file__)))
args = [a for a in sys.argv[1:] if not a.startswith("--")]
tier = "thorough" if "--tier=thorough" in sys.argv or "thorough" in sys.argv[1:] and "--tier" in sys.argv else "quick"
seed, props = os.path.abspath(args[0]), [a for a in args[1:] if a not in ("quick", "thorough")]
scratch = tempfile.mkdtemp(prefix="seedrun_", dir="/tmp")
wt = os.path.join(scratch, "repo")
out = os.path.join(scratch, "out")
res = dict(seed=seed, tier=tier, checks={})
try:
    subprocess.run(["git", "-C", "/repo", "worktree", "add", "-q", wt, "HEAD"], check=True)
    demo = os.path.join(seed, "demo.py")
    env = dict(os.environ, PYTHONPATH=wt)
    if os.path.exists(demo):
        r0 = subprocess.run(["/venv/bin/python", demo], env=env, capture_output=True, text=True, cwd=seed, timeout=600)
        res["demo_unchanged_exit"] = r0.returncode
    ap = subprocess.run(["git", "-C", wt, "apply", os.path.abspath(os.path.join(seed, "patch.diff"))], capture_output=True, text=True)
    if ap.returncode:
        print("PATCH DOES NOT APPLY:", ap.stderr[:400]); sys.exit(2)
    if os.path.exists(demo):
        r1 = subprocess.run(["/venv/bin/python", demo], env=env, capture_output=True, text=True, cwd=seed, timeout=600)
        res["demo_changed_exit"] = r1.returncode
    if "--skip-tests" not in sys.argv:
        t = subprocess.run([sys.executable, os.path.join(V, "tools", "baseline.py"), wt], capture_output=True, text=True)
        res["stable_tests"] = t.stdout.strip().splitlines()[0] if t.stdout.strip() else t.stderr[-200:]
        res["stable_tests_ok"] = t.returncode == 0
    for p in props:
        t0 = time.time()
        c = subprocess.run([os.path.join(V, "check"), p, "--tier", tier], env=dict(os.environ, VERIF_REPO=wt, VERIF_OUT=out), capture_output=True, text=True, cwd=V)
        lines = [l for l in c.stdout.splitlines() if l.startswith(("VIOLATION", "RESULT", "ENGINE", "UNDECIDED", "CHECKER"))]
        res["checks"][p] = dict(exit=c.returncode, secs=round(time.time() - t0, 1), first_violation=next((l for l in lines if l.startswith("VIOLATION")), None),
                                result=next((l for l in lines if l.startswith("RESULT")), None), n_violation_lines=sum(1 for l in lines if l.startswith("VIOLATION")))
        fv = res["checks"][p]["first_violation"]
        if fv:
            rp = os.path.join(out, fv.split("replay=")[1].split()[0])
            try:
                d = json.load(open(rp))
                res["checks"][p]["obligation"] = d.get("obligation")
            except Exception:
                pass
    print(json.dumps(res, indent=1))
finally:
    subprocess.run(["git", "-C", "/repo", "worktree", "remove", "--force", wt], capture_output=True)
    shutil.rmtree(scratch, ignore_errors=True)
