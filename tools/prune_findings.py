#!/usr/bin/env python3
"""Developer tool (never run by a check): drop from an instance list the names that no longer fail in either tier (e.g. after a fix: commit).
Runs ./check <ID> in both tiers with the list emptied and keeps old ∩ failing; never ADDS a name (adding needs triage: tools/update_findings.py)."""
import json, os, subprocess, sys
prop, fid = sys.argv[1], sys.argv[2]
V = os.path.dirname(os.path.dirname(os.path.abspath(__file__)))
path = os.path.join(V, "known_findings", f"{fid}.txt")
old = [l.strip() for l in open(path) if l.strip()]
open(path, "w").write("")
failing = set()
try:
    for tier in ("thorough", "quick"):
        subprocess.run(["./check", prop, "--tier", tier], cwd=V, env=dict(os.environ, VERIF_LIST_ALL_VIOLATIONS="1"), stdout=subprocess.DEVNULL)
        ev = json.load(open(os.path.join(V, "evidence", f"{prop}.json")))
        failing |= set(ev["coverage"].get("violation_names", []))
finally:
    keep = sorted(set(old) & failing) if failing else old
    open(path, "w").write("\n".join(keep) + "\n")
print(f"{fid}: {len(old)} -> {len(keep)} instances ({len(failing - set(old))} failing names are NOT listed)")
