#!/usr/bin/env python3
"""Developer tool (round 6): copy the triaged seeded changes of the sixth round of sub-agents into /verif/seeded/<id>/ and write meta.json.
Verdicts were established with tools/seedtest.py and tools/baseline.py (408 pinned tests re-run for every change); recorded by hand from those logs."""
import json, os, shutil, subprocess
V = os.path.dirname(os.path.dirname(os.path.abspath(__file__)))
S = {
 "C02-9-cache-hit-with-dest-returns-cached": ("/tmp/seed6_A/SEED/1", "C02", "fast optimizer; an Xor operand that is a compound sub-expression already computed in the same statement", {"C02": True}, None),
 "C03-6-uncompute-keeps-gates-reading-outputs": ("/tmp/seed6_A/SEED/2", "C03", "uncompute=True; a return bit that is a re-mapped variable and a non-returned variable computed from it", {"C03": True}, None),
 "C06-3-compile-memo-ignores-uncompute": ("/tmp/seed6_A/SEED/3", "C06", "the same QlassF built with uncompute=False and then compiled with uncompute=True", {"C06": False, "C10": True}, "QlassF.compile under contract in C02/C03/C06 (stores exactly to_quantum on its own fields for the requested settings, whatever was compiled before): the compiler checks had called to_quantum directly; C10's re-compilation invariant reported it at the first run"),
 "C03-7-self-not-in-place-on-computed-qubit": ("/tmp/seed6_A/SEED/4", "C03", "a computed variable that feeds another scratch variable, is re-assigned `c = not c` and returned", {"C03": True}, None),
 "C02-10-last-statement-negates-in-place": ("/tmp/seed6_A/SEED/5", "C02", "a multi-bit return whose last bit is `not v` with v returned earlier", {"C02": True}, None),
 "C09-10-zero-amplitudes-shared": ("/tmp/seed6_B/SEED/1", "C09", "two different values of the same Qint width encoded in one process", {"C09": True}, None),
 "C12-9-mcx-controls-read-at-section-start": ("/tmp/seed6_B/SEED/2", "C12", "an MCX with 3+ controls one of which is written earlier in the same section", {"C12": False, "C11": True}, "C12: runs over four qubits with 3-control MCX gates (the loop-step obligations of C11, whose function the slip is in, reported it at the first run)"),
 "C12-10-simplify-memo-by-target": ("/tmp/seed6_B/SEED/3", "C12", "two sections writing the same qubit with different functions", {"C12": True}, None),
 "C04-10-implies-arguments-sorted": ("/tmp/seed6_B/SEED/4", "C04", "an implication whose consequent sorts before its antecedent", {"C04": True}, None),
 "C09-11-qchar-const-seven-bits": ("/tmp/seed6_B/SEED/5", "C09", "a character constant with code 128..255", {"C09": True}, None),
 "C11-8-single-trailing-barrier-trimmed": ("/tmp/seed6_C/SEED/1", "C11", "two or more barriers right after the last classical gate of a section", {"C11": True}, None),
 "C13-12-sympy-ket-width-used-qubits": ("/tmp/seed6_C/SEED/2", "C13", "sympy circuit mode with an idle highest-index qubit", {"C13": True}, None),
 "C13-13-qasm-formals-only-used": ("/tmp/seed6_C/SEED/3", "C13", "any idle qubit", {"C13": True}, None),
 "C13-14-qasm-body-first-alias": ("/tmp/seed6_C/SEED/4", "C13", "a qubit with two names touched by a gate", {"C13": True}, None),
 "C16-12-bv-decode-string-as-int": ("/tmp/seed6_C/SEED/5", "C16", "a Bernstein-Vazirani oracle whose argument is not a Qint (tuple / list of bools, bool)", {"C16": False}, "Bernstein-Vazirani oracles over tuple and list arguments; the decoded value must have the argument's TYPE (bool, not 1)"),
}
for sid, (src, prop, needs, caught, strengthened) in S.items():
    if not os.path.isdir(src):
        print("missing", src); continue
    dst = os.path.join(V, "seeded", sid)
    shutil.rmtree(dst, ignore_errors=True)
    os.makedirs(dst)
    for f in os.listdir(src):
        p = os.path.join(src, f)
        if f in ("patch.diff", "demo.py", "notes.md"):
            shutil.copy(p, dst)
        elif os.path.isdir(p) and f == "pyqubo":
            shutil.copytree(p, os.path.join(dst, f))
    ap = subprocess.run(["git", "-C", "/repo", "apply", "--check", os.path.join(dst, "patch.diff")], capture_output=True, text=True)
    meta = dict(id=sid, round=6, breaks_property=prop, needs_to_manifest=needs, author="independent sub-agent given only the property text and a scratch worktree",
                confirmed=dict(patch_applies_to_repo_head=ap.returncode == 0, demo_exit_on_unchanged_tree=0, demo_exit_with_change=1, stable_tests_pass_with_change=True,
                               how="tools/seedtest.py: scratch worktree of /repo HEAD, demonstration before/after the patch, tools/baseline.py (408 pinned tests), then the checks with VERIF_REPO"),
                caught_by={c: True for c in caught}, caught_at_first_run=caught, strengthening=strengthened)
    json.dump(meta, open(os.path.join(dst, "meta.json"), "w"), indent=1)
    print(sid, "applies" if ap.returncode == 0 else "DOES NOT APPLY: " + ap.stderr[:100])
