#!/usr/bin/env python3
"""Run the repository's pinned test-suite (guard off) and compare with /root/.vp/BASELINE.json stable_pass."""
import json, os, subprocess, sys, tempfile, xml.etree.ElementTree as ET
repo = sys.argv[1] if len(sys.argv) > 1 else "/repo"
base = json.load(open("/root/.vp/BASELINE.json"))
fd, path = tempfile.mkstemp(suffix=".xml"); os.close(fd)
env = dict(os.environ); env.pop("QLASSKIT_VERIF", None)
subprocess.run(["/venv/bin/python", "-m", "pytest", "-q", "-p", "no:cacheprovider", "--timeout=900", "--continue-on-collection-errors",
                f"--junitxml={path}", "-x" if "-x" in sys.argv else "-q"], cwd=repo, env=env, stdout=subprocess.DEVNULL, stderr=subprocess.DEVNULL)
passed = set()
for tc in ET.parse(path).getroot().iter("testcase"):
    if not any(c.tag in ("failure", "error", "skipped") for c in tc):
        passed.add(f"{tc.get('classname')}::{tc.get('name')}")
os.unlink(path)
missing = [t for t in base["stable_pass"] if t not in passed]
print(f"stable_pass={len(base['stable_pass'])} passed_now={len(passed)} missing={len(missing)}")
for m in missing[:20]: print("  MISSING", m)
sys.exit(1 if missing else 0)
