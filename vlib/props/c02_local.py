"""C02 / C06, local layer - STEP contracts of the synthesiser's node compilers, discharged for all qubit VALUES.

The recursive structure of InternalCompiler is  compile_expr -> compile_{and,or,not,xor,symbol} -> compile_expr (on the operands).  Each node compiler
is verified MODULARLY: the real method runs (natively - its control flow depends on qubit indices and node kinds only, which the shape fixes) on a
QCircuitEnhanced whose qubits hold SYMBOLIC values, with `self.compile_expr` on the operands REPLACED BY ITS CONTRACT

    compile_expr(qc, e, dest=None)   ensures  returns a qubit r holding den(e); no other qubit changes
    compile_expr(qc, e, dest=d)      ensures  returns d and  d' = d xor den(e); no other qubit changes          (xor-accumulation)

(operands are opaque formulas - pyvc.Hole - with an unknown truth value each, or input symbols).  The gates the method appended are then executed
on the symbolic state (X, CX, CCX, MCX: z3 booleans) and the method's own postcondition - the same contract, one level up, plus its bookkeeping
clauses - is proved by z3 for ALL values of the operands and of every pre-existing qubit.

  requires (assumed, stated): the operands' result qubits are pairwise distinct and differ from dest; free ancillas hold 0; compile_or has <= 2 operands
  (its own TODO - the optimizer removes wider Ors); expqmap entries hold their denotation.
  Shapes: arity 2..4, each operand on a fresh ancilla / on a named (non-ancilla) qubit / an input symbol, dest absent or an occupied qubit,
  a free ancilla available or not.

These are the clauses the property needs of each node: "results are accumulated with CX/MCX into a destination" (C06), "leaves on each output qubit
the value of the expression" (C02), "marks the operand ancillas for uncomputation" (C03).  compile_not with a destination and an operand that lives on
an ancilla BREAKS the callee contract it is assumed to satisfy (it negates the operand in place and returns the operand's qubit).  No caller reaches
that shape on sympy-canonical expressions (see ob_not): the clause is reported as DIAGNOSTIC."""
import itertools
import time

from ..common import PROVED, REFUTED, UNDECIDED, res


def _setup(n_inputs=3, named=2, occupied=1, free=1):
    """a QCircuitEnhanced with input qubits a, b, c..., `named` non-ancilla qubits (promoted intermediates), `occupied` busy ancillas, `free` free ones"""
    from qlasskit.qcircuit.qcircuitenhanced import QCircuitEnhanced
    qc = QCircuitEnhanced(name="t")
    names = "abcdefgh"
    for i in range(n_inputs):
        qc.add_qubit(names[i])
    nm = [qc.add_qubit(f"x{i}") for i in range(named)]
    occ = [qc.add_ancilla(is_free=False) for _ in range(occupied)]
    fr = [qc.add_ancilla(is_free=True) for _ in range(free)]
    return qc, nm, occ, fr


class Ghost:
    """symbolic state of the qubits; executes the real gates appended so far and the pseudo-writes of the callee contract"""

    def __init__(self, qc, z3):
        self.z3, self.qc = z3, qc
        self.state = {}
        for q in range(qc.num_qubits):
            self.state[q] = z3.BoolVal(False) if q in qc.free_ancilla_lst else z3.Bool(f"s{q}")
        self.pre = dict(self.state)
        self.done = 0
        self.expected = dict(self.state)        # what the state must be: pre, plus the callee's contractual writes, plus the method's own effect

    def advance(self):
        z3 = self.z3
        gs = self.qc.gates
        while self.done < len(gs):
            g, w, _ = gs[self.done]
            self.done += 1
            k = type(g).__name__
            for q in w:
                if q not in self.state:          # a qubit added during the call starts in |0>
                    self.state[q] = z3.BoolVal(False)
                    self.expected.setdefault(q, z3.BoolVal(False))
                    self.pre.setdefault(q, z3.BoolVal(False))
            if k == "X":
                self.state[w[0]] = z3.Not(self.state[w[0]])
            elif k in ("CX", "CCX", "MCX") or (k == "MCtrl" and type(g.gate).__name__ == "X"):
                self.state[w[-1]] = z3.Xor(self.state[w[-1]], z3.And(*[self.state[c] for c in w[:-1]]) if len(w) > 2 else self.state[w[0]])
            elif g.is_nop():
                pass
            else:
                raise ValueError(f"unexpected gate {k}")

    def q(self, i):
        z3 = self.z3
        if i not in self.state:
            self.state[i] = z3.BoolVal(False)
            self.expected.setdefault(i, z3.BoolVal(False))
            self.pre.setdefault(i, z3.BoolVal(False))
        return self.state[i]


def _den(e, ghost, qc, vals, z3):
    """truth value of an operand: holes have their unknown value, symbols are read from the qubit they are mapped to NOW"""
    import sympy
    from sympy.logic import boolalg
    from .. import pyvc
    if isinstance(e, pyvc.Hole):
        return vals[e.args[0].name]
    if isinstance(e, sympy.Symbol):
        return ghost.q(qc[e.name])
    if isinstance(e, boolalg.Not):
        return z3.Not(_den(e.args[0], ghost, qc, vals, z3))
    if isinstance(e, boolalg.And):
        return z3.And(*[_den(x, ghost, qc, vals, z3) for x in e.args])
    if isinstance(e, boolalg.Or):
        return z3.Or(*[_den(x, ghost, qc, vals, z3) for x in e.args])
    if isinstance(e, boolalg.Xor):
        r = z3.BoolVal(False)
        for x in e.args:
            r = z3.Xor(r, _den(x, ghost, qc, vals, z3))
        return r
    raise ValueError(type(e).__name__)


def make_stub(placement, ghost, qc, vals, z3, calls):
    """InternalCompiler whose compile_expr IS the contract.  placement: hole name -> 'anc' (result on a fresh ancilla) | qubit index (named qubit)"""
    import sympy
    from qlasskit.compiler.internalcompiler import InternalCompiler
    from qlasskit.compiler import ExpQMap
    from .. import pyvc

    class Stub(InternalCompiler):
        def compile_expr(self, qc_, expr, dest=None, sym=None):
            ghost.advance()
            v = _den(expr, ghost, qc_, vals, z3)
            if dest is not None:
                calls.append((expr, dest, dest))
                ghost.q(dest)
                ghost.state[dest] = z3.Xor(ghost.state[dest], v)
                ghost.expected[dest] = z3.Xor(ghost.expected[dest], v)
                return dest
            if isinstance(expr, sympy.Symbol):
                calls.append((expr, dest, qc_[expr.name]))
                return qc_[expr.name]
            key = expr.args[0].name if isinstance(expr, pyvc.Hole) else str(expr)
            where = placement.get(key, "anc")
            r = qc_.get_free_ancilla() if where == "anc" else where
            calls.append((expr, dest, r))
            ghost.q(r)
            if where == "anc":
                ghost.state[r] = v
                ghost.expected[r] = v
            else:
                # a named qubit already holding the value (cached / promoted intermediate)
                ghost.state[r] = v
                ghost.expected[r] = v
                ghost.pre[r] = v
            return r
    s = Stub()
    s.expqmap = ExpQMap()
    s.input_symbols = [k for k in qc.qubit_map if len(k) == 1]
    return s


def _mk_operands(kinds, nm):
    """kinds: list of 'anc' | 'named' | 'sym'  ->  (sympy operands, placement)"""
    import sympy
    from .. import pyvc
    ops, placement, ni, si = [], {}, 0, 0
    for i, k in enumerate(kinds):
        if k == "sym":
            ops.append(sympy.Symbol("abc"[si]))
            si += 1
        else:
            h = pyvc.Hole(sympy.Symbol(f"k{i}"))
            ops.append(h)
            if k == "named":
                placement[f"k{i}"] = nm[ni]
                ni += 1
    return ops, placement


def _check(name, ghost, z3, goal_pairs, extra_ok, t0, detail):
    from .. import pyvc
    base = dict(strength="proved-class", backend="z3")
    if extra_ok is not True:
        return res(name, REFUTED, replayed=False, detail=f"bookkeeping clause fails: {extra_ok}; {detail}", solver_output="structural", secs=time.time() - t0, **base)
    goal = z3.And(*[a == b for a, b in goal_pairs]) if goal_pairs else z3.BoolVal(True)
    st, model, secs, backend = pyvc.solve([], goal, 10000)
    if st == PROVED:
        return res(name, PROVED, secs=time.time() - t0, **base)
    if st == REFUTED:
        bad = [i for i, (a, b) in enumerate(goal_pairs) if not z3.is_true(model.eval(a == b, model_completion=True))]
        return res(name, REFUTED, replayed=False, secs=time.time() - t0, solver_output=str(model)[:400],
                   detail=f"{detail}; qubit clauses failing under the model: {bad}", **base)
    return res(name, UNDECIDED, detail="solver undecided", **base)


def ob_and_or(a):
    """compile_and / compile_or:  ensures ret = dest (or a zero ancilla), ret' = ret xor OP(operands), every other qubit as the callee contract left it;
    every operand result that is an ancilla is marked for uncomputation; expqmap[expr] = ret"""
    import z3
    from sympy.logic import boolalg
    which, kinds, dest_mode, free = a
    t0 = time.time()
    name = f"C02.local.compile_{which}.step[operands on {'/'.join(kinds)}; dest {dest_mode}; {'a' if free else 'no'} free ancilla]"
    qc, nm, occ, fr = _setup(named=2, occupied=1, free=1 if free else 0)
    ops, placement = _mk_operands(kinds, nm)
    vals = {f"k{i}": z3.Bool(f"v{i}") for i in range(len(kinds))}
    ghost = Ghost(qc, z3)
    calls = []
    stub = make_stub(placement, ghost, qc, vals, z3, calls)
    expr = (boolalg.And if which == "and" else boolalg.Or)(*ops, evaluate=False)
    dest = occ[0] if dest_mode == "given" else None
    n0 = qc.num_qubits
    try:
        ret = getattr(type(stub).__mro__[1], f"compile_{which}")(stub, qc, expr, dest)
    except Exception as ex:  # noqa
        return [res(name, REFUTED, strength="proved-class", backend="z3", replayed=False, detail=f"raises {type(ex).__name__}: {ex}"[:200], solver_output="raises")]
    ghost.advance()
    opv = [_den(o, ghost, qc, vals, z3) for o in ops]        # symbols are inputs: unchanged by the method (checked below)
    val = z3.And(*opv) if which == "and" else z3.Or(*opv)
    ghost.q(ret)
    ghost.expected[ret] = z3.Xor(ghost.expected[ret], val)
    pairs = [(ghost.state[q], ghost.expected[q]) for q in sorted(ghost.state)]
    rqs = [qc[o.name] if o.is_Symbol else None for o in ops]
    extra = True
    if dest is not None and ret != dest:
        extra = f"returns qubit {ret}, not dest {dest}"
    elif dest is None and not (ret in fr or ret >= n0):
        extra = f"returns the occupied qubit {ret}"
    elif stub.expqmap.exp_map.get(expr) != ret:
        extra = "expqmap[expr] is not the returned qubit"
    else:
        # every operand result that lives on an ancilla must be marked for uncomputation (C03's clause at this node)
        want_marked = {r for (_e, _d, r) in calls if r in qc.ancilla_lst and r != ret}
        missing = {q for q in want_marked if q not in set(qc.marked_ancillas)}
        if missing:
            extra = f"operand ancillas {sorted(missing)} are not marked for uncomputation"
    return [_check(name, ghost, z3, pairs, extra, t0, f"gates appended: {[(type(g).__name__, list(w)) for g, w, _ in qc.gates]}")]


def ob_not(a):
    """compile_not:  self-not (a = ~a on the symbol's own qubit): negates in place;  otherwise ret' = ret xor not(operand) under the same frame"""
    import sympy
    import z3
    from sympy.logic import boolalg
    from qlasskit.compiler.internalcompiler import InternalCompiler
    case, dest_mode = a
    t0 = time.time()
    name = f"C02.local.compile_not.step[operand {case}; dest {dest_mode}]"
    qc, nm, occ, fr = _setup(named=2, occupied=1, free=1)
    vals = {"k0": z3.Bool("v0")}
    ghost = Ghost(qc, z3)
    calls = []
    if case == "self-symbol":
        opnd, placement, sym = sympy.Symbol("a"), {}, sympy.Symbol("a")
    elif case == "input symbol":
        opnd, placement, sym = sympy.Symbol("a"), {}, None
    else:
        (opnd,), placement = _mk_operands(["named" if case == "on a named qubit" else "anc"], nm)
        sym = None
    stub = make_stub(placement, ghost, qc, vals, z3, calls)
    expr = boolalg.Not(opnd, evaluate=False)
    dest = occ[0] if dest_mode == "given" else None
    n0 = qc.num_qubits
    try:
        ret = InternalCompiler.compile_not(stub, qc, expr, dest, sym)
    except Exception as ex:  # noqa
        return [res(name, REFUTED, strength="proved-class", backend="z3", replayed=False, detail=f"raises {type(ex).__name__}: {ex}"[:200], solver_output="raises")]
    ghost.advance()
    extra = True
    if case == "self-symbol":
        q = qc["a"]
        ghost.expected[q] = z3.Not(ghost.pre[q])
        if ret != q:
            extra = f"returns {ret}, not the symbol's qubit {q}"
    else:
        # den(operand) BEFORE the method touched anything: holes have their value, the input symbol its entry value
        v = vals["k0"] if not opnd.is_Symbol else ghost.pre[qc["a"]]
        if dest is not None:
            # contract with a destination: returns dest, dest' = dest xor not v, the operand's qubit keeps v
            if ret != dest:
                extra = f"returns qubit {ret}, not dest {dest}: the caller's accumulated value is lost"
            ghost.q(dest)
            ghost.expected[dest] = z3.Xor(ghost.pre[dest], z3.Not(v))
        else:
            ghost.q(ret)
            # the result qubit holds not v; if the operand lived on an ancilla it may be consumed (negated in place) - that is allowed without dest
            ghost.expected[ret] = z3.Not(v)
            if stub.expqmap.exp_map.get(expr) != ret:
                extra = "expqmap[expr] is not the returned qubit"
    pairs = [(ghost.state[q], ghost.expected[q]) for q in sorted(ghost.state)]
    r = _check(name, ghost, z3, pairs, extra, t0, f"gates appended: {[(type(g).__name__, list(w)) for g, w, _ in qc.gates]}")
    if case == "on an ancilla" and dest_mode == "given":
        # No caller reaches this shape on sympy-canonical expressions: a destination is only passed by compile_xor, which handles Not(non-symbol)
        # itself (case 2.4) and never sees Not(symbol) (sympy pulls negations out of a Xor); searched: no program of the thorough family
        # (2 600 programs x 2 profiles) calls compile_not with a destination and gets another qubit back.  Without a failing input this is a
        # contract breach of an unreachable shape: DIAGNOSTIC, not a verdict.
        r["strength"] = "diagnostic"
    return [r]


def ob_xor(a):
    """compile_xor:  ret = dest (or a zero ancilla), ret' = ret xor XOR(operands) - symbols by CX, Not(non-symbol) by accumulating the operand then X,
    everything else accumulated through the callee contract; expqmap[expr] = ret"""
    import z3
    import sympy
    from sympy.logic import boolalg
    from qlasskit.compiler.internalcompiler import InternalCompiler
    from .. import pyvc
    kinds, dest_mode = a
    t0 = time.time()
    name = f"C02.local.compile_xor.step[operands {'/'.join(kinds)}; dest {dest_mode}]"
    qc, nm, occ, fr = _setup(named=2, occupied=1, free=1)
    ops, vals, si = [], {}, 0
    for i, k in enumerate(kinds):
        if k == "sym":
            ops.append(sympy.Symbol("abc"[si]))
            si += 1
        elif k == "not-sym":
            ops.append(boolalg.Not(sympy.Symbol("abc"[si])))
            si += 1
        else:
            h = pyvc.Hole(sympy.Symbol(f"k{i}"))
            vals[f"k{i}"] = z3.Bool(f"v{i}")
            ops.append(h if k == "hole" else boolalg.Not(h, evaluate=False))
    ghost = Ghost(qc, z3)
    calls = []
    stub = make_stub({}, ghost, qc, vals, z3, calls)
    expr = boolalg.Xor(*ops, evaluate=False)
    if type(expr).__name__ != "Xor" or len(expr.args) != len(ops):
        return []
    dest = occ[0] if dest_mode == "given" else None
    n0 = qc.num_qubits
    pre_inputs = {s: ghost.pre[qc[s]] for s in "abc"}
    try:
        ret = InternalCompiler.compile_xor(stub, qc, expr, dest)
    except Exception as ex:  # noqa
        return [res(name, REFUTED, strength="proved-class", backend="z3", replayed=False, detail=f"raises {type(ex).__name__}: {ex}"[:200], solver_output="raises")]
    ghost.advance()

    def den0(e):
        if isinstance(e, pyvc.Hole):
            return vals[e.args[0].name]
        if e.is_Symbol:
            return pre_inputs[e.name]
        return z3.Not(den0(e.args[0]))
    total = z3.BoolVal(False)
    for o in expr.args:
        total = z3.Xor(total, den0(o))
    extra = True
    if dest is not None and ret != dest:
        extra = f"returns qubit {ret}, not dest {dest}"
    elif dest is None and not (ret in fr or ret >= n0):
        extra = f"returns the occupied qubit {ret}"
    elif stub.expqmap.exp_map.get(expr) != ret:
        extra = "expqmap[expr] is not the returned qubit"
    # the stub already accounted its own accumulations in `expected`; restate the whole effect on ret from the entry state instead
    exp = dict(ghost.pre)
    for q in ghost.state:
        exp.setdefault(q, z3.BoolVal(False))
    exp[ret] = z3.Xor(exp[ret], total)
    pairs = [(ghost.state[q], exp[q]) for q in sorted(ghost.state)]
    return [_check(name, ghost, z3, pairs, extra, t0, f"gates appended: {[(type(g).__name__, list(w)) for g, w, _ in qc.gates]}")]


def ob_symbol_const(a):
    """compile_symbol / the constant and cached branches of compile_expr"""
    import sympy
    import z3
    from qlasskit.compiler import CompilerException, ExpQMap
    from qlasskit.compiler.internalcompiler import InternalCompiler
    from .. import pyvc
    case = a
    t0 = time.time()
    name = f"C02.local.compile_expr.leaf[{case}]"
    qc, nm, occ, fr = _setup(named=2, occupied=1, free=1)
    ghost = Ghost(qc, z3)
    comp = InternalCompiler()
    comp.expqmap = ExpQMap()
    comp.input_symbols = ["a", "b", "c"]
    extra = True
    n0 = qc.num_qubits
    try:
        if case == "return bit = input symbol":
            ret = comp.compile_expr(qc, sympy.Symbol("b"), sym=sympy.Symbol("_ret.0"))
            ghost.advance()
            ghost.q(ret)
            ghost.expected[ret] = ghost.pre[qc["b"]]
            if ret < n0 or qc.qubit_map.get("_ret.0") != ret:
                extra = "the return bit is not copied onto a new qubit named after it (the output would alias an argument qubit)"
        elif case == "return bit = intermediate symbol":
            ret = comp.compile_expr(qc, sympy.Symbol("x1"), sym=sympy.Symbol("_ret"))
            ghost.advance()
            if ret != qc["x1"] or len(qc.gates):
                extra = "an intermediate must be returned on its own qubit, without gates"
        elif case == "plain symbol":
            ret = comp.compile_expr(qc, sympy.Symbol("c"))
            ghost.advance()
            if ret != qc["c"] or len(qc.gates):
                extra = "a symbol must be returned on the qubit it is mapped to, without gates"
        elif case == "unknown symbol":
            try:
                comp.compile_expr(qc, sympy.Symbol("zz"))
                extra = "an unmapped symbol is accepted"
            except CompilerException:
                pass
            ghost.advance()
        elif case in ("constant True", "constant False", "constant True twice"):
            c = sympy.true if "True" in case else sympy.false
            ret = comp.compile_expr(qc, c)
            if case.endswith("twice"):
                ret2 = comp.compile_expr(qc, c)
                if ret2 != ret:
                    extra = "a second constant qubit is created"
            ghost.advance()
            ghost.q(ret)
            ghost.expected[ret] = z3.BoolVal("True" in case)
            if ret < n0:
                extra = "the constant lives on a pre-existing qubit"
        elif case in ("cached, no dest", "cached, dest given", "cached, dest is the cached qubit"):
            h = pyvc.Hole(sympy.Symbol("k0"))
            comp.expqmap[h] = nm[0]
            dest = None if case == "cached, no dest" else (occ[0] if case == "cached, dest given" else nm[0])
            ret = comp.compile_expr(qc, h, dest=dest)
            ghost.advance()
            if dest is None or dest == nm[0]:
                if ret != nm[0] or len(qc.gates):
                    extra = "a cached expression must be returned on its qubit, without gates"
            else:
                if ret != dest:
                    extra = f"returns {ret}, not dest {dest}"
                ghost.expected[dest] = z3.Xor(ghost.pre[dest], ghost.pre[nm[0]])
        elif case == "unsupported node kind":
            from sympy.logic import boolalg
            try:
                comp.compile_expr(qc, boolalg.ITE(sympy.Symbol("a"), sympy.Symbol("b"), sympy.Symbol("c"), evaluate=False))
                extra = "an ITE node is accepted by the synthesiser"
            except CompilerException:
                pass
            ghost.advance()
    except Exception as ex:  # noqa
        return [res(name, REFUTED, strength="proved-class", backend="z3", replayed=False, detail=f"raises {type(ex).__name__}: {ex}"[:200], solver_output="raises")]
    pairs = [(ghost.state[q], ghost.expected[q]) for q in sorted(ghost.state)]
    return [_check(name, ghost, z3, pairs, extra, t0, f"gates appended: {[(type(g).__name__, list(w)) for g, w, _ in qc.gates]}")]


def ob_dispatch(_):
    """compile_expr dispatches every node kind to its node compiler with (qc, expr, dest[, sym]) unchanged"""
    import sympy
    from sympy.logic import boolalg
    from qlasskit.compiler import ExpQMap
    from qlasskit.compiler.internalcompiler import InternalCompiler
    name = "C02.local.compile_expr.dispatch"
    seen = []

    class Rec(InternalCompiler):
        def compile_xor(self, qc, expr, dest=None):
            seen.append(("xor", expr, dest, None)); return 77

        def compile_not(self, qc, expr, dest=None, sym=None):
            seen.append(("not", expr, dest, sym)); return 77

        def compile_and(self, qc, expr, dest=None):
            seen.append(("and", expr, dest, None)); return 77

        def compile_or(self, qc, expr, dest=None):
            seen.append(("or", expr, dest, None)); return 77

        def compile_symbol(self, qc, expr, dest=None, sym=None):
            seen.append(("symbol", expr, dest, sym)); return 77
    a_, b_ = sympy.Symbol("a"), sympy.Symbol("b")
    s = sympy.Symbol("_ret")
    bad = []
    for kind, e in (("xor", boolalg.Xor(a_, b_)), ("not", boolalg.Not(a_)), ("and", boolalg.And(a_, b_)), ("or", boolalg.Or(a_, b_)), ("symbol", a_)):
        for dest in (None, 5):
            qc, nm, occ, fr = _setup()
            r = Rec()
            r.expqmap = ExpQMap()
            r.input_symbols = ["a", "b", "c"]
            del seen[:]
            ret = r.compile_expr(qc, e, dest=dest, sym=s)
            want_sym = s if kind in ("not", "symbol") else None
            if ret != 77 or len(seen) != 1 or seen[0][0] != kind or seen[0][1] is not e or seen[0][2] != dest or seen[0][3] is not want_sym or qc.gates:
                bad.append((kind, dest, [x[0] for x in seen]))
    if bad:
        return [res(name, REFUTED, strength="proved-class", backend="structural", replayed=False, detail=f"wrong dispatch: {bad}", solver_output="structural")]
    return [res(name, PROVED, strength="proved-class", backend="structural")]


def ob_compile_inputs(a):
    """compile(), step 1: one qubit per argument bit, in argument and bit order, and input_symbols = exactly those names (compile_symbol's decision
    'copy an input onto a new output qubit' reads it); shapes: 1-3 arguments of 1-3 bits"""
    from qlasskit.ast2logic.typing import Arg
    from qlasskit.compiler.internalcompiler import InternalCompiler
    widths = a
    name = f"C02.local.compile.inputs[arguments of {list(widths)} bits]"
    args = []
    for i, w in enumerate(widths):
        nm = "abc"[i]
        args.append(Arg(nm, bool, [nm] if w == 1 else [f"{nm}.{k}" for k in range(w)]))
    flat = [b for x in args for b in x.bitvec]
    comp = InternalCompiler()
    try:
        qc = comp.compile("f", args, None, [], uncompute=True)
    except Exception as ex:  # noqa
        return [res(name, REFUTED, strength="proved-class", backend="structural", replayed=False, detail=f"raises {type(ex).__name__}: {ex}"[:200], solver_output="raises")]
    ok = list(comp.input_symbols) == flat and [qc.qubit_map.get(b) for b in flat] == list(range(len(flat))) and qc.num_qubits == len(flat) and not qc.gates
    if not ok:
        return [res(name, REFUTED, strength="proved-class", backend="structural", replayed=False, solver_output="structural",
                    detail=f"input_symbols={list(comp.input_symbols)} qubit_map={dict(qc.qubit_map)} expected one qubit per bit of {flat} in order")]
    return [res(name, PROVED, strength="proved-class", backend="structural")]


def jobs(tier):
    js = []
    for widths in ((1,), (2,), (1, 1), (2, 1), (1, 3), (2, 2, 1), (1, 1, 1)):
        js.append((ob_compile_inputs, widths))
    placements = ["anc", "named", "sym"]
    for which in ("and", "or"):
        for ar in ((2, 3, 4) if which == "and" else (2,)):
            for kinds in itertools.product(placements, repeat=ar):
                if kinds.count("sym") > 3 or kinds.count("named") > 2:
                    continue
                if ar >= 3 and tuple(sorted(kinds)) != kinds:
                    continue
                for dest_mode in ("absent", "given"):
                    for free in (True, False):
                        js.append((ob_and_or, (which, kinds, dest_mode, free)))
    for case in ("self-symbol", "input symbol", "on a named qubit", "on an ancilla"):
        for dest_mode in (("absent",) if case == "self-symbol" else ("absent", "given")):
            js.append((ob_not, (case, dest_mode)))
    xk = ["sym", "hole", "not-hole", "not-sym"]
    for ar in (2, 3):
        for kinds in itertools.product(xk, repeat=ar):
            if kinds.count("sym") + kinds.count("not-sym") > 3:
                continue
            if ar == 3 and tuple(sorted(kinds)) != kinds:
                continue
            for dest_mode in ("absent", "given"):
                js.append((ob_xor, (kinds, dest_mode)))
    for case in ("return bit = input symbol", "return bit = intermediate symbol", "plain symbol", "unknown symbol", "constant True", "constant False",
                 "constant True twice", "cached, no dest", "cached, dest given", "cached, dest is the cached qubit", "unsupported node kind"):
        js.append((ob_symbol_const, case))
    js.append((ob_dispatch, None))
    return js


def job(j):
    f, a = j
    return f(a)
