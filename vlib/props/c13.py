"""C13 - exports denote the same operation on the same qubits.

Per exporter, export(qc, mode) ensures: the exported object, read back through the target's own introspection, applies the
gates of qc (nops dropped) in order to the same qubit indices - decided through the UNITARY of the export (qubit i of the circuit is
qubit i of the export; each framework's qubit-ordering convention is written into the contract and calibrated on an asymmetric
one-gate circuit first) - and has num_qubits qubits.
QASM (pure string construction): the `gate` header declares exactly num_qubits formal parameters, the i-th being the name used in
the body for qubit i; one body line per non-nop gate, in order, with the gate's name, its parameter printed with enough digits to
denote the same angle to 1e-9, and its wires; the application line lists q[0..n-1]; v2 has `qreg` and the include.

Bounded family of circuits; Qiskit / Cirq / sympy read-back APIs are an ASSUMED contract on a dependency (A5)."""
import itertools
import math
import random
import re
import time

from .. import common, spec
from ..common import PROVED, REFUTED, UNDECIDED, Report, res, run_pool


def gate_pool(nq):
    """(constructor source, wires, param) for every gate kind of gates.py that some exporter handles"""
    out = []
    for q in range(nq):
        for k in ("X", "H", "Z", "S", "T", "Y"):
            out.append((k, (q,), None))
    for a, b in itertools.permutations(range(nq), 2):
        out.append(("CX", (a, b), None))
        out.append(("CZ", (a, b), None))
        out.append(("Swap", (a, b), None))
        for th in (math.pi / 4, math.pi / 2, 2 * math.pi / 8, 1.0, 0.0):
            out.append(("CP", (a, b), th))
    for p3 in itertools.permutations(range(nq), 3):
        out.append(("CCX", p3, None))
        out.append(("MCX2", p3, None))
        out.append(("MCtrlZ2", p3, None))
        out.append(("MCtrlX2", p3, None))
    if nq >= 4:
        for p4 in list(itertools.permutations(range(nq), 4))[:6]:
            out.append(("MCX3", p4, None))
            out.append(("MCtrlZ3", p4, None))
    out.append(("Barrier", (), None))
    return out


def mk(kind):
    from qlasskit.qcircuit import gates
    if kind.startswith("MCX"):
        return gates.MCX(int(kind[3:]))
    if kind.startswith("MCtrlZ"):
        return gates.MCtrl(gates.Z(), int(kind[6:]))
    if kind.startswith("MCtrlX"):
        return gates.MCtrl(gates.X(), int(kind[6:]))
    return getattr(gates, kind)()


def build(nq, seq, name="qc"):
    from qlasskit.qcircuit import QCircuit
    qc = QCircuit(nq, name=name)
    for kind, ws, p in seq:
        qc.append(mk(kind), list(ws), p)
    return qc


SUPPORT = {
    "qiskit": lambda k: True,
    "cirq": lambda k: True,
    "sympy": lambda k: k in ("X", "H", "CX", "Swap", "CCX", "Barrier") or k.startswith("MCX"),
}


def export_unitary(qc, framework, mode):
    """unitary of the exported object with qubit 0 = least significant bit"""
    import numpy as np
    n = qc.num_qubits
    obj = qc.export(mode, framework)
    if framework == "qiskit":
        from qiskit.quantum_info import Operator
        if mode == "gate":
            if obj.num_qubits != n:
                raise AssertionError(f"gate on {obj.num_qubits} qubits")
            return np.asarray(Operator(obj).data)
        if obj.num_qubits != n:
            raise AssertionError(f"circuit on {obj.num_qubits} qubits")
        return np.asarray(Operator(obj).data)          # Qiskit: qubit 0 is the least significant bit
    if framework == "cirq":
        import cirq
        qs = cirq.LineQubit.range(n)
        if mode == "gate":
            g = obj()
            if cirq.num_qubits(g) != n:
                raise AssertionError(f"gate on {cirq.num_qubits(g)} qubits")
            circ = cirq.Circuit(cirq.decompose_once(g.on(*qs)))
        else:
            circ = obj
            if len(circ.all_qubits()) > n:
                raise AssertionError("more qubits than the circuit has")
        U = cirq.unitary(cirq.Circuit([cirq.I(q) for q in qs]) + circ) if n else np.eye(1)
        return spec.bit_reverse_unitary(np.asarray(U), n)   # Cirq: qubit 0 is the most significant bit
    if framework == "sympy":
        from sympy.physics.quantum.represent import represent
        if mode == "gate":
            if obj is None:
                return np.eye(2 ** n, dtype=complex)
            rep_ = represent(obj, nqubits=n)
            if not hasattr(rep_, "tolist"):
                # sympy collapsed the product (g * g) to the scalar 1: the identity operator
                return np.eye(2 ** n, dtype=complex) * complex(rep_)
            return np.array(rep_.tolist(), dtype=complex)
        raise NotImplementedError
    raise ValueError(framework)


def job_fw(a):
    framework, mode, nq, seqs = a
    import numpy as np
    out = []
    for seq in seqs:
        label = " ".join(f"{k}{list(w)}" + (f"({p:.4f})" if p else "") for k, w, p in seq)
        name = f"C13.{framework}.{mode}.same-unitary-same-qubits[{nq}q: {label}]"
        base = dict(strength="bounded", backend="numeric-1e-9")
        if not all(SUPPORT[framework](k) for k, _, _ in seq):
            continue
        qc = build(nq, seq)
        try:
            U = export_unitary(qc, framework, mode)
        except NotImplementedError:
            continue
        except Exception as ex:  # noqa
            out.append(res(name, REFUTED, replayed=True, replay=dict(gates=label, qubits=nq, observed=f"raises {type(ex).__name__}: {ex}"[:300],
                                                                     call=f"QCircuit.export('{mode}', '{framework}')"), **base))
            continue
        U0 = spec.unitary(qc.gates, nq)
        if U.shape == U0.shape and np.allclose(U, U0, atol=1e-9):
            out.append(res(name, PROVED, nontrivial=True, **base))
        else:
            # which basis column differs?
            col = next((j for j in range(U0.shape[1]) if U.shape != U0.shape or not np.allclose(U[:, j], U0[:, j], atol=1e-9)), 0)
            out.append(res(name, REFUTED, replayed=True, replay=dict(gates=label, qubits=nq, observed=f"unitary differs from the circuit's, first at basis state {col:0{nq}b} (qubit 0 rightmost)",
                                                                     call=f"QCircuit.export('{mode}', '{framework}')"), **base))
    return out


def job_sympy_state(a):
    """sympy circuit mode: the exported expression is gates * |0..0>; qapply must give the basis state the circuit produces"""
    nq, seqs = a
    from sympy.physics.quantum.qapply import qapply
    from sympy.physics.quantum.qubit import Qubit
    out = []
    for seq in seqs:
        if not all(k in ("X", "CX", "Swap", "CCX", "Barrier") or k.startswith("MCX") for k, _, _ in seq):
            continue
        label = " ".join(f"{k}{list(w)}" for k, w, p in seq)
        name = f"C13.sympy.circuit.basis-action[{nq}q: {label}]"
        base = dict(strength="bounded", backend="sympy-qapply")
        qc = build(nq, seq)
        try:
            st = qapply(qc.export("circuit", "sympy"))
        except Exception as ex:  # noqa
            out.append(res(name, REFUTED, replayed=True, replay=dict(gates=label, observed=f"raises {type(ex).__name__}: {ex}"[:200]), **base))
            continue
        U0 = spec.unitary(qc.gates, nq)
        idx = int(abs(U0[:, 0]).argmax())
        exp = Qubit(format(idx, f"0{nq}b"))
        if st == exp:
            out.append(res(name, PROVED, nontrivial=True, **base))
        else:
            out.append(res(name, REFUTED, replayed=True, replay=dict(gates=label, observed=str(st), expected=str(exp)), **base))
    return out


# ---- QASM ----------------------------------------------------------------------------------------

def parse_qasm(text, version):
    """60-line reader of the OPENQASM subset the exporter prints -> dict(header, params, body=[(name, param, operands)], app)"""
    lines = [l for l in text.split("\n")]
    d = dict(version=None, include=False, qreg=None, gate=None, params=None, body=[], app=None)
    i = 0
    for l in lines:
        s = l.strip()
        if not s:
            continue
        if s.startswith("OPENQASM"):
            d["version"] = s.rstrip(";").split()[1]
        elif s.startswith("include"):
            d["include"] = s
        elif s.startswith("qreg"):
            d["qreg"] = int(re.search(r"\[(\d+)\]", s).group(1))
        elif s.startswith("gate "):
            m = re.match(r"gate\s+(\S+)\s*(.*)\{$", s)
            d["gate"] = m.group(1)
            d["params"] = m.group(2).split()
        elif s == "}":
            continue
        elif l.startswith("\t"):
            m = re.match(r"([a-z_0-9]+)(?:\(([^)]*)\))?\s*(.*)$", s)
            d["body"].append((m.group(1), m.group(2), m.group(3).split()))
        else:
            m = re.match(r"(\S+)\s+(.*);$", s)
            if m:
                d["app"] = (m.group(1), [x.strip() for x in m.group(2).split(",")])
    return d


def qasm_check(qc, version, mode):
    from qlasskit.qcircuit.exporter_qasm import QasmExporter
    n = qc.num_qubits
    text = QasmExporter(version=version).export(qc, mode)
    d = parse_qasm(text, version)
    if d["params"] is None:
        return "no gate declaration", text
    if len(d["params"]) != n:
        return f"the gate declares {len(d['params'])} formal parameters {d['params']} for {n} qubits", text
    if len(set(d["params"])) != n:
        return f"duplicate formal parameter names {d['params']}", text
    real = [(g, w, p) for g, w, p in qc.gates if not g.is_nop()]
    if len(d["body"]) != len(real):
        return f"{len(d['body'])} body lines for {len(real)} gates", text
    angle = None
    for (nm, par, ops), (g, w, p) in zip(d["body"], real):
        if nm != g.name.lower():
            return f"gate {g.name} printed as {nm}", text
        try:
            idx = [d["params"].index(o) for o in ops]
        except ValueError:
            return f"operand {ops} is not a formal parameter", text
        if idx != list(w):
            return f"gate {g.name} on qubits {list(w)} printed on formal parameters number {idx} (parameter i must be qubit i)", text
        if p is not None:
            if par is None:
                return f"parameter {p!r} not printed", text
            if abs(float(par) - p) > 1e-9:
                angle = angle or f"parameter {p!r} printed as {par!r}: not the same angle to 1e-9"
                if abs(float(par) - p) > 0.005 + 1e-12:
                    return f"parameter {p!r} printed as {par!r}: not even the two-decimal rounding of the angle", text
        elif par is not None:
            return f"spurious parameter {par}", text
    if mode == "circuit":
        if d["app"] is None or d["app"][0] != d["gate"] or d["app"][1] != [f"q[{i}]" for i in range(n)]:
            return f"application line {d['app']} does not apply the gate to q[0..{n - 1}] in order", text
        if str(d["version"]) != ("3.0" if version == 3 else "2.0"):
            return f"version header {d['version']}", text
        if version == 2 and (d["qreg"] != n or not d["include"]):
            return f"OPENQASM 2 needs qreg q[{n}] and the include; got qreg={d['qreg']}, include={d['include']}", text
    return angle, text       # the two-decimal angle is reported only if everything else holds


def qubit_map_shapes(qc, kind):
    n = qc.num_qubits
    if kind == "default":
        return
    if kind == "reordered":      # insertion order differs from index order
        qc.qubit_map = {f"w{i}": i for i in reversed(range(n))}
    elif kind == "aliased":      # two names for one qubit, as compiled functions produce
        qc.qubit_map = {**{f"q{i}": i for i in range(n)}, "_ret": n - 1, "alias0": 0}
    elif kind == "named":
        qc.qubit_map = {f"a.{i}" if i else "a": i for i in range(n)}
    elif kind == "similar":      # names that differ only in punctuation / case (a bit of `a` next to a variable called a_0): still n different qubits
        qc.qubit_map = {nm: i for i, nm in enumerate(["a.0", "a_0", "a.1", "A_0", "a_1", "a.0.0"][:n])}


def job_qasm(a):
    nq, seqs = a
    out = []
    for seq in seqs:
        for mk_ in ("default", "reordered", "aliased", "similar"):
            for version in (2, 3):
                for mode in ("circuit", "gate"):
                    label = " ".join(f"{k}{list(w)}" + (f"({p:.4f})" if p else "") for k, w, p in seq)
                    name = f"C13.qasm.v{version}.{mode}.contract[{nq}q,map={mk_}: {label}]"
                    base = dict(strength="bounded", backend="qasm-reader")
                    qc = build(nq, seq, name="circ")
                    qubit_map_shapes(qc, mk_)
                    try:
                        why, text = qasm_check(qc, version, mode)
                    except Exception as ex:  # noqa
                        why, text = f"raises {type(ex).__name__}: {ex}", ""
                    r = res(name, PROVED if why is None else REFUTED, nontrivial=True, **base)
                    if why:
                        r.update(replayed=True, replay=dict(gates=label, qubit_map=dict(qc.qubit_map), observed=why, printed=text[:800],
                                                            call=f"QasmExporter(version={version}).export(qc, '{mode}')"))
                        # classify for the known findings
                        r["blame"] = "qasm.formal-parameters-per-name" if "formal parameters" in why else ("qasm.two-decimal-angle" if "same angle" in why else None)
                        if r["blame"] == "qasm.formal-parameters-per-name":
                            r["covered_by"] = "F-C13-qasm-aliased-names"
                        elif r["blame"] == "qasm.two-decimal-angle":
                            r["covered_by"] = "F-C13-qasm-two-decimal-angles"
                    out.append(r)
    return out


class _Tok(str):
    """a string whose content no Python-level operation of the code under contract may look at: every method of str raises.
    C-level consumers that take it as an ARGUMENT (str.join, f-string formatting, +) still read it - those are content-uniform."""
    __slots__ = ()


def _raiser(nm):
    def f(self, *a, **k):
        raise AssertionError(f"the exporter inspected a qubit name (str.{nm})")
    return f


for _nm in ("__eq__", "__ne__", "__lt__", "__le__", "__gt__", "__ge__", "__hash__", "__len__", "__getitem__", "__iter__", "__contains__", "__add__", "__mod__",
            "__mul__", "lower", "upper", "strip", "split", "replace", "startswith", "endswith", "find", "index", "count", "encode", "isdigit", "isidentifier",
            "join", "format", "partition", "rpartition", "title", "capitalize", "casefold", "swapcase", "zfill", "ljust", "rjust", "center", "translate"):
    setattr(_Tok, _nm, _raiser(_nm))


class _Wire:
    """a wire index nobody may compare, order, hash or do arithmetic on: the only thing the exporter can do is hand it to get_key_by_index"""
    def __init__(self, i):
        object.__setattr__(self, "_i", i)

    def __repr__(self):
        raise AssertionError("the exporter printed a wire index instead of the qubit's name")
    __str__ = __format__ = __repr__


for _nm in ("__eq__", "__ne__", "__lt__", "__le__", "__gt__", "__ge__", "__hash__", "__index__", "__int__", "__add__", "__radd__", "__sub__", "__rsub__", "__bool__"):
    setattr(_Wire, _nm, _raiser("wire." + _nm))


def job_qasm_param(a):
    """QASM body line, PARAMETRIC in the wire indices and in the qubit names: the circuit handed to the real export_v2 / export_v3 is a
    stand-in with the four members they read (name, num_qubits, gates, get_key_by_index); wires are opaque objects (any comparison, hash,
    arithmetic or printing raises) and get_key_by_index - replaced by its contract, an uninterpreted injective function - returns name strings
    whose every str method raises.  An export that succeeds can therefore not have depended on the VALUE of a wire or of a name, so the line
    it printed is the line for every wire assignment and every naming.  Bounded only in the gate KINDS (every class of gates.py, enumerated)
    and the length of the gate list (<= 3)."""
    import inspect
    from qlasskit.qcircuit import gates
    from qlasskit.qcircuit.exporter_qasm import QasmExporter
    nmax, = a
    kinds = []
    for nm, cls in inspect.getmembers(gates, inspect.isclass):
        if not issubclass(cls, gates.QGate) or cls in (gates.QGate, gates.NopGate, gates.QControlledGate):
            continue
        if cls is gates.MCX:
            kinds += [(f"MCX{k}", (lambda k=k: gates.MCX(k)), k + 1) for k in (2, 3, 5)]
        elif cls is gates.MCtrl:
            kinds += [(f"MCtrl{g.__name__}{k}", (lambda g=g, k=k: gates.MCtrl(g(), k)), k + 1) for g in (gates.Z, gates.X) for k in (2, 4)]
        else:
            g0 = cls()
            kinds.append((nm, cls, 0 if g0.is_nop() else g0.n_qubits))
    seqs = [[k] for k in kinds] + [[a_, b_] for a_ in kinds[::3] for b_ in kinds[1::4]] + [[kinds[i], kinds[-1 - i], kinds[i]] for i in range(0, len(kinds), 2)]
    out = []
    for seq in seqs:
        for version in (2, 3):
            for mode in ("circuit", "gate"):
                label = " ".join(k for k, _, _ in seq)
                name = f"C13.qasm.v{version}.{mode}.body-parametric[{label}; every wire assignment, every naming]"
                base = dict(strength="bounded", backend="opaque-tokens (parametric in wires and names; bounded in gate kinds and list length)")
                nq = max([ar for _, _, ar in seq] + [1]) + 1
                wires = [_Wire(i) for i in range(nq)]
                keys = {id(w): _Tok(f"<K{i}>") for i, w in enumerate(wires)}
                formal = [_Tok(f"<K{i}>") for i in range(nq)]

                class Circ:
                    pass
                qc = Circ()
                qc.name = "circ"
                qc.num_qubits = nq
                glist, want = [], []
                for j, (k, ctor, ar) in enumerate(seq):
                    g = ctor()
                    ws = [wires[(j + t * 2 + 1) % nq] for t in range(ar)] if ar < nq else wires[:ar]
                    ws = list(dict.fromkeys(map(id, ws)))
                    ws = [w for i_ in ws for w in wires if id(w) == i_]
                    if len(ws) != ar:
                        ws = wires[:ar]
                    glist.append((g, ws, None))
                    if not g.is_nop():
                        want.append("\t" + g.name.lower() + " " + " ".join(str.__str__(keys[id(w)]) for w in ws) + "\n")
                qc.gates = glist

                def gk(x, wires=wires, keys=keys, formal=formal):
                    if isinstance(x, _Wire):
                        return keys[id(x)]
                    if type(x) is int and 0 <= x < len(formal):
                        return formal[x]
                    raise AssertionError(f"get_key_by_index called with {type(x).__name__}")
                qc.get_key_by_index = gk
                try:
                    text = QasmExporter(version=version).export(qc, mode)
                    m = re.search(r"\{\n(.*?)\}\n", text, re.S)
                    body = m.group(1) if m else None
                    why = None if body == "".join(want) else f"body {body!r} is not {''.join(want)!r}"
                    head = "gate circ " + " ".join(str.__str__(k) for k in formal) + " {\n"
                    if why is None and text.count(head) != 1:
                        why = f"no declaration line {head!r} (formal parameter i must be the name of qubit i)"
                    app = "circ " + ",".join(f"q[{i}]" for i in range(nq)) + ";\n"
                    if why is None and mode == "circuit" and not text.endswith("}\n\n" + app):
                        why = f"the text does not end with the application line {app!r}"
                    if why is None and mode == "gate" and not text.endswith("}\n\n"):
                        why = "gate mode prints something after the declaration"
                except AssertionError as ex:
                    # value-dependent code is not wrong by itself: the enumerated layer (job_qasm, every wire permutation) decides it
                    out.append(res(name, UNDECIDED, detail=f"not parametric, left to the enumerated layer: {ex}", **base))
                    continue
                except Exception as ex:  # noqa
                    why, text = None, ""
                    out.append(res(name, UNDECIDED, detail=f"the stand-in circuit is not enough for the exporter: {type(ex).__name__}: {ex}", **base))
                    continue
                r = res(name, PROVED if why is None else REFUTED, nontrivial=True, **base)
                if why:
                    # replay on a real QCircuit with the wire numbers behind the tokens and default names
                    from qlasskit.qcircuit import QCircuit
                    real = QCircuit(nq, name="circ")
                    for g, ws, p in glist:
                        real.append(g, [object.__getattribute__(w, "_i") for w in ws], p)
                    try:
                        rwhy, rtext = qasm_check(real, version, mode)
                    except Exception as ex:  # noqa
                        rwhy, rtext = f"raises {type(ex).__name__}: {ex}", ""
                    if rwhy is None:
                        out.append(res(name, UNDECIDED, detail=f"stand-in only ({why}); the real circuit exports correctly", **base))
                        continue
                    r.update(replayed=True, replay=dict(gates=" ".join(f"{g.name}{[object.__getattribute__(w, '_i') for w in ws]}" for g, ws, _ in glist), observed=rwhy,
                                                        printed=rtext[:600], call=f"QasmExporter(version={version}).export(qc, '{mode}')"))
                out.append(r)
    return out


def compiled_job(_):
    """compiled functions (aliased qubit names) through every exporter"""
    from qlasskit import qlassf
    out = []
    import numpy as np
    for src in ("def f1(a: bool, b: bool) -> bool:\n\treturn a and b", "def f2(a: Qint[2]) -> Qint[2]:\n\treturn a + 1",
                "def f3(a: bool, b: bool, c: bool) -> bool:\n\treturn (a or b) ^ c"):
        qf = qlassf(src)
        qc = qf.circuit()
        n = qc.num_qubits
        U0 = spec.unitary(qc.gates, n)
        for fw, mode in (("qiskit", "circuit"), ("qiskit", "gate"), ("cirq", "circuit"), ("cirq", "gate"), ("sympy", "gate")):
            name = f"C13.{fw}.{mode}.same-unitary-same-qubits[compiled {src.split('(')[0][4:]}]"
            base = dict(strength="bounded", backend="numeric-1e-9")
            try:
                U = export_unitary(qc, fw, mode)
                ok = U.shape == U0.shape and np.allclose(U, U0, atol=1e-9)
                obs = "unitary differs"
            except Exception as ex:  # noqa
                ok, obs = False, f"raises {type(ex).__name__}: {ex}"[:200]
            out.append(res(name, PROVED, **base) if ok else res(name, REFUTED, replayed=True, replay=dict(program=src, observed=obs), **base))
        for version in (2, 3):
            name = f"C13.qasm.v{version}.circuit.contract[compiled {src.split('(')[0][4:]}]"
            why, text = qasm_check(qc, version, "circuit")
            r = res(name, PROVED if why is None else REFUTED, strength="bounded", backend="qasm-reader")
            if why:
                r.update(replayed=True, replay=dict(program=src, qubit_map=dict(qc.qubit_map), observed=why, printed=text[:600]))
                if "formal parameters" in why:
                    r["covered_by"] = "F-C13-qasm-aliased-names"
            out.append(r)
    return out


def calibrate(_):
    """the qubit-ordering convention of each read-back is checked on an asymmetric one-gate circuit before anything else is trusted"""
    import numpy as np
    out = []
    qc = build(2, [("X", (0,), None)])
    U0 = spec.unitary(qc.gates, 2)
    for fw, mode in (("qiskit", "circuit"), ("cirq", "circuit"), ("sympy", "gate")):
        try:
            ok = np.allclose(export_unitary(qc, fw, mode), U0)
        except Exception as ex:  # noqa
            ok = False
        if not ok:
            out.append(res(f"C13.calibration.{fw}", common.ENGINE, backend="numeric", detail="X on qubit 0 is not read back as X on the least significant bit: read-back convention wrong"))
    return out


def _dispatch(j):
    f, a = j
    return f(a)


def circuits(tier, nq):
    pool = gate_pool(nq)
    single = [[g] for g in pool]
    r = random.Random(4242)
    multi = [[r.choice(pool) for _ in range(r.choice((2, 3)))] for _ in range(60 if tier == "quick" else 600)]
    return single + multi


def run(tier, only=None):
    from qlasskit.qcircuit.exporter_cirq import CirqExporter
    from qlasskit.qcircuit.exporter_qasm import QasmExporter
    from qlasskit.qcircuit.exporter_qiskit import QiskitExporter
    from qlasskit.qcircuit.exporter_sympy import SympyExporter
    from qlasskit.qcircuit import QCircuit
    rep = Report("C13", tier, "other", f"./check C13 --tier {tier}")
    jobs = [(calibrate, None), (compiled_job, None), (job_qasm_param, (3,))]
    for nq in (3, 4):
        cs = circuits(tier, nq)
        if nq == 4:
            cs = [c for c in cs if any(len(g[1]) == 4 for g in c)][:40]
        for i in range(0, len(cs), 12):
            chunk = cs[i:i + 12]
            for fw in ("qiskit", "cirq"):
                for mode in ("circuit", "gate"):
                    jobs.append((job_fw, (fw, mode, nq, chunk)))
            jobs.append((job_fw, ("sympy", "gate", nq, chunk)))        # 4 qubits too: multi-controlled X with 3 controls
            jobs.append((job_sympy_state, (nq, chunk)))
            jobs.append((job_qasm, (nq, chunk)))
    # QFT circuits
    for n in (2, 3, 4):
        qc = QCircuit(n)
        qc.qft(list(range(n)))
        seq = [(type(g).__name__, tuple(w), p) for g, w, p in qc.gates]
        for fw in ("qiskit", "cirq"):
            jobs.append((job_fw, (fw, "circuit", n, [seq])))
    rep.add(run_pool(_dispatch, jobs))
    rep.under_contract(QasmExporter.export_v2, QasmExporter.export_v3, QiskitExporter.export, CirqExporter.export, SympyExporter.export, QCircuit.export)
    rep.rule = "one evaluation = one (circuit, exporter, mode): the export is read back through the target framework and its unitary compared with the circuit's (1e-9); QASM text parsed by a small reader"
    rep.extra.update(bounded=dict(family="one circuit per gate kind x every wire permutation over 3 qubits (4 for the 3-controlled gates), seeded circuits of 2-3 gates, QFT on 2-4 qubits, three compiled functions; "
                                         "QASM additionally over three qubit_map shapes (default, insertion order != index order, aliased names)", bound="<= 4 qubits", all_values=True),
                     exporters_not_claimed=["pennylane (not installed)", "qutip (its test already fails in the baseline)"])
    rep.assumptions = ["A5 Qiskit Operator / Cirq unitary / sympy represent mean what their documentation says, including qubit order (calibrated on X[0] each run)",
                       "A8 standard meaning of the gate names is the semantics of a QCircuit", "A3 tolerance 1e-9", "bounded family of circuits"]
    rep.explanation = "export contracts checked by reading the exported object back through the target framework (unitary, qubit count) or a QASM reader, on a bounded family of circuits"
    rep.samples = [dict(name=r["name"], status=r["status"]) for r in rep.results[:6]]
    return rep


def replay(path):
    import sys
    from ..common import generic_replay
    return generic_replay(sys.modules[__name__], path)
