"""C16 - Deutsch-Jozsa, Bernstein-Vazirani, Simon circuits meet textbook guarantees (and helpers shared with C15).

What contracts can say here: the constructors only ASSEMBLE gate lists - that part is contract material (structural clauses below).
The guarantees themselves are theorems about the unitary those lists denote; the repository contains no semantics of H or Z, so the
amplitude clauses are stated over the ghost semantics `ASim` (exact integer amplitudes, no floating point) and decided only on the
finite function classes the property's own quantifier text enumerates.  A bounded stand-in, labelled as such.

  structural  DeutschJozsa.__init__   gates = [H on 0..n-1, X ret, H ret] ++ f.gates ++ [H on 0..n-1] (barriers aside), num_qubits = f.num_qubits,
                                      output_qubits = [0..n), f unchanged;  BernsteinVazirani: the same with H ret, Z ret;  Simon: H^n ++ f.gates ++ H^n
  semantic    DJ   P(all zero) = 1 for every constant f, = 0 for every balanced f
              BV   P(s) = 1 for every secret s
              Simon  every outcome y with non-zero probability has y.s = 0 (mod 2), and all of them are equally likely
              decode_output reports these outcomes in the function's argument type
Precondition of the guarantees: the black box is a clean xor-oracle (C03/C06); an instance whose black box is not (a known C03/C06
finding) is attributed to that finding, not reported again."""
import itertools
import time
from fractions import Fraction

from .. import bounded, common, pyvc, spec
from ..common import PROVED, REFUTED, UNDECIDED, Report, res, run_pool


def arg_decl(n):
    return "a: bool" if n == 1 else f"a: Qint[{n}]"


def bit(n, i):
    return "a" if n == 1 else f"a[{i}]"


def dnf_source(name, n, table):
    """bool function of n bits given as the set of true rows -> python source (sum of products over the bits)"""
    rows = sorted(table)
    if not rows:
        body = "False"
    elif len(rows) == 1 << n:
        body = "True"
    else:
        terms = []
        for r in rows:
            lits = [(bit(n, i) if (r >> i) & 1 else f"(not {bit(n, i)})") for i in range(n)]
            terms.append("(" + " and ".join(lits) + ")")
        body = " or ".join(terms)
    return f"def {name}({arg_decl(n)}) -> bool:\n\treturn {body}"


def tup_source(name, n, table):
    """the same sum of products over a TUPLE-typed argument (the search register is then decoded to a tuple)"""
    if n == 1:
        return dnf_source(name, n, table)
    return dnf_source(name, n, table).replace(arg_decl(n), f"a: Tuple[{', '.join(['bool'] * n)}]")


def cmp_source(name, n, table):
    rows = sorted(table)
    if n == 1:
        return dnf_source(name, n, table)
    if not rows:
        body = "a != a"
    elif len(rows) == 1 << n:
        body = "a == a"
    else:
        body = " or ".join(f"a == {r}" for r in rows)
    return f"def {name}({arg_decl(n)}) -> bool:\n\treturn {body}"


def xor_source(name, n, table):
    """as an algebraic normal form (xor of and-terms) when cheap"""
    # Moebius transform
    anf = [1 if r in table else 0 for r in range(1 << n)]
    for i in range(n):
        for r in range(1 << n):
            if (r >> i) & 1:
                anf[r] ^= anf[r ^ (1 << i)]
    terms = []
    for m in range(1 << n):
        if anf[m]:
            if m == 0:
                terms.append("True")
            else:
                terms.append("(" + " and ".join(bit(n, i) for i in range(n) if (m >> i) & 1) + ")")
    body = " ^ ".join(terms) if terms else "False"
    return f"def {name}({arg_decl(n)}) -> bool:\n\treturn {body}"


def oracle_is_clean(qf, n_in):
    """C06 precondition on the compiled black box: |x>|y>|0> -> |x>|y xor f(x)>|0>"""
    from .c02 import check_circuit
    et = bounded.expr_tables(qf, 12)
    names, tabs, mask = et
    rets = list(qf.returns.bitvec)
    rt = [tabs[r] for r in rets]
    want = {"C02", "C03"} | ({"C06"} if len(rets) == 1 else set())
    out = check_circuit(qf.circuit(), names, rets, rt, mask, True, want)
    return all(ok for _, _, ok, _ in out), [(p, c) for p, c, ok, _ in out if not ok]


def structure_ok(alg, f_qf, pre, n):
    """gates of the algorithm = H^n ++ pre(ret) ++ f.gates ++ H^n (barriers aside)"""
    gs = [(type(g).__name__, list(w)) for g, w, p in alg.circuit().gates if not g.is_nop()]
    fg = [(type(g).__name__, list(w)) for g, w, p in f_qf.circuit().gates if not g.is_nop()]
    ret = f_qf.circuit().qubit_map.get("_ret")
    exp = [("H", [i]) for i in range(n)] + [(k, [ret]) for k in pre] + fg + [("H", [i]) for i in range(n)]
    return gs == exp and alg.circuit().num_qubits == f_qf.circuit().num_qubits and list(alg.output_qubits) == list(range(n)), dict(observed=gs[:12], expected=exp[:12])


def dist(alg):
    qc = alg.circuit()
    return spec.ASim(qc.num_qubits).apply(qc.gates).distribution(list(alg.output_qubits))


def fingerprint(qf):
    qc = qf.circuit()
    return (qf.name, [(str(s), str(e)) for s, e in qf.expressions], [(type(g).__name__, tuple(w)) for g, w, p in qc.gates], sorted(qc.qubit_map.items()), qc.num_qubits)


def job_dj(a):
    n, table, form = a
    from qlasskit import qlassf
    from qlasskit.algorithms import DeutschJozsa
    t0 = time.time()
    table = frozenset(table)
    src = {"dnf": dnf_source, "cmp": cmp_source, "anf": xor_source, "tup": tup_source}[form]("f", n, table)
    kind = "constant" if len(table) in (0, 1 << n) else "balanced"
    name = f"C16.DeutschJozsa.{kind}[{n} bits,{form},true rows={sorted(table)}]"
    base = dict(strength="bounded", backend="exact-amplitudes", program=src)
    try:
        qf = qlassf(src)
    except Exception as ex:  # noqa
        return [res(name, PROVED, nontrivial=False, note=f"function rejected by the front end: {type(ex).__name__}", **base)]
    clean, why = oracle_is_clean(qf, n)
    fp0 = fingerprint(qf)
    out = []
    try:
        alg = DeutschJozsa(qf)
    except Exception as ex:  # noqa
        return [res(name, REFUTED, replayed=True, replay=dict(program=src, observed=f"DeutschJozsa raises {type(ex).__name__}: {ex}"[:200]), **base)]
    if fingerprint(qf) != fp0:
        out.append(res(name.replace("C16.DeutschJozsa.", "C16.DeutschJozsa.frame."), REFUTED, replayed=True, replay=dict(program=src, observed="the function object handed in was modified"), **base))
    ok, det = structure_ok(alg, qf, ["X", "H"], n)
    sn = name.replace(f".{kind}[", ".structure[")
    out.append(res(sn, PROVED, **base) if ok else res(sn, REFUTED, replayed=True, replay=dict(program=src, **det), **base))
    if not clean:
        out.append(res(name, PROVED, nontrivial=False, note=f"black box is not a clean xor-oracle ({why}): attributed to the C02/C03/C06 findings, guarantee not evaluated", **base))
        return out
    d = dist(alg)
    p0 = d.get(tuple([0] * n), Fraction(0))
    want = Fraction(1) if kind == "constant" else Fraction(0)
    dec_ok = True
    try:
        # every reading: all zeros <-> "Constant", anything else "Balanced"
        dec_ok = all(alg.decode_output(format(y, f"0{n}b")) == ("Constant" if y == 0 else "Balanced") for y in range(1 << n))
    except Exception:  # noqa
        dec_ok = False
    if p0 == want and dec_ok:
        out.append(res(name, PROVED, secs=time.time() - t0, nontrivial=True, **base))
    else:
        out.append(res(name, REFUTED, secs=time.time() - t0, replayed=True,
                       replay=dict(program=src, observed=f"P(all zeros) = {p0}; decode_output ok = {dec_ok}", expected=f"P(all zeros) = {want}",
                                   distribution={''.join(map(str, k)): str(v) for k, v in d.items()}, call="DeutschJozsa(qlassf(program)).circuit() simulated exactly from |0...0>"), **base))
    return out


def job_bv(a):
    n, s, form = a
    from qlasskit import qlassf
    from qlasskit.algorithms import BernsteinVazirani
    from qlasskit.algorithms.bernsteinvazirani import secret_oracle
    t0 = time.time()
    name = f"C16.BernsteinVazirani.secret[{n} bits,s={s},{form}]"
    if form == "secret_oracle":
        src = f"secret_oracle({n}, {s})"
        try:
            qf = secret_oracle(n, s)
        except Exception as ex:  # noqa - "for every secret s": the oracle builder must produce an oracle for each of them
            return [res(name, REFUTED, strength="bounded", backend="exact-amplitudes", replayed=True,
                        replay=dict(call=src, observed=f"raises {type(ex).__name__}: {ex}"[:200], expected="an oracle denoting x.s mod 2"))]
    elif form in ("tuple", "qlist"):
        # the argument is a tuple / list of bools: the secret is reported in THAT type (element i = bit i of s)
        ann = f"Tuple[{', '.join(['bool'] * n)}]" if form == "tuple" else f"Qlist[bool, {n}]"
        terms = [f"a[{i}]" for i in range(n) if (s >> i) & 1]
        src = f"def f(a: {ann}) -> bool:\n\treturn {' ^ '.join(terms) if terms else 'False'}"
        qf = qlassf(src)
    else:
        terms = [bit(n, i) for i in range(n) if (s >> i) & 1]
        src = f"def f({arg_decl(n)}) -> bool:\n\treturn {' ^ '.join(terms) if terms else 'False'}"
        qf = qlassf(src)
    base = dict(strength="bounded", backend="exact-amplitudes", program=src)
    # the oracle must denote x.s mod 2 (secret_oracle's own contract)
    names, tabs, mask = bounded.expr_tables(qf, 12)
    want_t = spec.table_of(lambda bits: sum(bits[i] for i in range(n) if (s >> i) & 1) % 2 == 1, n)
    out = []
    on = name.replace(".secret[", ".oracle-denotes-x.s[")
    if tabs[qf.returns.bitvec[0]] != want_t:
        return [res(on, REFUTED, replayed=True, replay=dict(program=src, observed="the oracle does not denote x.s mod 2"), **base)]
    out.append(res(on, PROVED, **base))
    clean, why = oracle_is_clean(qf, n)
    alg = BernsteinVazirani(qf)
    ok, det = structure_ok(alg, qf, ["H", "Z"], n)
    sn = name.replace(".secret[", ".structure[")
    out.append(res(sn, PROVED, **base) if ok else res(sn, REFUTED, replayed=True, replay=dict(program=src, **det), **base))
    if not clean:
        out.append(res(name, PROVED, nontrivial=False, note=f"black box not a clean xor-oracle ({why}): attributed", **base))
        return out
    d = dist(alg)
    key = tuple((s >> i) & 1 for i in range(n))
    ps = d.get(key, Fraction(0))
    reading = "".join(str(b) for b in reversed(key))
    try:
        dec = alg.decode_output(reading)
        if form in ("tuple", "qlist"):
            dec_ok = not isinstance(dec, (int, bool)) and list(dec) == [bool((s >> i) & 1) for i in range(n)] and all(isinstance(x, bool) for x in dec)
        else:
            dec_ok = (dec == s and not isinstance(dec, (bool, tuple, list))) if n > 1 else (isinstance(dec, bool) and dec == bool(s))
    except Exception as ex:  # noqa
        dec, dec_ok = f"raises {ex}", False
    if ps == 1 and dec_ok:
        out.append(res(name, PROVED, secs=time.time() - t0, nontrivial=True, **base))
    else:
        out.append(res(name, REFUTED, secs=time.time() - t0, replayed=True,
                       replay=dict(program=src, observed=f"P(s) = {ps}; decode_output({reading!r}) = {dec!r}", expected=f"P(s) = 1 and decoded value {s}",
                                   distribution={''.join(map(str, k)): str(v) for k, v in d.items()}), **base))
    return out


def two_to_one(n, s, variant):
    """a function f: {0,1}^n -> {0,1}^n with f(x) = f(x xor s), as python source; `variant` picks the pairing labels"""
    reps = sorted({min(x, x ^ s) for x in range(1 << n)})
    if variant == 0:
        lab = {r: i for i, r in enumerate(reps)}
    elif variant == 1:
        lab = {r: (len(reps) - 1 - i) for i, r in enumerate(reps)}
    else:
        lab = {r: ((i * 5 + 3) % len(reps)) for i, r in enumerate(reps)} if len(reps) % 5 else {r: i ^ 1 if (i ^ 1) < len(reps) else i for i, r in enumerate(reps)}
    vals = [lab[min(x, x ^ s)] for x in range(1 << n)]
    # variant 2 returns a WIDER type than the argument: whatever is decoded must be in the ARGUMENT's type
    rw = n if variant != 2 else {1: 2, 2: 3, 3: 4, 4: 5}.get(n, n)
    src = f"def f(a: Qint[{n}]) -> Qint[{rw}]:\n\tc = {vals}\n\treturn c[a]"
    return src, vals


def job_simon(a):
    n, s, variant = a
    from qlasskit import qlassf
    from qlasskit.algorithms import Simon
    t0 = time.time()
    src, vals = two_to_one(n, s, variant)
    name = f"C16.Simon.period[{n} bits,s={s},f#{variant}]"
    base = dict(strength="bounded", backend="exact-amplitudes", program=src)
    try:
        qf = qlassf(src)
    except Exception as ex:  # noqa
        return [res(name, PROVED, nontrivial=False, note=f"rejected: {type(ex).__name__}: {ex}"[:120], **base)]
    names, tabs, mask = bounded.expr_tables(qf, 12)
    # the compiled f must be the two-to-one function intended (C01's business otherwise)
    for x in range(1 << n):
        got = sum(((tabs[r] >> x) & 1) << i for i, r in enumerate(qf.returns.bitvec))
        if got != vals[x]:
            return [res(name, PROVED, nontrivial=False, note="front end does not denote the intended function: C01's business", **base)]
    clean, why = oracle_is_clean(qf, n)
    alg = Simon(qf)
    ok, det = structure_ok(alg, qf, [], n)
    out = []
    sn = name.replace(".period[", ".structure[")
    out.append(res(sn, PROVED, **base) if ok else res(sn, REFUTED, replayed=True, replay=dict(program=src, **det), **base))
    # decode_output: a reading of the n search qubits is reported as a value of the ARGUMENT's type (Qint[n]: the integer the string spells)
    dn = name.replace(".period[", ".decode_output[")
    wrong = []
    for y in range(1 << n):
        reading = format(y, f"0{n}b")
        try:
            dec = alg.decode_output(reading)
        except Exception as ex:  # noqa
            dec = f"raises {type(ex).__name__}: {ex}"[:80]
        if not (isinstance(dec, int) and not isinstance(dec, bool) and dec == y):
            wrong.append((reading, repr(dec)))
    out.append(res(dn, PROVED, readings=1 << n, **base) if not wrong else
               res(dn, REFUTED, replayed=True, replay=dict(program=src, call="Simon(qf).decode_output(reading)", observed=wrong[:4],
                                                          expected="the integer the reading spells, in the argument type Qint[n]"), **base))
    if not clean:
        out.append(res(name, PROVED, nontrivial=False, note=f"black box not clean ({why}): attributed", **base))
        return out
    d = dist(alg)
    bad = [k for k, v in d.items() if v != 0 and sum(k[i] for i in range(n) if (s >> i) & 1) % 2 != 0]
    probs = {v for v in d.values() if v != 0}
    support = {k for k, v in d.items() if v != 0}
    expected_support = {tuple((y >> i) & 1 for i in range(n)) for y in range(1 << n) if bin(y & s).count("1") % 2 == 0}
    if not bad and len(probs) == 1 and support == expected_support:
        out.append(res(name, PROVED, secs=time.time() - t0, nontrivial=True, **base))
    else:
        out.append(res(name, REFUTED, secs=time.time() - t0, replayed=True,
                       replay=dict(program=src, period=s, observed={''.join(map(str, k)): str(v) for k, v in d.items()},
                                   expected="every outcome y with non-zero probability has y.s = 0 (mod 2), all 2^(n-1) of them equally likely"), **base))
    return out


def job_struct_opaque(a):
    """Structural contract of the three constructors for EVERY oracle circuit: the black box is a QlassF whose circuit holds OPAQUE gate tokens
    (C14's Token: any inspection of a gate raises), of every length 0..L with every wire assignment over the m qubits, result qubit r anywhere
    above the n argument qubits.
      ensures  circuit = [barrier] H(0..n-1) <prep on r> [barrier] <the oracle's gates: the same objects, same wires, same order> [barrier] H(0..n-1)
               with prep = X,H (Deutsch-Jozsa) / H,Z (Bernstein-Vazirani) / nothing (Simon); num_qubits = the oracle's; output_qubits = [0..n-1];
               the oracle's circuit (gates, gates_computed, qubit_map) is unchanged and shares no list with the algorithm's circuit."""
    alg_name, n, extra, L = a
    from qlasskit.algorithms import BernsteinVazirani, DeutschJozsa, Simon
    from qlasskit.ast2logic.typing import Arg
    from qlasskit.qlassfun import QlassF
    from qlasskit.types import Qint
    from . import c14
    Alg = dict(DeutschJozsa=DeutschJozsa, BernsteinVazirani=BernsteinVazirani, Simon=Simon)[alg_name]
    prep = dict(DeutschJozsa=["X", "H"], BernsteinVazirani=["H", "Z"], Simon=[])[alg_name]
    m = n + extra
    name = f"C16.{alg_name}.constructor.structure[opaque oracle, {n} argument qubits, {m} qubits, <= {L} gates]"
    base = dict(strength="proved-class", backend="pyvc-opaque", function=f"qlasskit.algorithms.{alg_name}.__init__")
    cases = 0
    aty = bool if n == 1 else Qint[n]
    for r in range(n, m):
        for length in range(0, L + 1):
            for ws in c14.wire_lists(m, length, 2):
                oc = c14.mk_circuit(m, ws)
                oc.qubit_map.clear()
                for i in range(n):
                    oc.qubit_map[f"a.{i}" if n > 1 else "a"] = i
                oc.qubit_map["_ret"] = r
                qf = QlassF("f", None, [Arg("a", aty, [f"a.{i}" for i in range(n)] if n > 1 else ["a"])], Arg("_ret", bool, ["_ret"]), [])
                qf._qcircuit = oc
                snap = c14.snapshot(oc)
                try:
                    p_ = c14.run_hooked(Alg, qf)
                except pyvc.Unsupported as ex:
                    return [res(name, UNDECIDED, detail=f"Unsupported: {ex}", **base)]
                cases += 1
                ok = p_.kind == "return"
                det = None
                if ok:
                    alg = p_.value
                    gs = [(type(g).__name__ if not isinstance(g, c14.Token) else c14.tag(g), list(w)) for g, w, _ in alg.circuit().gates
                          if isinstance(g, c14.Token) or not g.is_nop()]
                    exp = [("H", [i]) for i in range(n)] + [(k, [r]) for k in prep] + [(t, list(w)) for t, w, _ in snap[0]] + [("H", [i]) for i in range(n)]
                    same_objs = [g for g, _, _ in alg.circuit().gates if isinstance(g, c14.Token)] == [g for g, _, _ in oc.gates]
                    ok = (gs == exp and same_objs and alg.circuit().num_qubits == m and list(alg.output_qubits) == list(range(n)) and c14.snapshot(oc) == snap
                          and alg.circuit().gates is not oc.gates and not ({id(w) for _, w, _ in alg.circuit().gates} & {id(w) for _, w, _ in oc.gates}))
                    det = dict(observed=gs[:14], expected=exp[:14], oracle_unchanged=c14.snapshot(oc) == snap)
                else:
                    det = dict(observed=f"raises {p_.value!r}"[:200])
                if not ok:
                    return [res(name, REFUTED, replayed=True, replay=dict(call=f"{alg_name}(qf) with qf.circuit() = opaque gates on wires {[list(w) for w in ws]}, _ret on qubit {r}", **det), **base)]
    return [res(name, PROVED, cases=cases, **base)]


def balanced_tables(n):
    rows = range(1 << n)
    return [frozenset(c) for c in itertools.combinations(rows, (1 << n) // 2)]


def _dispatch(j):
    f, a = j
    return f(a)


def run(tier, only=None):
    import random
    from qlasskit.algorithms import BernsteinVazirani, DeutschJozsa, Simon
    from qlasskit.algorithms.bernsteinvazirani import secret_oracle
    rep = Report("C16", tier, "exploration", f"./check C16 --tier {tier}")
    jobs = []
    r = random.Random(0)
    for n in (1, 2, 3):
        tables = [frozenset(), frozenset(range(1 << n))] + balanced_tables(n)
        for t in tables:
            for form in ("dnf", "cmp") + (("anf",) if tier == "thorough" or n < 3 else ()) + (("tup",) if n == 2 or (n == 3 and (tier == "thorough" or len(t) in (0, 8) or min(t, default=0) == 0)) else ()):
                jobs.append((job_dj, (n, sorted(t), form)))
    bal4 = [frozenset(r.sample(range(16), 8)) for _ in range(6 if tier == "quick" else 40)]
    for t in [frozenset(), frozenset(range(16))] + bal4:
        jobs.append((job_dj, (4, sorted(t), "cmp")))
    for alg_name in ("DeutschJozsa", "BernsteinVazirani", "Simon"):
        for n in (1, 2, 3, 4):
            for extra in (1, 2):
                jobs.append((job_struct_opaque, (alg_name, n, extra, 2 if n <= 2 else 1)))
    for n in (1, 2, 3, 4, 5):
        for s in range(1 << n):
            if n >= 2:
                jobs.append((job_bv, (n, s, "secret_oracle")))
            jobs.append((job_bv, (n, s, "xor")))
            if n in (2, 3):
                jobs.append((job_bv, (n, s, "tuple")))
                jobs.append((job_bv, (n, s, "qlist")))
    for n in (2, 3, 4):
        for s in range(1, 1 << n):
            for v in (0, 1, 2):
                if n == 4 and tier == "quick" and v == 2:
                    continue
                jobs.append((job_simon, (n, s, v)))
    rep.add(run_pool(_dispatch, jobs))
    rep.under_contract(DeutschJozsa.__init__, BernsteinVazirani.__init__, Simon.__init__, secret_oracle, DeutschJozsa.decode_output, BernsteinVazirani.decode_output, Simon.decode_output)
    rep.rule = "one evaluation = one (function, algorithm): the real constructor builds the circuit, ASim propagates exact integer amplitudes from |0..0>, the exact output distribution is compared with the guarantee; distinct = distinct function text"
    rep.extra.update(bounded=dict(family="all constant / balanced functions on 1..3 bits in 2-3 syntactic forms, seeded balanced functions on 4 bits; all secrets on 1..5 bits through secret_oracle and as xor forms; "
                                         "all periods on 2..4 bits with 3 two-to-one functions each", bound="as the property's quantifier text", all_values=True))
    rep.assumptions = ["A8 standard meaning of H, X, Z, CX, CCX, MCX (ghost semantics ASim; the repository defines none)", "exact integer amplitudes: probabilities are exact rationals",
                       "a black box that is not a clean xor-oracle (known C02/C03/C06 findings) is attributed to those findings", "bounded exactly as the property's quantifier text is"]
    rep.samples = [dict(name=r_["name"], status=r_["status"]) for r_ in rep.results[:6]]
    return rep


def replay(path):
    import sys
    from ..common import generic_replay
    return generic_replay(sys.modules[__name__], path)
