"""C10 - compilation is pure: no dependence on, or damage to, earlier work.

A whole-history property.  Reduction (lemma, by induction on the history): if every public operation (a) writes only objects it
created during the call or its declared receiver, and (b) returns a value that is a function of its arguments' observable state and of
immutable module state only, then every finite history yields, for each operation, the result it yields alone in a fresh interpreter,
and leaves every live object's fingerprint unchanged.  What is verified is (a) and (b) per operation - FRAME and OWNERSHIP contracts:

 * static frame obligations over the WHOLE source (re-derived from the AST of /repo on every run; an effect analysis, not SMT):
     F1  no `global` statement, no exec/eval on globals() / a module namespace / no namespace at all, no setattr/attribute write on a
         module or class object
     F2  an object bound as a mutable DEFAULT argument value is never mutated and never escapes (returned / stored / passed on)
     F3  a parameter other than the declared receiver `self`/`cls` (and what is reached from it by attribute / subscript / iteration /
         a call result bound to a local) is never the receiver of an attribute or subscript store, an augmented assignment, `del`, or a
         mutating method (list/dict/set methods and the repository's own receiver-mutating methods)
   every flagged site must be matched by a declaration in contracts/frames.json (function, reason); an unmatched site is an obligation
   failure reported with `no-failing-input-found` naming file:line.
 * dynamic frame monitor (bounded): histories of public API operations over a pool of programs; after every operation all live objects'
   fingerprints are unchanged and the result equals the one the same operation yields in a fresh process.
"""
import ast
import glob
import hashlib
import json
import multiprocessing as mp
import os
import random
import time

from .. import common
from ..common import PROVED, REFUTED, Report, res, run_pool

MUTATORS = {"append", "extend", "insert", "pop", "remove", "clear", "add", "update", "sort", "reverse", "discard", "setdefault", "popitem",
            # the repository's own receiver-mutating methods (QCircuit / QCircuitEnhanced / Env)
            "add_qubit", "append_circuit", "barrier", "h", "x", "y", "z", "t", "s", "cx", "ccx", "cz", "mctrl", "mcx", "swap", "cp", "qft", "iqft",
            "map_qubit", "remove_identities", "add_ancilla", "get_free_ancilla", "mark_ancilla", "uncompute_all", "uncompute",
            "bind", "bind_type", "bind_function", "compile"}
# `bind` on an UnboundQlassf is pure; on an Env it mutates - the analysis is conservative and name based


def functions_of(tree):
    out = []

    def rec(node, cls, prefix):
        for ch in ast.iter_child_nodes(node):
            if isinstance(ch, ast.ClassDef):
                rec(ch, ch.name, prefix + ch.name + ".")
            elif isinstance(ch, (ast.FunctionDef, ast.AsyncFunctionDef)):
                out.append((prefix + ch.name, cls, ch))
                rec(ch, None, prefix + ch.name + ".<locals>.")
            else:
                rec(ch, cls, prefix)
    rec(tree, None, "")
    return out


def root_name(e):
    """the local name an attribute / subscript / call-receiver chain starts from"""
    while True:
        if isinstance(e, ast.Name):
            return e.id
        if isinstance(e, (ast.Attribute, ast.Subscript, ast.Starred)):
            e = e.value
        else:
            return None


class FrameAnalysis(ast.NodeVisitor):
    """flow-insensitive taint from parameters, killed by a plain rebinding `name = <fresh>` that precedes the use in source order"""

    def __init__(self, qual, cls, fd, modname, module_names, class_names):
        self.qual, self.fd, self.mod = qual, fd, modname
        self.module_names, self.class_names = module_names, class_names
        args = fd.args
        names = [a.arg for a in args.posonlyargs + args.args + args.kwonlyargs] + ([args.vararg.arg] if args.vararg else []) + ([args.kwarg.arg] if args.kwarg else [])
        deco = {ast.unparse(d) for d in fd.decorator_list}
        self.receiver = names[0] if cls and names and "staticmethod" not in deco and names[0] in ("self", "cls") else None
        self.params = [n for n in names if n != self.receiver]
        # mutable defaults
        pos = args.posonlyargs + args.args
        self.mut_defaults = {}
        for a, d in list(zip(pos[len(pos) - len(args.defaults):], args.defaults)) + [(a, d) for a, d in zip(args.kwonlyargs, args.kw_defaults) if d is not None]:
            if isinstance(d, (ast.List, ast.Dict, ast.Set)) or (isinstance(d, ast.Call) and getattr(d.func, "id", "") in ("list", "dict", "set")):
                self.mut_defaults[a.arg] = d.lineno
        self.sites = []
        self.tainted_paths = set()
        self.tainted = set(self.params)
        self.fresh_after = {}      # name -> line from which it is a fresh local (first plain rebinding)

    def run(self):
        # 1. names rebound to something fresh: `p = []`, `p = copy.deepcopy(..)`, `p = f(...)`, `p = [..comprehension..]`
        for n in ast.walk(self.fd):
            if isinstance(n, ast.Assign) and len(n.targets) == 1 and isinstance(n.targets[0], ast.Attribute) and root_name(n.targets[0]) == self.receiver:
                if self.expr_tainted(n.value) or (isinstance(n.value, ast.Call) and any(self.expr_tainted(x) for x in n.value.args)):
                    self.tainted_paths.add(ast.unparse(n.targets[0]))      # e.g. self.oracle = oracle / oraclize(oracle, ..)
            if isinstance(n, ast.Assign) and len(n.targets) == 1 and isinstance(n.targets[0], ast.Name):
                nm = n.targets[0].id
                v = n.value
                fresh = isinstance(v, (ast.List, ast.Dict, ast.Set, ast.ListComp, ast.DictComp, ast.SetComp, ast.Constant, ast.Tuple, ast.JoinedStr, ast.BinOp, ast.Compare, ast.BoolOp)) or \
                    (isinstance(v, ast.Call) and not (isinstance(v.func, ast.Name) and v.func.id in ("cast",)) and not self._reaches_param_method(v))
                if fresh:
                    self.fresh_after.setdefault(nm, n.lineno)
                elif self.expr_tainted(v) or (isinstance(v, ast.Call) and self._reaches_param_method(v)):
                    self.tainted.add(nm)            # alias of (something reached from) a parameter
            if isinstance(n, (ast.For, ast.comprehension)) and isinstance(n.target, ast.Name) and root_name(n.iter) in self.tainted:
                self.tainted.add(n.target.id)
        if not getattr(self, "_second", False):
            self._second = True
            self.fresh_after = {}
            return self.run()
        self.visit(self.fd)
        return self.sites

    def _reaches_param_method(self, call):
        """x = param.method(...) / x = param[...]... : the result may alias state of the parameter (e.g. oracle.circuit())"""
        f = call.func
        return isinstance(f, ast.Attribute) and self.expr_tainted(f.value) and f.attr in ("circuit", "copy_ref", "__getitem__", "get")

    def expr_tainted(self, e):
        """the chain e starts at a tainted local or goes through a tainted attribute path of the receiver"""
        cur = e
        while isinstance(cur, (ast.Attribute, ast.Subscript, ast.Starred)):
            if ast.unparse(cur) in self.tainted_paths:
                return True
            cur = cur.value
        return isinstance(cur, ast.Name) and cur.id in self.tainted

    def is_tainted(self, name, lineno):
        if name is None or name not in self.tainted:
            return False
        fl = self.fresh_after.get(name)
        return not (fl is not None and fl <= lineno and name not in self.params) and not (fl is not None and fl <= lineno and name in self.params)

    def flag(self, kind, node, what):
        self.sites.append(dict(kind=kind, function=self.qual, module=self.mod, line=node.lineno, what=what, code=ast.unparse(node)[:120]))

    # -- F1 ---------------------------------------------------------------------------------------------------
    def visit_Global(self, n):
        self.flag("F1", n, "global statement")

    def visit_Call(self, n):
        f = n.func
        if isinstance(f, ast.Name) and f.id in ("exec", "eval"):
            ns_args = n.args[1:]
            if not ns_args:
                if f.id == "exec" or not (n.args and isinstance(n.args[0], ast.Constant)):
                    self.flag("F1", n, f"{f.id} without a private namespace (runs in the module's globals)")
            elif any(isinstance(a, ast.Call) and getattr(a.func, "id", "") == "globals" for a in ns_args[:1]):
                self.flag("F1", n, f"{f.id} on globals()")
        if isinstance(f, ast.Name) and f.id == "setattr" and n.args and root_name(n.args[0]) in (self.module_names | self.class_names):
            self.flag("F1", n, "setattr on a module / class object")
        # F3: mutating method on something reached from a parameter
        if isinstance(f, ast.Attribute) and f.attr in MUTATORS:
            r = root_name(f.value)
            if self.is_tainted(r, n.lineno):
                self.flag("F3", n, f"mutating method .{f.attr}() on `{r}` (a parameter or reached from one)")
            elif r in self.mut_defaults and not self._rebound_before(r, n.lineno):
                self.flag("F2", n, f"mutating method .{f.attr}() on the default-argument object of `{r}`")
        # F2: default object escaping through a call
        for a in n.args:
            if isinstance(a, ast.Name) and a.id in self.mut_defaults and not self._rebound_before(a.id, n.lineno) and isinstance(f, ast.Attribute) and f.attr in ("append", "extend", "update"):
                self.flag("F2", n, f"default-argument object of `{a.id}` stored into another container")
        self.generic_visit(n)

    def _rebound_before(self, name, lineno):
        fl = self.fresh_after.get(name)
        return fl is not None and fl <= lineno

    def _store(self, target, node):
        if isinstance(target, (ast.Attribute, ast.Subscript)):
            r = root_name(target.value)
            if r in self.module_names | self.class_names and r not in (self.receiver,):
                self.flag("F1", node, f"write to an attribute of module / class `{r}`")
            elif self.is_tainted(r, node.lineno):
                self.flag("F3", node, f"store into `{r}` (a parameter or reached from one)")
            elif r in self.mut_defaults and not self._rebound_before(r, node.lineno):
                self.flag("F2", node, f"store into the default-argument object of `{r}`")
        elif isinstance(target, (ast.Tuple, ast.List)):
            for t in target.elts:
                self._store(t, node)

    def visit_Assign(self, n):
        for t in n.targets:
            self._store(t, n)
        self.generic_visit(n)

    def visit_AugAssign(self, n):
        if isinstance(n.target, ast.Name):
            nm = n.target.id
            # `p += [...]` mutates a list parameter in place; strings/ints rebind - flagged unless the value is obviously immutable
            if self.is_tainted(nm, n.lineno) and nm in self.params and isinstance(n.value, (ast.List, ast.ListComp, ast.BinOp)) and \
                    (isinstance(n.value, (ast.List, ast.ListComp)) or any(isinstance(x, ast.List) for x in ast.walk(n.value))):
                self.flag("F3", n, f"in-place `+=` with a list on parameter `{nm}`")
            if nm in self.mut_defaults and not self._rebound_before(nm, n.lineno):
                self.flag("F2", n, f"in-place update of the default-argument object of `{nm}`")
        else:
            self._store(n.target, n)
        self.generic_visit(n)

    def visit_Delete(self, n):
        for t in n.targets:
            self._store(t, n)

    def visit_Return(self, n):
        if isinstance(n.value, ast.Name) and n.value.id in self.mut_defaults and not self._rebound_before(n.value.id, n.lineno):
            self.flag("F2", n, f"the default-argument object of `{n.value.id}` is returned")
        self.generic_visit(n)

    def visit_FunctionDef(self, n):
        if n is self.fd:
            self.generic_visit(n)
        # nested functions are analysed on their own

    visit_AsyncFunctionDef = visit_FunctionDef
    visit_Lambda = lambda self, n: None  # noqa


def static_sites():
    root = os.path.join(common.REPO, "qlasskit")
    sites, nfun, nfiles = [], 0, 0
    for path in sorted(glob.glob(os.path.join(root, "**", "*.py"), recursive=True)):
        src = open(path).read()
        tree = ast.parse(src)
        nfiles += 1
        modname = os.path.relpath(path, common.REPO)
        module_names, class_names = set(), set()
        for n in tree.body:
            if isinstance(n, (ast.Import, ast.ImportFrom)):
                for a in n.names:
                    nm = (a.asname or a.name).split(".")[0]
                    if isinstance(n, ast.Import):
                        module_names.add(nm)
            elif isinstance(n, ast.ClassDef):
                class_names.add(n.name)
        for qual, cls, fd in functions_of(tree):
            nfun += 1
            sites += FrameAnalysis(qual, cls, fd, modname, module_names, class_names).run()
    return sites, nfun, nfiles


def load_frames():
    p = os.path.join(common.VERIF, "contracts", "frames.json")
    return json.load(open(p))["declarations"] if os.path.exists(p) else []


def static_job(_):
    sites, nfun, nfiles = static_sites()
    decls = load_frames()
    out = []
    used = set()
    for s in sites:
        key = f"{s['module']}:{s['function']}"
        d = next((d for d in decls if d["function"] == key and d["kind"] == s["kind"] and (d.get("match", "") in s["code"])), None)
        name = f"C10.static.{s['kind']}[{key}:{s['line']}]"
        if d:
            used.add(id(d))
            out.append(res(name, PROVED, backend="static", declared=d["reason"], site=s["what"], code=s["code"]))
        else:
            out.append(res(name, REFUTED, backend="static", replayed=False, site=s["what"], code=s["code"], file_line=f"{s['module']}:{s['line']}",
                           detail=f"{s['kind']} frame obligation: {s['what']} in {key} at line {s['line']} has no declaration in contracts/frames.json",
                           solver_output=f"effect analysis: {s}"))
    out.append(res("C10.static.coverage", PROVED, backend="static", functions=nfun, files=nfiles, sites=len(sites), declarations=len(decls),
                   unused_declarations=[d["function"] for d in decls if id(d) not in used][:20]))
    return out


# ---- dynamic frame monitor ------------------------------------------------------------------------------

SOURCES = {
    "f_and": "def f(a: bool, b: bool) -> bool:\n\treturn a and b",
    "flatten": "def flatten(a: bool) -> bool:\n\treturn not a",
    "test_inc": "def test(a: Qint[2]) -> Qint[2]:\n\treturn a + 1",
    "test_id": "def test(a: bool) -> bool:\n\treturn a",
    "reduce": "def reduce(a: Qint[2]) -> bool:\n\treturn a == 3",
    "oracle": "def oracle(a: Qint[2]) -> bool:\n\treturn a == 2",
    "g": "def g(b: Qint[2]) -> Qint[2]:\n\treturn b + 2",
    "tup": "def tup(t: Tuple[bool, bool]) -> bool:\n\treturn t[0] ^ t[1]",
    "u": "def u(c: Parameter[Qint[2]], a: Qint[2]) -> bool:\n\treturn a == c",
    "u2": "def u2(c: Parameter[Qlist[Qint[2], 4]], a: Qint[2]) -> Qint[2]:\n\treturn c[a]",
    "red": "def red(a: bool, b: bool, c: bool) -> bool:\n\treturn (a and b) ^ (c and (a and b))",
    # a predicate whose circuit DIFFERS between uncompute=True and uncompute=False (re-compilation must be observable)
    "unc": "def unc(a: Qint[4]) -> bool:\n\treturn a == 3 or a == 7",
    # same name AND same expressions, different signatures (argument order / widths): anything keyed on name+expressions confuses them
    "pick_ab": "def pick(a: bool, b: bool) -> bool:\n\treturn a",
    "pick_ba": "def pick(b: bool, a: bool) -> bool:\n\treturn a",
    "low_2": "def low(v: Qint[2]) -> bool:\n\treturn v[0]",
    "low_4": "def low(v: Qint[4]) -> bool:\n\treturn v[0]",
    # EQUAL constants of different types (1 == 1.0 == True): anything memoised by the constant's value confuses them
    "k_int": "def kk(a: Qint[2]) -> Qint[2]:\n\treturn a + 1",
    "k_fix": "def kk(a: Qfixed[2, 2]) -> Qfixed[2, 2]:\n\treturn a + 1.0",
    "k_bool": "def kb(a: bool, b: Qint[2]) -> bool:\n\treturn (a == True) and b == 1",
    "k_fix2": "def kf(a: Qfixed[2, 2]) -> bool:\n\treturn a == 2.0 or a == 0.5",
    "k_int2": "def ki(a: Qint[4]) -> Qint[4]:\n\treturn a + 2",
    # two user types with the same __name__ and different widths (passed with types=[...])
    "word3": "def lw(w: Word) -> bool:\n\treturn w[0] and not w[2]",
    "word5": "def lw(w: Word) -> bool:\n\treturn w[0] and not w[4]",
}
CUSTOM_TYPES = {"word3": ("lw3", "WordA"), "word5": ("lw5", "WordB")}
CALLER = "def caller(x: Qint[2]) -> Qint[2]:\n\treturn g(x) + 1"


def fingerprint(o):
    from qlasskit.qlassfun import QlassF, UnboundQlassf
    from qlasskit.qcircuit import QCircuit
    if isinstance(o, QlassF):
        fp = dict(kind="QlassF", name=o.name, args=[(a.name, str(a.ttype), tuple(a.bitvec)) for a in o.args], ret=(o.returns.name, tuple(o.returns.bitvec)),
                  exprs=[(str(s), str(e)) for s, e in o.expressions])
        if hasattr(o, "_qcircuit"):
            fp["circuit"] = fingerprint(o._qcircuit)
            try:
                fp["io"] = (list(o.input_qubits), list(o.output_qubits))
            except Exception as ex:  # noqa
                fp["io"] = f"raises {type(ex).__name__}"
        return fp
    if isinstance(o, UnboundQlassf):
        return dict(kind="Unbound", ast=ast.dump(o.fun_ast), params=sorted(o.parameters))
    if isinstance(o, QCircuit):
        return dict(kind="QCircuit", n=o.num_qubits, gates=[(type(g).__name__, tuple(w), repr(p)) for g, w, p in o.gates], map=sorted(o.qubit_map.items()))
    if hasattr(o, "_qcircuit"):
        return dict(kind=type(o).__name__, circuit=fingerprint(o._qcircuit))
    if isinstance(o, (str, int, float, bool, type(None))):
        return o
    if isinstance(o, (list, tuple)):
        return [fingerprint(x) for x in o]
    if isinstance(o, dict):
        return {str(k): fingerprint(v) for k, v in o.items()}
    return repr(type(o).__name__)


def module_state():
    """identity-free contents of every default-argument object and of the globals qlassfun executes user code in"""
    import qlasskit
    import qlasskit.qlassfun as qf
    import sys
    st = {}
    for mn, m in list(sys.modules.items()):
        if not mn.startswith("qlasskit"):
            continue
        for nm, v in list(vars(m).items()):
            if callable(v) and hasattr(v, "__defaults__") and v.__defaults__ and getattr(v, "__module__", "").startswith("qlasskit"):
                for i, d in enumerate(v.__defaults__):
                    if isinstance(d, (list, dict, set)):
                        st[f"{mn}.{nm}.default{i}"] = repr(d)
            if isinstance(v, type) and getattr(v, "__module__", "").startswith("qlasskit"):
                for mname, meth in list(vars(v).items()):
                    fn = getattr(meth, "__func__", meth)
                    if hasattr(fn, "__defaults__") and fn.__defaults__:
                        for i, d in enumerate(fn.__defaults__):
                            if isinstance(d, (list, dict, set)):
                                st[f"{mn}.{nm}.{mname}.default{i}"] = repr(d)
    st["qlassfun.globals"] = sorted((k, (type(v).__name__, getattr(v, "__module__", None))) for k, v in vars(qf).items() if not k.startswith("__"))
    return st


def do_op(op, live):
    """execute one public API operation; returns the result object"""
    from qlasskit import qlassf
    kind = op[0]
    if kind == "compile":
        prof = __import__("vlib.bounded", fromlist=["x"]).profiles()[op[2]]
        if op[1] in CUSTOM_TYPES:
            from .. import c10_custom
            fn, ty = CUSTOM_TYPES[op[1]]
            return qlassf(getattr(c10_custom, fn), types=[getattr(c10_custom, ty)], bool_optimizer=prof)
        return qlassf(SOURCES[op[1]], bool_optimizer=prof)
    if kind == "bind":
        return live[op[1]].bind(c=op[2])
    if kind == "decopt_preserve":
        from qlasskit.decompiler import circuit_boolean_optimizer
        qf = live[op[1]]
        return circuit_boolean_optimizer(qf.circuit(), preserve=sorted(set(qf.input_qubits) | set(qf.output_qubits)))
    if kind == "defs":
        return qlassf(CALLER, defs=[live[op[1]]])
    if kind == "oraclize":
        from qlasskit.algorithms.qalgorithm import oraclize
        return oraclize(live[op[1]], op[2])
    if kind == "grover":
        from qlasskit.algorithms import Grover
        return Grover(live[op[1]])
    if kind == "grover_el":
        from qlasskit.algorithms import Grover
        return Grover(live[op[1]], op[2])
    if kind == "dj":
        from qlasskit.algorithms import DeutschJozsa
        return DeutschJozsa(live[op[1]])
    if kind == "bv":
        from qlasskit.algorithms import BernsteinVazirani
        return BernsteinVazirani(live[op[1]])
    if kind == "simon":
        from qlasskit.algorithms import Simon
        return Simon(live[op[1]])
    if kind == "export":
        r = live[op[1]].export(op[2])
        return str(r) if op[2] == "qasm" else [(i.operation.name, [r.find_bit(q).index for q in i.qubits]) for i in r.data]
    if kind == "decompile":
        from qlasskit.decompiler import Decompiler
        d = Decompiler().decompile(live[op[1]].circuit())
        return [(s.index, [str(e) for e in s.expressions]) for s in d]
    if kind == "decopt":
        from qlasskit.decompiler import circuit_boolean_optimizer
        return circuit_boolean_optimizer(live[op[1]].circuit())
    if kind == "truth_table":
        return [[bool(x) for x in row] for row in live[op[1]].truth_table()]
    if kind == "recompile":
        # a function compiled with one setting, then compiled AGAIN with the other: the object must then hold what a direct compilation with that
        # setting gives (private object: nothing live is touched); afterwards an export must show the new circuit
        first, second = op[2], not op[2]
        obj = qlassf(SOURCES[op[1]], uncompute=first)
        obj.export("qasm")
        obj.compile("internal", uncompute=second)
        direct = qlassf(SOURCES[op[1]], uncompute=second)
        ok = fingerprint(obj.circuit()) == fingerprint(direct.circuit()) and str(obj.export("qasm")) == str(direct.export("qasm"))
        if op[1] == "unc" and fingerprint(qlassf(SOURCES[op[1]], uncompute=first).circuit()) == fingerprint(direct.circuit()):
            raise RuntimeError("harness: the two settings give the same circuit for `unc` - the re-compilation clause would be vacuous")
        return {"__assert__": ok, "what": f"compile(uncompute={second}) after a compilation with uncompute={first} must give the circuit (and export) of a direct compilation",
                "gates_after_recompile": len(obj.circuit().gates), "gates_direct": len(direct.circuit().gates)}
    if kind == "export_twice":
        # the caller owns what export() returned: changing it must not show in the next export of the same function
        qf = live[op[1]]
        r1 = qf.export("qiskit")
        n1 = len(r1.data)
        r1.measure_all()
        r2 = qf.export("qiskit")
        g1 = qf.gate("qiskit")
        g1.name = "renamed_by_caller"
        g2 = qf.gate("qiskit")
        ok = r2 is not r1 and len(r2.data) == n1 and g2 is not g1 and g2.name != "renamed_by_caller"
        return {"__assert__": ok, "what": "a second export()/gate() must not return the object the caller already modified",
                "instructions_first": n1, "instructions_second": len(r2.data), "second_gate_name": g2.name}
    if kind == "bind_twice":
        # equal binds give INDEPENDENT functions: recompiling / renaming one must not show in the other, nor in a later bind
        u = live[op[1]]
        b1 = u.bind(c=op[2])
        b2 = u.bind(c=op[2])
        fp2 = fingerprint(b2)
        b1.compile("internal", uncompute=False)
        b1.name = "renamed_by_caller"
        b3 = u.bind(c=op[2])
        ok = fingerprint(b2) == fp2 and fingerprint(b3) == fp2
        return {"__assert__": ok, "what": "bind(v) twice: changing the first result must not change the second, nor what a third bind returns",
                "second": str(fingerprint(b2))[:200], "third": str(fingerprint(b3))[:200], "expected": str(fp2)[:200]}
    if kind == "to_logicfun":
        lf = live[op[1]].to_logicfun()
        return (lf[0], [(a.name, tuple(a.bitvec)) for a in lf[1]], [(str(s), str(e)) for s, e in lf[3]])
    raise ValueError(kind)


def needs(op):
    return [op[1]] if op[0] not in ("compile", "recompile") else []


def builder_of(key):
    """how a live object named key is (re)built alone: the op that created it"""
    return key


def run_history(hist):
    """-> list of per-step records: result fingerprint, fingerprints of all live objects before/after, module state changes"""
    common.use_repo()
    live, recs = {}, []
    ms0 = module_state()
    for step, (target, op) in enumerate(hist):
        before = {k: fingerprint(v) for k, v in live.items()}
        try:
            r = do_op(op, live)
            rfp = fingerprint(r)
            err = None
        except Exception as ex:  # noqa
            r, rfp, err = None, None, f"{type(ex).__name__}: {ex}"[:200]
        after = {k: fingerprint(v) for k, v in live.items()}
        changed = [k for k in before if before[k] != after[k]]
        ms1 = module_state()
        mchg = [k for k in ms0 if k in ms1 and ms0[k] != ms1[k]]      # a module imported lazily is not a state change
        ms0 = ms1
        recs.append(dict(step=step, op=op, target=target, result=rfp, error=err, changed=changed, module_changes=mchg))
        if target and r is not None:
            live[target] = r
    return recs


def fresh_reference(args):
    """the same operation alone in a fresh process: its operands are rebuilt there by the ops that created them"""
    target, op, creators = args
    hist = list(creators) + [(target, op)]
    recs = run_history(hist)
    return recs[-1]["result"], recs[-1]["error"]


def histories(tier, seed):
    base_objs = [("o_f", ("compile", "f_and", "default")), ("o_flat", ("compile", "flatten", "default")), ("o_inc", ("compile", "test_inc", "default")),
                 ("o_id", ("compile", "test_id", "fast")), ("o_red", ("compile", "reduce", "default")), ("o_or", ("compile", "oracle", "default")),
                 ("o_g", ("compile", "g", "default")), ("o_tup", ("compile", "tup", "default")), ("o_u", ("compile", "u", "default")),
                 ("o_u2", ("compile", "u2", "default")), ("o_redd", ("compile", "red", "default"))]
    unary = {"o_f": [], "o_flat": ["dj", "bv", "simon", "grover"], "o_inc": ["simon"], "o_id": ["dj", "bv", "grover"], "o_red": ["grover", "dj", "simon"],
             "o_or": ["grover", "dj"], "o_g": ["defs", "simon"], "o_tup": ["grover", "dj"], "o_u": [], "o_u2": [], "o_redd": ["decopt_preserve", "dj", "grover"]}
    hs = []
    clash_creators = {}
    # every ordered pair of (operation x object) after building the pool
    ops = []
    for k, us in unary.items():
        for u in us:
            ops.append((None, (u, k)))
        if k not in ("o_u", "o_u2"):
            ops += [(None, ("export", k, "qasm")), (None, ("export", k, "qiskit")), (None, ("decompile", k)), (None, ("decopt", k)), (None, ("truth_table", k)), (None, ("to_logicfun", k))]
    ops += [(None, ("recompile", "unc", True)), (None, ("recompile", "unc", False)), (None, ("recompile", "test_inc", True)),
            (None, ("export_twice", "o_red")), (None, ("export_twice", "o_inc")), (None, ("bind_twice", "o_u", 1)), (None, ("bind_twice", "o_u2", [1, 2, 3, 0]))]
    ops += [(None, ("oraclize", "o_g", 3)), (None, ("oraclize", "o_or", True)), (None, ("grover_el", "o_g", 3)), ("b1", ("bind", "o_u", 1)), ("b2", ("bind", "o_u", 2)),
            ("t1", ("bind", "o_u2", [1, 2, 3, 0])), ("t2", ("bind", "o_u2", [3, 3, 0, 1])), ("t3", ("bind", "o_u2", [0, 1, 0, 2])),
            (None, ("decopt_preserve", "o_f")), (None, ("decopt_preserve", "o_red")), (None, ("decopt_preserve", "o_tup"))]
    r = random.Random(seed)
    n_hist = 12 if tier == "quick" else 60
    for i in range(n_hist):
        pool = list(base_objs)
        r.shuffle(pool)
        h = []
        built = set()
        chosen = r.sample(ops, 10 if tier == "quick" else 14)
        # recompile same-named sources in between (clashing names)
        extra = [("o_id2", ("compile", "test_id", "default")), ("o_inc2", ("compile", "test_inc", "fast")), ("o_flat2", ("compile", "flatten", "fast"))]
        clash = [[("o_pab", ("compile", "pick_ab", "default")), ("o_pba", ("compile", "pick_ba", "default")), (None, ("truth_table", "o_pba")), (None, ("export", "o_pab", "qasm"))],
                 [("o_l2", ("compile", "low_2", "default")), ("o_l4", ("compile", "low_4", "default")), (None, ("export", "o_l4", "qasm")), (None, ("truth_table", "o_l2"))],
                 [("o_w3", ("compile", "word3", "default")), ("o_w5", ("compile", "word5", "default")), (None, ("export", "o_w5", "qasm")), (None, ("truth_table", "o_w3"))],
                 [("o_w5f", ("compile", "word5", "fast")), ("o_w3f", ("compile", "word3", "fast")), ("o_pbaf", ("compile", "pick_ba", "fast")), ("o_pabf", ("compile", "pick_ab", "fast")),
                  (None, ("truth_table", "o_pabf")), (None, ("export", "o_w3f", "qasm"))],
                 [("o_ki", ("compile", "k_int", "default")), ("o_kf", ("compile", "k_fix", "default")), ("o_kb", ("compile", "k_bool", "default")), (None, ("truth_table", "o_kf")),
                  (None, ("truth_table", "o_kb")), (None, ("export", "o_ki", "qasm"))],
                 [("o_kb2", ("compile", "k_bool", "fast")), ("o_ki2", ("compile", "k_int2", "default")), ("o_kf2", ("compile", "k_fix2", "default")), (None, ("truth_table", "o_kf2")),
                  (None, ("truth_table", "o_ki2")), (None, ("export", "o_kf2", "qasm"))]][i % 6]
        for t_, op_ in clash:
            if t_:
                clash_creators[t_] = op_
        forced = [("t1", ("bind", "o_u2", [1, 2, 3, 0])), ("t2", ("bind", "o_u2", [3, 3, 0, 1])), (None, ("bind_twice", "o_u", 2)), (None, ("recompile", "unc", i % 4 == 0))] if i % 2 == 0 else \
                 [(None, ("decopt_preserve", "o_redd")), (None, ("export", "o_redd", "qasm")), (None, ("truth_table", "o_redd"))]
        for t, op in chosen + r.sample(extra, 2) + forced + clash:
            for need in needs(op):
                if need not in built:
                    h.append(next(p for p in base_objs if p[0] == need))
                    built.add(need)
            h.append((t, op))
            if t:
                built.add(t)
            # use the object again after it has been handed to something: its own operations must be unaffected
            if op[0] in ("grover", "dj", "bv", "simon", "defs", "oraclize", "grover_el") and r.random() < 0.7:
                h.append((None, ("truth_table", op[1])))
                h.append((None, ("export", op[1], "qasm")))
        hs.append(h)
    return hs, {**dict(base_objs), **clash_creators}


def dynamic_job(a):
    hi, hist = a
    recs = run_history(hist)
    return [dict(name="hist", status="x", strength="aux", backend="fingerprint", secs=0, hi=hi, hist=hist, recs=recs)]


def reference_job(a):
    key, target, op, cr = a
    ref, rerr = fresh_reference((target, op, cr))
    return [dict(name="ref", status="x", strength="aux", backend="fingerprint", secs=0, key=key, ref=ref, rerr=rerr)]


def opkey(op):
    return json.dumps(op, default=str)


def _dispatch(j):
    f, a = j
    return f(a)


def run(tier, only=None):
    rep = Report("C10", tier, "other", f"./check C10 --tier {tier}")
    jobs = [(static_job, None)]
    hs, creators = histories(tier, 0)
    for i, h in enumerate(hs):
        jobs.append((dynamic_job, (i, h)))
    if only == "static":
        jobs = jobs[:1]
    rs0 = run_pool(_dispatch, jobs)
    rs = [r for r in rs0 if r.get("name") != "hist"]
    hist_recs = [r for r in rs0 if r.get("name") == "hist"]
    # reference results: every distinct operation alone in a fresh process (its operands rebuilt there)
    need = {}
    for h in hist_recs:
        for rec in h["recs"]:
            op, target = tuple(rec["op"]), rec["target"]
            cr = []
            for n in needs(op):
                if n in creators:
                    cr.append((n, creators[n]))
                elif n in ("b1", "b2"):
                    cr += [("o_u", creators["o_u"]), (n, ("bind", "o_u", 1 if n == "b1" else 2))]
                elif n in ("t1", "t2", "t3"):
                    cr += [("o_u2", creators["o_u2"]), (n, ("bind", "o_u2", {"t1": [1, 2, 3, 0], "t2": [3, 3, 0, 1], "t3": [0, 1, 0, 2]}[n]))]
            need.setdefault(opkey(op), (opkey(op), target, op, cr))
    refs = {r["key"]: (r["ref"], r["rerr"]) for r in run_pool(reference_job, list(need.values()), fresh_process_per_task=True) if r.get("name") == "ref"}
    for h in hist_recs:
        hist = h["hist"]
        for rec in h["recs"]:
            op, target = tuple(rec["op"]), rec["target"]
            label = f"h{h['hi']}.s{rec['step']}:{'/'.join(str(x) for x in op)}"
            base = dict(strength="bounded", backend="fingerprint", opkind=op[0])
            htxt = [f"{t}={'/'.join(str(x) for x in o)}" if t else '/'.join(str(x) for x in o) for t, o in hist[:rec["step"] + 1]]
            nm = f"C10.dynamic.frame[{label}]"
            if rec["changed"] or rec["module_changes"]:
                rs.append(res(nm, REFUTED, replayed=True, replay=dict(history=htxt, objects_changed=rec["changed"], module_state_changed=rec["module_changes"][:6],
                                                                      call="the history is executed in one fresh process; fingerprints of every live object compared before/after the last operation"), **base))
            else:
                rs.append(res(nm, PROVED, **base))
            if isinstance(rec["result"], dict) and "__assert__" in rec["result"]:
                nm = f"C10.dynamic.invariant[{label}]"
                if rec["result"]["__assert__"]:
                    rs.append(res(nm, PROVED, **base))
                else:
                    rs.append(res(nm, REFUTED, replayed=True, replay=dict(history=htxt, **{k: v for k, v in rec["result"].items() if k != "__assert__"}), **base))
            nm = f"C10.dynamic.same-as-fresh[{label}]"
            ref = refs.get(opkey(op))
            if ref is None:
                rs.append(res(nm, common.UNDECIDED, detail="no reference result", **base))
            elif op[0] == "compile" and ref[1] is not None:
                # vacuity guard: every program of the pool compiles when it is alone; an error here means the harness is broken
                rs.append(res(nm, common.ENGINE, detail=f"the reference compilation raises: {ref[1]}", **base))
            elif (json.dumps(ref[0], default=str), ref[1]) != (json.dumps(rec["result"], default=str), rec["error"]):
                rs.append(res(nm, REFUTED, replayed=True, replay=dict(history=htxt, observed=str(rec["result"] if rec["error"] is None else rec["error"])[:700],
                                                                      fresh_process_result=str(ref[0] if ref[1] is None else ref[1])[:700]), **base))
            else:
                rs.append(res(nm, PROVED, **base))
    rep.add(rs)
    rep.rule = "static: one obligation per flagged effect site of the whole source; dynamic: one evaluation per operation of a history (frame + same-as-fresh-process)"
    stat = next((r for r in rs if r["name"] == "C10.static.coverage"), {})
    rep.extra.update(static=dict(functions=stat.get("functions"), files=stat.get("files"), flagged_sites=stat.get("sites"), complete="over qlasskit/**/*.py for F1-F3 as stated (conservative, name based)"),
                     dynamic=dict(histories=len(hs), operations=sum(len(h) for h in hs), bound="seeded histories of 12-20 operations over a pool of 9 programs (incl. clashing names f / flatten / reduce / test)"),
                     lemma="history reduction: per-operation frame + determinism contracts imply history independence (induction on the history; not machine-checked)")
    rep.assumptions = ["A4 the static analysis approximates aliasing by flow-insensitive, name-based taint from parameters (a plain rebinding kills it); containers of containers are not tracked",
                       "MUTATORS is a name-based list of mutating methods (builtin containers + the repository's receiver-mutating methods)",
                       "fingerprint = (name, args, expressions as text, gate kinds/wires/params, qubit_map, input/output qubits); dynamic part bounded"]
    rep.explanation = "frame/ownership contracts: static effect obligations over every function of the repository matched against declared frames, plus a bounded dynamic frame monitor over API histories compared with fresh-process runs"
    rep.samples = [dict(name=r["name"], status=r["status"], site=r.get("site"), declared=r.get("declared")) for r in rs[:8]]
    return rep


def replay(path):
    import sys
    from ..common import generic_replay
    return generic_replay(sys.modules[__name__], path)
