"""C01 - boolean expressions mean what the Python source means.
L1 type-operation contracts, L2 translator contracts (modular over L1): proved-class.
L3 whole front end against the reference semantics: bounded (see props/c01_l3.py)."""
import os
import random

from .. import common
from ..common import Report, run_pool
from ..contract import canary_shape, crosscheck_shape, verify_shape

_MOD = None


def _modtable():
    global _MOD
    if _MOD is None:
        from contracts import translator
        _MOD = translator.Modular()
    return _MOD.table


def _job(a):
    kind, c, sh = a
    if kind == "L1":
        return verify_shape(c, sh)
    if kind == "L2":
        return verify_shape(c, sh, modular_table=_modtable())
    if kind == "canary1":
        return [dict(name="canary", status="x", strength="aux", backend="z3", secs=0, aux=canary_shape(c, sh))]
    if kind == "canary2":
        return [dict(name="canary", status="x", strength="aux", backend="z3", secs=0, aux=canary_shape(c, sh, _modtable()))]
    if kind == "L3":
        from . import c01_l3
        return c01_l3.job((c, sh[0], sh[1]))
    if kind == "AST":
        from . import c01_ast
        return c01_ast.job((c, sh))
    if kind == "TV":
        from . import c01_tv
        return c01_tv.job((c, sh))
    if kind == "cross":
        from ..bounded import Budget, time_budget
        try:
            with time_budget(60):
                aux = crosscheck_shape(c, sh)
        except (Budget, Exception) as ex:  # noqa
            # the alarm may fire inside a z3 ctypes call, where it surfaces as ctypes.ArgumentError("... Budget ...")
            if not isinstance(ex, Budget) and "Budget" not in str(ex):
                raise
            aux = dict(contract=c.name, shape=c.shape_str(sh), agree=None, detail="native run exceeded 60 s: skipped")
        return [dict(name="cross", status="x", strength="aux", backend="cpython", secs=0, aux=aux)]
    raise ValueError(kind)


def _mul_big(c, sh):
    return c.name == "QintImp.mul" and max(sh[1].BIT_SIZE, sh[2].BIT_SIZE) >= 8


def run(tier, only=None):
    from contracts import statements, translator, types_ops
    rep = Report("C01", tier, "proof", f"./check C01 --tier {tier}")
    rnd = random.Random(common.SEED)
    jobs, canaries, cross = [], [], []
    l1, l2 = types_ops.all_contracts(), translator.all_contracts() + statements.all_contracts()
    for layer, cs in (("L1", l1), ("L2", l2)):
        for c in cs:
            if only and only not in c.name and only != layer:
                continue
            shapes = c.shapes(tier)
            kept = []
            for sh in shapes:
                if layer == "L1" and _mul_big(c, sh):
                    big = max(sh[1].BIT_SIZE, sh[2].BIT_SIZE)
                    if tier == "quick" or big >= 12:
                        rep.not_attempted.append(dict(obligation=c.oname("value", sh),
                                                      reason="miter of two multiplier architectures at >= 8x8 (quick) / >= 12 bits (thorough) exceeds the solver budget; "
                                                             "not counted, not proved"))
                        continue
                kept.append(sh)
                jobs.append((layer, c, sh))
            rep.under_contract(c.fn())
            # canaries and cross-checks on a sample of the shapes
            if kept:
                samp = [kept[0], kept[-1]] + rnd.sample(kept, min(len(kept), 2 if tier == "quick" else 6))
                for sh in samp:
                    canaries.append(("canary1" if layer == "L1" else "canary2", c, sh))
                for sh in rnd.sample(kept, min(len(kept), 3 if tier == "quick" else 12)):
                    # running the multiplier natively on sympy Symbols blows up beyond 4 x 4 bits: no native cross-check there
                    if layer == "L1" and "mul" in c.name and max([getattr(x, "BIT_SIZE", 0) for x in sh if isinstance(x, type)] + [0]) > 4:
                        continue
                    cross.append(("cross", c, sh))
    l3 = []
    if not only or only == "L3":
        from . import c01_l3
        from qlasskit.qlassfun import QlassF
        l3 = [("L3", o, (src, prof)) for (o, src, prof) in c01_l3.jobs(tier)]
        rep.under_contract(QlassF.from_function, QlassF.truth_table)
    la = []
    if not only or only in ("A", "AST"):
        from . import c01_ast
        from qlasskit.ast2ast.constantfolder import ConstantFolder
        la = [("AST", k, arg) for (k, arg) in c01_ast.jobs(tier)]
        rep.under_contract(ConstantFolder.visit_Compare, ConstantFolder.visit_BinOp, ConstantFolder.visit_UnaryOp, ConstantFolder.visit_If, ConstantFolder.visit_IfExp,
                           ConstantFolder.visit_Call, ConstantFolder.visit_Subscript)
    lt = []
    if not only or only in ("T", "TV"):
        from . import c01_l3
        from qlasskit.ast2ast import ast2ast
        from qlasskit.ast2ast.astrewriter import ASTRewriter
        from qlasskit.ast2ast.replacemultitargetassign import ReplaceMultiTargetAssign
        lt = [("TV", o, src) for (o, src) in c01_l3.family(tier, front=True) if o != "outside"]
        rep.under_contract(ast2ast, ASTRewriter.visit_For, ASTRewriter.visit_If, ASTRewriter.visit_Assign, ASTRewriter.visit_AugAssign, ASTRewriter.visit_Call,
                           ASTRewriter.visit_Subscript, ReplaceMultiTargetAssign.visit_Assign)
    rs = run_pool(_job, jobs + canaries + cross, chunksize=4) + run_pool(_job, la, chunksize=1) + run_pool(_job, lt, chunksize=2) + run_pool(_job, l3, chunksize=2)
    tv_skipped = [r for r in rs if r.get("strength") == "aux" and r.get("backend") == "pyvc" and "why" in r]
    rs = [r for r in rs if r not in tv_skipped]
    if lt:
        import collections
        why = collections.Counter(r["why"].split(":")[0][:70] for r in tv_skipped)
        rep.extra["layer_T"] = dict(programs=len(lt), not_attempted=len(tv_skipped), not_attempted_reasons=dict(why.most_common(12)),
                                    note="programs outside pyvc's symbolic subset or rejected by ast2ast are not attempted and never counted")
    main = [r for r in rs if r.get("strength") != "aux"]
    aux = [r["aux"] for r in rs if r.get("strength") == "aux" and r["name"] == "canary"]
    crs = [r["aux"] for r in rs if r.get("strength") == "aux" and r["name"] == "cross"]
    engine_fail = [r for r in rs if r.get("strength") == "aux" and r["status"] != "x"]
    rep.add(main)
    rep.add([r for r in rs if r["status"] == common.ENGINE and r not in main])
    # canary / cross-check verdicts are engine-health results
    for a in aux:
        if a["refuted"] is False:
            rep.add([common.res(f"C01.canary.{a['contract']}[{a['shape']}]", common.ENGINE, backend="z3",
                                detail=f"a one-bit-flipped result was NOT refuted: {a['detail']}")])
    for a in crs:
        if a["agree"] is False:
            rep.add([common.res(f"C01.crosscheck.{a['contract']}[{a['shape']}]", common.ENGINE, backend="cpython",
                                detail=f"engine and CPython disagree: {a['detail']}")])
    rep.extra.update(
        canaries=dict(run=sum(1 for a in aux if a["refuted"] is not None), refuted=sum(1 for a in aux if a["refuted"]),
                      not_applicable=sum(1 for a in aux if a["refuted"] is None)),
        crosscheck=dict(shapes=len(crs), agree=sum(1 for a in crs if a["agree"]), skipped=sum(1 for a in crs if a["agree"] is None),
                        disagree=sum(1 for a in crs if a["agree"] is False)),
        shape_space=[dict(layer="L1", what="every ordered pair of shipped types of the operator's class (x dispatch class, x shift amount 0..w+1, "
                                           "x constant 0..255 for the all-literal multiplication path)", complete=True),
                     dict(layer="L2", what="every AST node kind x every ordered pair of the 24 shipped scalar types; integer-constant operands from a fixed list; "
                                           "tuples of <= 3 scalars", complete="per node kind over the type pairs; constants and tuple shapes are a finite sample")],
        routes=dict(S=len(main), U=0),
        L3_bounded=dict(family="program strings of the repository's tests + curated programs over every documented feature + outside-the-subset programs + "
                               "seeded generator (bool programs <= 4 vars depth <= 3; Qint programs widths 2..4 depth <= 2)",
                        bound="<= 12 argument bits per program; both optimizer profiles", all_values=True,
                        programs=len({r.get("instance_key") for r in main if r.get("strength") == "bounded"}),
                        outcomes={o: sum(1 for r in main if r.get("outcome") == o) for o in ("accepted", "rejected", "accepted-reference-rejects", "skipped")}),
        exhaustive=False,
    )
    rep.trusted = ["z3 4.x/5.1 (unsat answers)", "CPython 3.12 executing the instrumented source", "pyvc hooks (cross-checked against native runs on every check)",
                   "sympy constructors And/Or/Not/Xor/ITE modelled by their denotation (A1)"]
    rep.assumptions = [
        "A1 sympy's boolean constructors and their automatic evaluation preserve denotation (modelled; exercised by the native cross-check)",
        "A7 CPython 3.12 / sympy 1.12 are the execution platform for concrete sub-computations",
        "A10 solver trusted for unsat; every sat model is replayed on the uninstrumented function",
        "L2 obligations assume the L1 contracts (modular); an L1 contract that is refuted today is a finding at L1 and is still assumed at L2",
        "L3 (ast2ast rewriting, optimizer, CNF step) is NOT covered by the proved obligations: bounded family, reported separately",
        "termination not verified",
    ]
    rep.explanation = ("contract obligations generated by symbolic execution of the real source of the type operations and of translate_expression; "
                       "each is decided by z3 for all operand formulas and all values at one shape; shape spaces are finite and enumerated completely")
    for r in main[:400:80]:
        rep.samples.append({k: r.get(k) for k in ("name", "status", "backend", "secs", "outcome", "paths")})
    return rep


def replay(path):
    import json
    d = json.load(open(path))
    print(json.dumps({k: d.get(k) for k in ("obligation", "function", "shape", "clause", "replay", "raised")}, indent=1, default=str))
    # re-run the obligation on the current tree
    from contracts import statements, translator, types_ops
    for layer, cs in (("L1", types_ops.all_contracts()), ("L2", translator.all_contracts() + statements.all_contracts())):
        for c in cs:
            for sh in c.shapes("thorough"):
                if any(c.oname(cl, sh) == d["obligation"] for cl in (d.get("clause", ""),)):
                    rs = verify_shape(c, sh, modular_table=_modtable() if layer == "L2" else None)
                    bad = [r for r in rs if r["name"] == d["obligation"] and r["status"] == common.REFUTED]
                    for r in bad:
                        print("REPRODUCED", r["name"], r.get("replay"))
                    return 1 if bad else 0
    print("obligation not found on this tree")
    return 2
