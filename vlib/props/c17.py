"""C17 - command-line tools print what the library computes.

Contracts on tools/py2bexp.py, tools/py2qasm.py, tools/utils.py, tools/tools.py:
  convert_to_bool_expression(qf, form)  ensures the result mentions only argument bits of qf and is logically equivalent, over the
                                        argument bits, to the conjunction of qf's return bits
  convert_to_dimacs(expr)               ensures header `p cnf V C`, V = number of free symbols, exactly C clause lines each ending in ` 0`,
                                        literals in +-1..V, and - under SOME one-to-one numbering of the symbols - exactly the satisfying
                                        assignments of expr; raises nothing on any boolean expression
  parse_str(script)                     every QlassF bound at module level is returned with its module-level name
  py2bexp.main() / py2qasm.main()       --entrypoint NAME selects the object bound to NAME; a single-function script needs no option;
                                        the printed text satisfies the contracts above for every --form x --format;
                                        py2qasm prints QasmExporter(version).export(circuit compiled with the chosen compiler, "circuit")
Bounded: a family of scripts x forms x formats x entry points; every instance decided on all assignments."""
import contextlib
import io
import itertools
import os
import sys
import time

from .. import bounded, common, spec
from ..common import PROVED, REFUTED, Report, res, run_pool

HEADER = "from qlasskit import qlassf, qlassfa, Parameter, Qint, Qint2, Qint4, Qfixed, Qchar, Qlist\nfrom typing import Tuple\n\n"

FUNCS = {
    "and2": "@qlassf\ndef and2(a: bool, b: bool) -> bool:\n    return a and b\n",
    "or3": "@qlassf\ndef or3(a: bool, b: bool, c: bool) -> bool:\n    return a or b or c\n",
    "lit": "@qlassf\ndef lit(a: bool) -> bool:\n    return a\n",
    "nlit": "@qlassf\ndef nlit(a: bool) -> bool:\n    return not a\n",
    "const": "@qlassf\ndef const(a: bool) -> bool:\n    return True\n",
    "xor3": "@qlassf\ndef xor3(a: bool, b: bool, c: bool) -> bool:\n    return a ^ b ^ c\n",
    "maj": "@qlassf\ndef maj(a: bool, b: bool, c: bool) -> bool:\n    return (a and b) or (b and c) or (a and c)\n",
    "shared": "@qlassf\ndef shared(a: bool, b: bool, c: bool) -> bool:\n    d = a and b\n    return (d or c) and (d ^ c)\n",
    "gt": "@qlassf\ndef gt(a: Qint[2], b: Qint[2]) -> bool:\n    return a > b\n",
    "pair": "@qlassf\ndef pair(a: bool, b: bool) -> Tuple[bool, bool]:\n    return (a and b, a or b)\n",
    "add": "@qlassf\ndef add(a: Qint[2], b: Qint[2]) -> Qint[2]:\n    return a + b\n",
    "eq3": "@qlassf\ndef eq3(a: Qint[2]) -> bool:\n    return a == 3\n",
    # functions that are NOT decorated definitions of the script: built from a source string, and obtained by binding a parameter
    "fromstr": "fromstr = qlassf('def fromstr(a: bool, b: bool) -> bool:\\n    return a and not b')\n",
    # functions the script did NOT compile (the tool has to)
    "nocompile": "nocompile = qlassf('def nocompile(a: bool, b: bool) -> bool:\\n    return a ^ b', to_compile=False)\n",
    "nocompile2": "@qlassfa(to_compile=False)\ndef nocompile2(a: bool, b: bool, c: bool) -> bool:\n    return (a and b) or c\n",
    "bound": "_unbound = qlassf('def bound(c: Parameter[bool], a: bool, b: bool) -> bool:\\n    return (a or b) and c')\nbound = _unbound.bind(c=True)\n",
    # DIFFERENT functions whose def name is the same (two bindings of one parameterised function; two source strings): module-level names select
    "bt": "_ub = qlassf('def same(c: Parameter[bool], a: bool, b: bool) -> bool:\\n    return (a or b) if c else (a and b)')\nbt = _ub.bind(c=True)\n",
    "bf": "bf = _ub.bind(c=False)\n",
    "sa": "sa = qlassf('def same2(a: bool, b: bool) -> bool:\\n    return a and not b', to_compile=False)\n",
    "sb": "sb = qlassf('def same2(a: bool, b: bool) -> bool:\\n    return a or b', to_compile=False)\n",
}

SCRIPTS = [["and2"], ["or3"], ["lit"], ["nlit"], ["const"], ["xor3"], ["maj"], ["shared"], ["gt"], ["pair"], ["add"], ["eq3"],
           ["lit", "maj"], ["xor3", "and2", "gt"], ["pair", "nlit"], ["fromstr"], ["bound"], ["fromstr", "and2"], ["nocompile"], ["nocompile2"],
           ["bt", "bf"], ["sa", "sb"]]
# how the script reaches the tool / where the output goes (the statement speaks of scripts, not of file names)
IO_MODES = [("stdin", "stdout"), ("script.py", "stdout"), ("script.txt", "stdout"), ("noextension", "stdout"), ("dir.v2/my-script.py", "out.txt"), ("stdin", "out.txt")]
FORMS = [None, "anf", "cnf", "dnf", "nnf"]
FORMATS = ["sympy", "dimacs"]


def script_text(names):
    return HEADER + "\n".join(FUNCS[n] for n in names)


@contextlib.contextmanager
def cli(argv, stdin_text=""):
    old = sys.argv, sys.stdin, sys.stdout, sys.stderr
    out, err = io.StringIO(), io.StringIO()
    sys.argv, sys.stdin, sys.stdout, sys.stderr = argv, io.StringIO(stdin_text), out, err
    try:
        yield out, err
    finally:
        sys.argv, sys.stdin, sys.stdout, sys.stderr = old


def parse_expr_text(text, names):
    """printed sympy expression -> sympy object over Symbols with the printed names (a.0 etc. are not identifiers)"""
    import re
    import sympy
    from sympy.logic import boolalg
    toks = sorted(set(re.findall(r"[A-Za-z_][A-Za-z_0-9]*(?:\.[0-9]+)*", text)), key=len, reverse=True)
    ns, s = {}, text
    keep = {"True", "False", "ITE", "Implies", "Xor", "And", "Or", "Not"}
    for i, t in enumerate(toks):
        if t in keep:
            continue
        ph = f"__s{i}__"
        s = re.sub(r"(?<![A-Za-z_0-9.])" + re.escape(t) + r"(?![A-Za-z_0-9.])", ph, s)
        ns[ph] = sympy.Symbol(t)
    ns.update(ITE=boolalg.ITE, Implies=boolalg.Implies, Xor=boolalg.Xor, And=boolalg.And, Or=boolalg.Or, Not=boolalg.Not, true=sympy.true, false=sympy.false)
    e = eval(s, {"__builtins__": {}}, dict(ns, True_=sympy.true))
    if e is True:
        e = sympy.true
    if e is False:
        e = sympy.false
    return e


def ret_conjunction_table(qf):
    et = bounded.expr_tables(qf, 12)
    names, tabs, mask = et
    t = mask
    for r in qf.returns.bitvec:
        t &= tabs[r]
    return names, t, mask


def check_dimacs(text, expr_table, names, mask, free_names):
    """-> None or reason.  free_names: names of the free symbols the expression handed to convert_to_dimacs has"""
    lines = [l for l in text.strip().split("\n") if l.strip()]
    if not lines or not lines[0].startswith("p cnf "):
        return f"no header: {lines[:1]}"
    try:
        V, C = map(int, lines[0].split()[2:4])
    except Exception:  # noqa
        return f"bad header {lines[0]!r}"
    body = lines[1:]
    if len(body) != C:
        return f"header declares {C} clauses, {len(body)} lines follow"
    clauses = []
    for l in body:
        parts = l.split()
        if parts[-1] != "0":
            return f"clause line not terminated by 0: {l!r}"
        lits = [int(x) for x in parts[:-1]]
        if any(x == 0 or abs(x) > V for x in lits):
            return f"literal out of range 1..{V}: {l!r}"
        clauses.append(lits)
    # the statement: "under a one-to-one numbering of the function's variables, exactly the same satisfying assignments".  The clause set
    # may declare variables it does not constrain (never more than the function has); the variables it DOES depend on must map one-to-one
    # onto the argument bits the expression depends on, with the same models.
    if V > len(names):
        return f"header declares {V} variables, the function has {len(names)} argument bits"
    n = len(names)

    def sat(assign):
        return all(any((assign[abs(x) - 1] == 1) == (x > 0) for x in cl) for cl in clauses)

    rows = [sat([(r >> i) & 1 for i in range(V)]) for r in range(1 << V)]
    D = [i for i in range(V) if any(rows[r] != rows[r ^ (1 << i)] for r in range(1 << V))]
    dep = [nm for nm in names if _depends(expr_table, nm, names, mask)]
    if len(D) != len(dep):
        return f"the clause set depends on {len(D)} variable(s), the expression on {len(dep)} ({dep})"
    idx = {nm: i for i, nm in enumerate(names)}
    for perm in itertools.permutations(dep):
        ok = True
        for r in range(1 << len(D)):
            cr = sum(((r >> k) & 1) << D[k] for k in range(len(D)))
            er = sum(((r >> k) & 1) << idx[perm[k]] for k in range(len(D)))
            if rows[cr] != bool((expr_table >> er) & 1):
                ok = False
                break
        if ok:
            return None
    return "no numbering of the variables makes the clause set have the satisfying assignments of the expression"


FAM_HEADER = "from qlasskit import *\nfrom typing import Tuple, List\n\n"


def job_family(a):
    """single-function scripts made of the C01 L3 program family (tests / curated / generated), not compiled by the script; each instance under a
    time budget (sympy's normal forms of large expressions): an instance over budget is skipped, not a verdict"""
    out = []
    for origin, src, combos in a:
        for form, fmt in combos:
            try:
                with bounded.time_budget(25):
                    out += job_bexp((("fam", origin, src), form, fmt, None))
            except bounded.Budget:
                pass
    return out


def job_bexp(a):
    si, form, fmt, entry = a[:4]
    io_mode = a[4] if len(a) > 4 else ("stdin", "stdout")
    t0 = time.time()
    from qlasskit.tools import py2bexp
    from qlasskit.tools.utils import parse_str
    if isinstance(si, tuple):
        import hashlib
        import re
        _, origin, src = si
        names_ = [re.match(r"def\s+(\w+)", src).group(1)]
        text = FAM_HEADER + "@qlassfa(to_compile=False)\n" + src.replace("\t", "    ") + "\n"
        label = f"family,{origin},{hashlib.sha1(src.encode()).hexdigest()[:8]},form={form},format={fmt}"
        try:    # only accepted programs with <= 8 argument bits (DIMACS: <= 5 bits the conjunction depends on)
            qf0 = dict(parse_str(text)).get(names_[0])
            if qf0 is None or not hasattr(qf0, "expressions") or len(bounded.input_names(qf0)) > 8:
                return []
            in0, want0, mask0 = ret_conjunction_table(qf0)
            if fmt == "dimacs" and sum(_depends(want0, n, in0, mask0) for n in in0) > 5:
                return []
        except bounded.Budget:
            raise
        except Exception:  # noqa   rejected program: not a script "containing compiled functions"
            return []
    else:
        names_ = SCRIPTS[si]
        text = script_text(names_)
        label = f"{'+'.join(names_)},form={form},format={fmt},entry={entry}" + ("" if io_mode == ("stdin", "stdout") else f",input={io_mode[0]},output={io_mode[1]}")
    name = f"C17.py2bexp.main[{label}]"
    base = dict(strength="bounded", backend="truth-table")
    argv = ["py2bexp"]
    if form:
        argv += ["-f", form]
    argv += ["-t", fmt]
    if entry:
        argv += ["-e", entry]
    work = None
    if io_mode != ("stdin", "stdout"):
        import tempfile
        work = tempfile.mkdtemp(prefix="c17_", dir=common.private_tmp())
        if io_mode[0] != "stdin":
            ip = os.path.join(work, io_mode[0])
            os.makedirs(os.path.dirname(ip), exist_ok=True)
            open(ip, "w").write(text)
            argv += ["-i", ip]
        if io_mode[1] != "stdout":
            argv += ["-o", os.path.join(work, io_mode[1])]
    try:
        with cli(argv, text if io_mode[0] == "stdin" else "") as (out, err):
            py2bexp.main()
        printed = out.getvalue()
        if io_mode[1] != "stdout":
            op_ = os.path.join(work, io_mode[1])
            if not os.path.exists(op_):
                return [res(name, REFUTED, replayed=True, replay=dict(argv=argv, script=text, observed="the output file was not written", stdout=printed[:300]), **base)]
            printed = open(op_).read()
    except SystemExit as ex:
        return [res(name, REFUTED, replayed=True, replay=dict(argv=argv, script=text, observed=f"SystemExit {ex.code}"), **base)]
    except bounded.Budget:
        raise
    except Exception as ex:  # noqa
        return [res(name, REFUTED, replayed=True, replay=dict(argv=argv, script=text, observed=f"raises {type(ex).__name__}: {ex}"[:300]), **base)]
    # which function must have been selected?
    target = entry if entry else (names_[0] if len(names_) == 1 else None)
    defs = dict(parse_str(text))
    if sorted(defs) != sorted(names_):
        return [res(name, REFUTED, replayed=True, replay=dict(script=text, observed=f"parse_str returns {sorted(defs)}", expected=sorted(names_)), **base)]
    if target is None:
        return [res(name, PROVED, nontrivial=False, note="several functions and no entry point: the statement leaves the choice open", **base)]
    qf = defs[target]
    in_names, want, mask = ret_conjunction_table(qf)
    # when stdout carries a DIMACS conversion warning, drop it
    body = "\n".join(l for l in printed.split("\n") if not l.startswith("Warning:"))
    if fmt == "sympy":
        try:
            e = parse_expr_text(body.strip(), in_names)
        except Exception as ex:  # noqa
            return [res(name, REFUTED, replayed=True, replay=dict(argv=argv, script=text, printed=printed, observed=f"printed text does not parse: {ex}"), **base)]
        fs = {s.name for s in getattr(e, "free_symbols", set())}
        if not fs <= set(in_names):
            return [res(name, REFUTED, replayed=True, replay=dict(argv=argv, script=text, printed=printed.strip(), observed=f"mentions {sorted(fs - set(in_names))}, which are not argument bits",
                                                                 expected="an expression over the argument bits equivalent to the conjunction of the return bits"), **base)]
        tabs, _ = spec.input_tables(in_names)
        got = spec.sympy_table(e, None, tabs, mask)
        if got != want:
            row = spec.first_row(got ^ want)
            return [res(name, REFUTED, replayed=True, replay=dict(argv=argv, script=text, printed=printed.strip(), assignment=dict(zip(in_names, bounded.row_bits(row, len(in_names)))),
                                                                 observed=(got >> row) & 1, expected=(want >> row) & 1), **base)]
        return [res(name, PROVED, secs=time.time() - t0, nontrivial=want not in (0, mask), **base)]
    # dimacs: the clause set must have exactly the models of the conjunction of the return bits, over the symbols it depends on
    dep = [n for n in in_names if _depends(want, n, in_names, mask)]
    why = check_dimacs(body, want, in_names, mask, dep)
    if why:
        return [res(name, REFUTED, replayed=True, replay=dict(argv=argv, script=text, printed=printed, observed=why), **base)]
    return [res(name, PROVED, secs=time.time() - t0, nontrivial=want not in (0, mask), **base)]


def _depends(t, n, names, mask):
    i = names.index(n)
    tabs, _ = spec.input_tables(names)
    hi = tabs[n]
    # compare cofactors: shift the rows where n=1 down onto n=0
    return ((t & hi) >> (1 << i)) != (t & (mask ^ hi))


def job_dimacs(a):
    """convert_to_dimacs on skeleton CNF shapes"""
    src, = a
    import sympy
    from sympy.logic import boolalg
    from qlasskit.tools.py2bexp import convert_to_dimacs
    syms = {n: sympy.Symbol(n) for n in "abcd"}
    e = eval(src, {}, dict(syms, And=boolalg.And, Or=boolalg.Or, Not=boolalg.Not, Xor=boolalg.Xor, true=sympy.true, false=sympy.false))
    name = f"C17.convert_to_dimacs.models[{src}]"
    base = dict(strength="bounded", backend="truth-table")
    names = list("abcd")
    tabs, mask = spec.input_tables(names)
    want = spec.sympy_table(e, None, tabs, mask)
    free = sorted(s.name for s in getattr(e, "free_symbols", set()))
    try:
        text = convert_to_dimacs(e)
    except Exception as ex:  # noqa
        return [res(name, REFUTED, replayed=True, replay=dict(expression=src, observed=f"raises {type(ex).__name__}: {ex}"[:200], expected="a DIMACS text"), **base)]
    why = check_dimacs(text, want, names, mask, free)
    if why:
        return [res(name, REFUTED, replayed=True, replay=dict(expression=src, printed=text, observed=why), **base)]
    return [res(name, PROVED, **base)]


DIMACS_SHAPES = ["a", "Not(a)", "Or(a, b)", "Or(a, Not(b), c)", "And(a, b)", "And(a, Not(b))", "And(Or(a, b), c)", "And(Or(a, b), Or(Not(a), c))",
                 "And(Or(a, b, c), Or(Not(a), Not(b)), d)", "Xor(a, b)", "Or(And(a, b), And(c, d))", "And(a, Or(b, c), Or(Not(b), Not(c), d))",
                 "Or(a, b, c, d)", "And(a, b, c, d)", "Not(And(a, b))"]


def job_qasm(a):
    si, entry, compiler, version = a
    names_ = SCRIPTS[si]
    from qlasskit.qcircuit.exporter_qasm import QasmExporter
    from qlasskit.tools import py2qasm
    from qlasskit.tools.utils import parse_str
    text = script_text(names_)
    name = f"C17.py2qasm.main[{'+'.join(names_)},entry={entry},compiler={compiler},qasm={version}]"
    base = dict(strength="bounded", backend="text")
    argv = ["py2qasm", "-c", compiler, "-q", version]
    if entry:
        argv += ["-e", entry]
    target = entry if entry else (names_[0] if len(names_) == 1 else None)
    try:
        with cli(argv, text) as (out, err):
            py2qasm.main()
        printed = out.getvalue()
    except BaseException as ex:  # noqa
        return [res(name, REFUTED, replayed=True, replay=dict(argv=argv, script=text, observed=f"raises {type(ex).__name__}: {ex}"[:300]), **base)]
    if target is None:
        return [res(name, PROVED, nontrivial=False, **base)]
    found = dict(parse_str(text))
    if target not in found:
        return [res(name, REFUTED, replayed=True, replay=dict(argv=argv, script=text, observed=f"parse_str finds {sorted(found)}", expected=f"the function {target}"), **base)]
    qf = found[target]
    qf.compile(compiler=compiler)
    exp = QasmExporter(version=3 if version == "3.0" else 2).export(qf.circuit(), mode="circuit")
    if printed.rstrip("\n") != str(exp).rstrip("\n"):
        return [res(name, REFUTED, replayed=True, replay=dict(argv=argv, script=text, printed=printed[:1500], expected=str(exp)[:1500]), **base)]
    hdr_ok = ("OPENQASM 3.0" in printed) if version == "3.0" else ("OPENQASM 2.0" in printed)
    if not hdr_ok:
        return [res(name, REFUTED, replayed=True, replay=dict(argv=argv, printed=printed[:300], observed="wrong OPENQASM version header"), **base)]
    return [res(name, PROVED, nontrivial=True, **base)]


def _dispatch(j):
    f, a = j
    return f(a)


def run(tier, only=None):
    from qlasskit.tools import py2bexp, py2qasm, tools, utils
    rep = Report("C17", tier, "other", f"./check C17 --tier {tier}")
    jobs = []
    for si, names_ in enumerate(SCRIPTS):
        entries = [None] + (names_ if len(names_) > 1 else []) + ([names_[0]] if len(names_) == 1 and si % 4 == 0 else [])
        for entry in entries:
            for form in FORMS:
                for fmt in FORMATS:
                    jobs.append((job_bexp, (si, form, fmt, entry)))
        for entry in entries[:2]:
            for compiler in ("internal",) + (("recompiler",) if tier == "thorough" else ()):
                for version in ("2.0", "3.0"):
                    jobs.append((job_qasm, (si, entry, compiler, version)))
    for si in (0, 7, 8, 15, 16):
        for mode in IO_MODES[1:]:
            for form, fmt in ((None, "sympy"), ("cnf", "dimacs"), ("dnf", "sympy")):
                jobs.append((job_bexp, (si, form, fmt, None, mode)))
    for sh in DIMACS_SHAPES:
        jobs.append((job_dimacs, (sh,)))
    from . import c01_l3
    fam = [x for x in c01_l3.family(tier, front=True) if x[0] != "outside" and "Q." not in x[1] and "Parameter[" not in x[1]]
    allc = [(f, t) for f in FORMS for t in FORMATS]
    items = [(o, src, allc if tier == "thorough" else [allc[(2 * i) % 10], allc[(2 * i + 5) % 10]]) for i, (o, src) in enumerate(fam)]
    for lo in range(0, len(items), 6):
        jobs.append((job_family, items[lo:lo + 6]))
    rep.add(run_pool(_dispatch, jobs, chunksize=2))
    rep.under_contract(py2bexp.convert_to_bool_expression, py2bexp.convert_to_dimacs, py2bexp.output_result, py2bexp.main, py2qasm.convert_to_quasm, py2qasm.main,
                       utils.parse_str, utils.parse_file, tools.find_last_qlassf)
    rep.rule = "one evaluation = one CLI invocation (in-process, patched argv/stdin/stdout) or one convert_to_dimacs call; printed text parsed back and compared on all assignments"
    rep.extra.update(bounded=dict(family=f"{len(SCRIPTS)} scripts (1-3 functions; single literal / negated literal / constant / single clause / shared intermediate / Qint / tuple returns) x 5 forms x 2 formats x entry points; "
                                         f"{len(DIMACS_SHAPES)} CNF skeleton shapes for convert_to_dimacs; py2qasm x versions x compilers; the C01 L3 program family (<= 8 argument bits; DIMACS <= 5) as single-function scripts x forms x formats (quick: 2 combinations per program)", bound="scripts listed in vlib/props/c17.py", all_values=True))
    rep.assumptions = ["the printed sympy text is parsed back by a 30-line reader (names with dots are mapped to symbols)", "DIMACS: existence of a one-to-one numbering is decided by trying every permutation (<= 4 variables)",
                       "py2qasm output is compared with QasmExporter on the same compiled function; the QASM contract itself is C13's", "bounded family"]
    rep.explanation = "contracts of the CLI printers checked end to end on a bounded family of scripts; every printed artefact is read back and compared with the library's own expressions on all assignments"
    rep.samples = [dict(name=r["name"], status=r["status"]) for r in rep.results[:6]]
    return rep


def replay(path):
    import sys
    from ..common import generic_replay
    return generic_replay(sys.modules[__name__], path)
