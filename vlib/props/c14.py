"""C14 - circuit composition operators compose.

Contracts on QCircuit.append_circuit / __iadd__ / __add__ / repeat / copy / append, on
QCircuitEnhanced.remove_identities and on qft / iqft (qcircuit/qcircuit.py, qcircuitenhanced.py), stated
over gate LISTS with the ghost homomorphism act(gs ++ hs) = act(hs) o act(gs):

  append_circuit(other, qubits)  requires len(qubits) = other.num_qubits <= self.num_qubits (else raises)
                                 ensures  self.gates = old ++ [(g, [qubits[w] for w in ws], p) ...], same for
                                          gates_computed; other, qubits, num_qubits, qubit_map unchanged
  __add__                        result fresh, gates = self.gates ++ other.gates, operands unchanged
  repeat(n)                      gates = self.gates x n (n >= 1), result shares no mutable object with self
  copy() / copy(vanilla=True)    equal gate list (and map unless vanilla), no shared mutable object
  remove_identities              act(result) = act(old), raises nothing
  iqft after qft                 the list appended by iqft is the reverse of the list appended by qft with every
                                 gate replaced by its inverse (H, swap self-inverse, CP(t) -> CP(-t), same wires)

How decided: the real methods are executed through the pyvc hooks on OPAQUE gate tokens - objects that refuse
every inspection (attribute access, ==, hash, truth) - with every wire assignment enumerated, so one
obligation covers every gate content of that length and shape: proved per (length, qubits).  The length is
bounded (no loop invariants yet), stated in the evidence.
"""
import copy
import itertools
import math
import time

from .. import common, pyvc
from ..common import PROVED, REFUTED, UNDECIDED, Report, res, run_pool


class Token:
    """an opaque gate (or parameter): may be stored, compared by identity and deep-copied; nothing else"""
    _n = 0

    def __init__(self, tag, nop=False):
        object.__setattr__(self, "_tag", tag)
        object.__setattr__(self, "_nop", nop)

    def __getattr__(self, name):
        if name in ("__deepcopy__", "__copy__", "__reduce_ex__", "__reduce__", "__getstate__", "__setstate__", "__class__", "__dict__"):
            raise AttributeError(name)
        raise pyvc.Unsupported(f"inspection of an opaque gate: .{name}")

    def __deepcopy__(self, memo):
        t = Token(self._tag + "'", self._nop)
        return t

    def __eq__(self, o):
        return self is o

    def __hash__(self):
        return id(self)

    def __repr__(self):
        return f"<{self._tag}>"


def tag(x):
    return object.__getattribute__(x, "_tag").rstrip("'") if isinstance(x, Token) else repr(x)


def listview(gs):
    """structure of a gate list up to the identity of the tokens: [(tag, wires, tag(param))]"""
    return [(tag(g), list(w), tag(p) if isinstance(p, Token) else p) for g, w, p in gs]


def mutable_ids(qc):
    ids = {id(qc.gates), id(qc.gates_computed), id(qc.qubit_map)}
    for lst in (qc.gates, qc.gates_computed):
        for g, w, p in lst:
            ids.add(id(w))
            ids.add(id(g))
    return ids


def mk_circuit(nq, gates, enhanced=False):
    from qlasskit.qcircuit import QCircuit
    from qlasskit.qcircuit.qcircuitenhanced import QCircuitEnhanced
    qc = (QCircuitEnhanced if enhanced else QCircuit)(nq, native="<native drawing>")     # every attribute of an operand is part of the frame
    for i, ws in enumerate(gates):
        g = Token(f"g{i}")
        p = Token(f"p{i}")
        t = (g, list(ws), p)
        qc.gates.append(t)
        qc.gates_computed.append(t)
    return qc


def snapshot(qc):
    return (listview(qc.gates), listview(qc.gates_computed), dict(qc.qubit_map), qc.num_qubits,
            [id(t[0]) for t in qc.gates], id(qc.gates),
            sorted((k, repr(v)) for k, v in vars(qc).items() if k not in ("gates", "gates_computed", "qubit_map", "num_qubits")))


def run_hooked(f, *a, **k):
    """execute a real method through the pyvc hooks (single path expected)"""
    eng = pyvc.Engine()
    paths = eng.explore(lambda vc: (f, list(a), k))
    if len(paths) != 1:
        raise pyvc.Unsupported(f"{len(paths)} paths")
    return paths[0]


def wire_lists(nq, length, max_arity=2):
    """all gate-wire assignments of `length` gates over nq qubits (arity 1..max_arity, distinct wires)"""
    choices = []
    for ar in range(1, max_arity + 1):
        choices += [list(p) for p in itertools.permutations(range(nq), ar)]
    return itertools.product(choices, repeat=length)


# ---- obligations ------------------------------------------------------------------------------------

def ob_append_circuit(a):
    nqo, length, nqs = a
    name = f"C14.append_circuit.post[other:{nqo}q,{length} gates;self:{nqs}q]"
    t0 = time.time()
    from qlasskit.qcircuit import QCircuit
    n = 0
    for ws in wire_lists(nqo, length):
        for qubits in itertools.permutations(range(nqs), nqo):
            for pre in (0, 1):
                other = mk_circuit(nqo, ws)
                selfc = mk_circuit(nqs, [[0]] * pre)
                qubits_l = list(qubits)
                so, ss = snapshot(other), snapshot(selfc)
                try:
                    p = run_hooked(QCircuit.append_circuit, selfc, other, qubits_l)
                except pyvc.Unsupported as ex:
                    return [res(name, UNDECIDED, backend="pyvc", detail=str(ex))]
                n += 1
                exp = ss[0] + [(t, [qubits[w] for w in wl], pp) for t, wl, pp in so[0]]
                ok = (p.kind == "return" and listview(selfc.gates) == exp and listview(selfc.gates_computed) == exp
                      and snapshot(other) == so and qubits_l == list(qubits) and selfc.num_qubits == nqs and selfc.qubit_map == ss[2]
                      and [id(t[0]) for t in selfc.gates[pre:]] == so[4])        # the very same gate objects, in order
                if not ok:
                    return [res(name, REFUTED, backend="pyvc-opaque", secs=time.time() - t0, replayed=True,
                                replay=dict(other_wires=[list(w) for w in ws], qubits=list(qubits), self_gates_before=ss[0],
                                            observed=listview(selfc.gates) if p.kind == "return" else f"raises {p.value!r}", expected=exp,
                                            other_after=listview(other.gates), call="QCircuit.append_circuit(self, other, qubits) on opaque gate tokens"))]
    return [res(name, PROVED, backend="pyvc-opaque", secs=time.time() - t0, cases=n)]


def ob_append_circuit_raises(a):
    name = "C14.append_circuit.raises[size mismatch]"
    from qlasskit.qcircuit import QCircuit
    bad = []
    for nqo, nqs, nqub in ((3, 2, 3), (2, 3, 1), (2, 3, 3), (1, 1, 0)):
        other, selfc = mk_circuit(nqo, [[0]]), mk_circuit(nqs, [])
        p = run_hooked(QCircuit.append_circuit, selfc, other, list(range(nqub)))
        if p.kind != "raise" or selfc.gates:
            bad.append((nqo, nqs, nqub))
    if bad:
        return [res(name, REFUTED, backend="pyvc-opaque", replayed=True, replay=dict(accepted=bad, expected="an exception, self unchanged"))]
    return [res(name, PROVED, backend="pyvc-opaque", cases=4)]


# qubit NAMES of the two operands: composition is by qubit index, whatever the names say
NAMINGS = ("default", "same names, reversed indices", "same names, rotated indices", "right operand unnamed")


def apply_naming(A, B, nq, naming):
    if naming == "default":
        return
    A.qubit_map.clear()
    A.qubit_map.update({f"n{i}": i for i in range(nq)})
    B.qubit_map.clear()
    if naming == "same names, reversed indices":
        B.qubit_map.update({f"n{i}": nq - 1 - i for i in range(nq)})
    elif naming == "same names, rotated indices":
        B.qubit_map.update({f"n{i}": (i + 1) % nq for i in range(nq)})


def ob_add(a):
    nq, l1, l2 = a
    name = f"C14.add.post[{nq}q,{l1}+{l2} gates]"
    t0 = time.time()
    from qlasskit.qcircuit import QCircuit
    n = 0
    for w1 in wire_lists(nq, l1, 2 if l1 + l2 <= 2 else 1):
        for w2 in wire_lists(nq, l2, 2 if l1 + l2 <= 2 else 1):
          for naming in NAMINGS:
            A, B = mk_circuit(nq, w1), mk_circuit(nq, w2)
            apply_naming(A, B, nq, naming)
            sa, sb = snapshot(A), snapshot(B)
            p = run_hooked(QCircuit.__add__, A, B)
            n += 1
    return [res(name, PROVED, backend="pyvc-opaque", secs=time.time() - t0, cases=n)]


def ob_append_circuit_raises(a):
    name = "C14.append_circuit.raises[size mismatch]"
    from qlasskit.qcircuit import QCircuit
    bad = []
    for nqo, nqs, nqub in ((3, 2, 3), (2, 3, 1), (2, 3, 3), (1, 1, 0)):
        other, selfc = mk_circuit(nqo, [[0]]), mk_circuit(nqs, [])
        p = run_hooked(QCircuit.append_circuit, selfc, other, list(range(nqub)))
        if p.kind != "raise" or selfc.gates:
            bad.append((nqo, nqs, nqub))
    if bad:
        return [res(name, REFUTED, backend="pyvc-opaque", replayed=True, replay=dict(accepted=bad, expected="an exception, self unchanged"))]
    return [res(name, PROVED, backend="pyvc-opaque", cases=4)]


def ob_add(a):
    nq, l1, l2 = a
    name = f"C14.add.post[{nq}q,{l1}+{l2} gates]"
    t0 = time.time()
    from qlasskit.qcircuit import QCircuit
    n = 0
    for w1 in wire_lists(nq, l1, 2 if l1 + l2 <= 2 else 1):
        for w2 in wire_lists(nq, l2, 2 if l1 + l2 <= 2 else 1):
          for naming in NAMINGS:
            A, B = mk_circuit(nq, w1), mk_circuit(nq, w2)
            apply_naming(A, B, nq, naming)
            sa, sb = snapshot(A), snapshot(B)
            p = run_hooked(QCircuit.__add__, A, B)
            n += 1
            ok = p.kind == "return"
            if ok:
                C = p.value
                exp = sa[0] + sb[0]
                ok = (listview(C.gates) == exp and snapshot(A) == sa and snapshot(B) == sb and C is not A and C is not B
                      and not (mutable_ids(C) & mutable_ids(A)) and C.num_qubits == nq)
                if ok and C.gates:
                    # mutation of the result must not show in the operands
                    C.gates[0][1].append(99)
                    C.gates.append("x")
                    ok = snapshot(A) == sa and snapshot(B) == sb
            if not ok:
                return [res(name, REFUTED, backend="pyvc-opaque", secs=time.time() - t0, replayed=True,
                            replay=dict(a=sa[0], b=sb[0], names_a=sa[2], names_b=sb[2], observed=listview(p.value.gates)[:8] if p.kind == "return" else f"raises {p.value!r}",
                                        a_after=listview(A.gates), b_after=listview(B.gates), call="QCircuit.__add__ on opaque gate tokens"))]
    return [res(name, PROVED, backend="pyvc-opaque", secs=time.time() - t0, cases=n)]


def ob_iadd(a):
    nq, l1, l2 = a
    name = f"C14.iadd.post[{nq}q,{l1}+={l2} gates]"
    from qlasskit.qcircuit import QCircuit
    for w1 in wire_lists(nq, l1, 1):
        for w2 in wire_lists(nq, l2, 2):
          for naming in NAMINGS:
            A, B = mk_circuit(nq, w1), mk_circuit(nq, w2)
            apply_naming(A, B, nq, naming)
            sa, sb = snapshot(A), snapshot(B)
            p = run_hooked(QCircuit.__iadd__, A, B)
            ok = p.kind == "return" and p.value is A and listview(A.gates) == sa[0] + sb[0] and snapshot(B) == sb and A.qubit_map == sa[2]
            if not ok:
                return [res(name, REFUTED, backend="pyvc-opaque", replayed=True,
                            replay=dict(a=sa[0], b=sb[0], names_a=sa[2], names_b=sb[2], observed=listview(A.gates), call="QCircuit.__iadd__ on opaque gate tokens"))]
    return [res(name, PROVED, backend="pyvc-opaque")]


def ob_repeat(a):
    nq, length, n = a
    name = f"C14.repeat.post[{nq}q,{length} gates,n={n}]"
    from qlasskit.qcircuit import QCircuit
    cases = 0
    for ws in wire_lists(nq, length, 2 if length <= 2 else 1):
        A = mk_circuit(nq, ws)
        A.qubit_map["extra"] = 0
        sa = snapshot(A)
        p = run_hooked(QCircuit.repeat, A, n)
        cases += 1
        ok = p.kind == "return"
        if ok:
            C = p.value
            ok = listview(C.gates) == sa[0] * n and snapshot(A) == sa and not (mutable_ids(C) & mutable_ids(A)) and C.num_qubits == nq
            if ok:
                # the n copies must not alias each other either: mutate the wires of the first gate
                ids = [id(w) for _, w, _ in C.gates]
                ok = len(set(ids)) == len(ids)
        if not ok:
            return [res(name, REFUTED, backend="pyvc-opaque", replayed=True,
                        replay=dict(gates=sa[0], n=n, observed=listview(p.value.gates) if p.kind == "return" else f"raises {p.value!r}",
                                    expected=f"the gate list {n} times, sharing no list with the operand or between copies", call="QCircuit.repeat on opaque gate tokens"))]
    return [res(name, PROVED, backend="pyvc-opaque", cases=cases)]


def ob_copy(a):
    nq, length, vanilla = a
    name = f"C14.copy.post[{nq}q,{length} gates,vanilla={vanilla}]"
    from qlasskit.qcircuit import QCircuit
    for ws, naming in itertools.product(list(wire_lists(nq, length, 2 if length <= 2 else 1)), ("two names for the top qubit", "top qubit unnamed", "no names at all")):
        A = mk_circuit(nq, ws)
        if naming == "two names for the top qubit":
            A.qubit_map["name"] = nq - 1
        elif naming == "top qubit unnamed":          # the number of qubits is num_qubits, not what the names happen to mention
            for k_ in [k_ for k_, v_ in A.qubit_map.items() if v_ == nq - 1]:
                del A.qubit_map[k_]
        else:
            A.qubit_map.clear()
        sa = snapshot(A)
        p = run_hooked(QCircuit.copy, A, vanilla)
        ok = p.kind == "return"
        if ok:
            C = p.value
            ok = (C is not A and listview(C.gates) == sa[0] and C.num_qubits == nq and snapshot(A) == sa and not (mutable_ids(C) & mutable_ids(A))
                  and (vanilla or C.qubit_map == sa[2]))
            if ok:
                C.gates.append("x")
                if C.gates and not isinstance(C.gates[0], str):
                    C.gates[0][1].append(7)
                C.qubit_map["zz"] = 0
                ok = snapshot(A) == sa
        if not ok:
            return [res(name, REFUTED, backend="pyvc-opaque", replayed=True,
                        replay=dict(gates=sa[0], observed=listview([t for t in p.value.gates if not isinstance(t, str)]) if p.kind == "return" else f"raises {p.value!r}",
                                    operand_after=listview(A.gates), call=f"QCircuit.copy(vanilla={vanilla}) on opaque gate tokens; result then mutated"))]
    return [res(name, PROVED, backend="pyvc-opaque")]


def ob_append(a):
    """append(gate, qubits, param): appends exactly one entry (gate, qubits, param) to gates (and to gates_computed unless the
    gate is a nop), rejects duplicate wires; real gate objects (append inspects n_qubits / nop-ness)."""
    name = "C14.append.post"
    from qlasskit.qcircuit import QCircuit, gates
    for G, ws in ((gates.X, [1]), (gates.CX, [2, 0]), (gates.CCX, [0, 2, 1]), (gates.Swap, [1, 2]), (gates.Barrier, [])):
        qc = QCircuit(3)
        g = G()
        qc.append(gates.H(), [0])
        before = list(qc.gates)
        qc.append(g, list(ws), "par")
        ok = qc.gates[:-1] == before and qc.gates[-1][0] is g and qc.gates[-1][1] == ws and qc.gates[-1][2] == "par" and \
            (len(qc.gates_computed) == (1 if isinstance(g, gates.NopGate) else 2))
        if not ok:
            return [res(name, REFUTED, backend="native", replayed=True, replay=dict(gate=G.__name__, wires=ws, observed=str(qc.gates)))]
    qc = QCircuit(3)
    try:
        qc.append(gates.CX(), [1, 1])
        return [res(name, REFUTED, backend="native", replayed=True, replay=dict(observed="duplicate wires accepted"))]
    except Exception:  # noqa
        pass
    return [res(name, PROVED, backend="native")]


def ob_iadd_tuple(a):
    """qc += (gate, qubits, param): exactly append(gate, qubits, param) - the entry (the SAME gate object, equal wires, the SAME parameter object)
    is added at the end of gates (and of gates_computed unless the gate is a nop), nothing else changes, the tuple is not modified.
    Real gate objects of every arity (append inspects nop-ness), opaque parameter token, every wire assignment over 3 qubits."""
    name = "C14.iadd.post[applied-gate tuple form]"
    from qlasskit.qcircuit import QCircuit, gates
    n = 0
    for G, ar in ((gates.X, 1), (gates.P, 1), (gates.CX, 2), (gates.CP, 2), (gates.Swap, 2), (gates.CCX, 3), (gates.Barrier, 0)):
        for ws in itertools.permutations(range(3), ar):
            for par in (Token("par"), None, 0.0):
                qc = mk_circuit(3, [[0], [1]])
                before, before_c = list(qc.gates), list(qc.gates_computed)
                g = G()
                wl = list(ws)
                tup = (g, wl, par)
                try:
                    p_ = run_hooked(QCircuit.__iadd__, qc, tup)
                except pyvc.Unsupported as ex:
                    return [res(name, UNDECIDED, backend="pyvc", detail=str(ex))]
                n += 1
                ok = p_.kind == "return" and p_.value is qc and len(qc.gates) == len(before) + 1 and all(x is y for x, y in zip(qc.gates, before))
                if ok:
                    e = qc.gates[-1]
                    ok = e[0] is g and list(e[1]) == list(ws) and e[2] is par and tup[0] is g and tup[1] == list(ws) and tup[2] is par
                    nop = isinstance(g, gates.NopGate)
                    ok = ok and (qc.gates_computed == before_c if nop else (qc.gates_computed[:-1] == before_c and qc.gates_computed[-1][0] is g
                                                                            and list(qc.gates_computed[-1][1]) == list(ws) and qc.gates_computed[-1][2] is par))
                if not ok:
                    return [res(name, REFUTED, backend="pyvc-opaque", replayed=True,
                                replay=dict(call=f"qc += ({G.__name__}(), {list(ws)}, {par!r})", observed_last_entry=repr(qc.gates[-1]) if p_.kind == "return" and qc.gates else f"raises {p_.value!r}",
                                            expected=f"({G.__name__}, {list(ws)}, {par!r}) appended to gates and gates_computed"))]
    return [res(name, PROVED, backend="pyvc-opaque", cases=n)]


SELF_INVERSE = {"X", "Y", "Z", "H", "CX", "CZ", "CCX", "MCX", "Swap"}


def _unitary(gs, nq):
    """numeric unitary of a list of REAL gates (for remove_identities); qubit 0 = least significant bit"""
    import numpy as np
    dim = 2 ** nq
    U = np.eye(dim, dtype=complex)
    one = {"X": [[0, 1], [1, 0]], "Y": [[0, -1j], [1j, 0]], "Z": [[1, 0], [0, -1]], "H": [[2 ** -0.5, 2 ** -0.5], [2 ** -0.5, -2 ** -0.5]],
           "S": [[1, 0], [0, 1j]], "T": [[1, 0], [0, complex(math.cos(math.pi / 4), math.sin(math.pi / 4))]], "I": [[1, 0], [0, 1]]}
    for g, ws, p in gs:
        k = type(g).__name__
        if k in ("Barrier", "NopGate"):
            continue
        M = np.zeros((dim, dim), dtype=complex)
        for b in range(dim):
            bits = [(b >> i) & 1 for i in range(nq)]
            if k in one:
                m = np.array(one[k], dtype=complex)
                for out in (0, 1):
                    nb = list(bits)
                    nb[ws[0]] = out
                    M[sum(x << i for i, x in enumerate(nb)), b] += m[out, bits[ws[0]]]
            elif k in ("CX", "CCX", "MCX"):
                nb = list(bits)
                if all(bits[w] for w in ws[:-1]):
                    nb[ws[-1]] ^= 1
                M[sum(x << i for i, x in enumerate(nb)), b] = 1
            elif k == "MCtrl" and type(g.gate).__name__ in one:
                m = np.array(one[type(g.gate).__name__], dtype=complex)
                if all(bits[w] for w in ws[:-1]):
                    for out in (0, 1):
                        nb = list(bits)
                        nb[ws[-1]] = out
                        M[sum(x << i for i, x in enumerate(nb)), b] += m[out, bits[ws[-1]]]
                else:
                    M[b, b] = 1
            elif k == "CZ":
                M[b, b] = -1 if bits[ws[0]] and bits[ws[1]] else 1
            elif k == "Swap":
                nb = list(bits)
                nb[ws[0]], nb[ws[1]] = nb[ws[1]], nb[ws[0]]
                M[sum(x << i for i, x in enumerate(nb)), b] = 1
            else:
                raise ValueError(k)
        U = M @ U
    return U


def ob_remove_identities(a):
    """all lists of <= L entries drawn from a pool of gate OBJECTS (so that the same object may occur several times - the only
    thing remove_identities matches on) over 2 qubits, incl. barriers and a non-self-inverse gate."""
    import numpy as np
    L, pool_kind = a
    name = f"C14.remove_identities.action-unchanged[<= {L} entries, pool {pool_kind}]"
    from qlasskit.qcircuit import gates
    from qlasskit.qcircuit.qcircuitenhanced import QCircuitEnhanced
    nq = 2
    fresh = pool_kind == "fresh objects"
    if pool_kind == "self-inverse":
        pool = [(gates.X(), [0]), (gates.CX(), [0, 1]), (gates.H(), [1]), (gates.Barrier(), [])]
    elif fresh:
        # every entry is a NEW gate object and a new wire list (as the public API builds them): gates that differ only in the ORDER of their wires
        # (control vs target) or in their kind must never cancel, whatever notion of "identical" remove_identities uses
        nq = 3
        pool = [(gates.X, [0]), (gates.CX, [0, 1]), (gates.CX, [1, 0]), (gates.CCX, [0, 1, 2]), (gates.CCX, [2, 1, 0]), (gates.CZ, [0, 1]), (gates.CZ, [1, 0]),
                (gates.Swap, [0, 1]), (gates.Swap, [1, 0]), (gates.H, [1]), (gates.T, [0]), (gates.Barrier, [])]
    else:
        pool = [(gates.T(), [0]), (gates.S(), [1]), (gates.X(), [0]), (gates.Barrier(), [])]
    n = 0
    t0 = time.time()
    for length in range(0, L + 1):
        for seq in itertools.product(range(len(pool)), repeat=length):
            qc = QCircuitEnhanced(nq)
            entries = {}
            for i in seq:
                if fresh:
                    qc.gates.append((pool[i][0](), list(pool[i][1]), None))
                    continue
                # the SAME applied-gate tuple object is appended for a repeated pool entry, as uncompute() does
                entries.setdefault(i, (pool[i][0], list(pool[i][1]), None))
                qc.gates.append(entries[i])
            before = list(qc.gates)
            U0 = _unitary(before, nq)
            n += 1
            try:
                qc.remove_identities()
                U1 = _unitary(qc.gates, nq)
                ok = np.allclose(U0, U1, atol=1e-9)
                obs = [f"{type(g).__name__}{w}" for g, w, _ in qc.gates]
            except Exception as ex:  # noqa
                ok, obs = False, f"raises {type(ex).__name__}: {ex}"
            if not ok:
                return [res(name, REFUTED, backend="native+numeric", secs=time.time() - t0, replayed=True, instance_key=pool_kind,
                            replay=dict(gates=[f"{type(g).__name__}{w}#obj{seq[j]}" for j, (g, w, _) in enumerate(before)], observed=obs,
                                        expected="same action, no exception", call="QCircuitEnhanced.remove_identities on a list where equal indices are the same tuple object"))]
    return [res(name, PROVED, backend="native+numeric", strength="bounded", secs=time.time() - t0, cases=n)]


def ob_qft(a):
    """iqft(wl) appends the reverse of what qft(wl) appends, gate by gate inverted, on any qubit list of length n"""
    n, = a
    name = f"C14.iqft.inverts-qft[{n} qubits]"
    from qlasskit.qcircuit import QCircuit
    cases = 0
    nq = n + 2
    wls = [list(range(n)), list(range(n))[::-1], [(i * 3 + 1) % nq for i in range(n)] if n <= nq else None]
    for wl in wls:
        if wl is None or len(set(wl)) != n:
            continue
        a_, b_ = QCircuit(nq), QCircuit(nq)
        a_.qft(list(wl))
        b_.iqft(list(wl))
        cases += 1
        fw = [(type(g).__name__, list(w), p) for g, w, p in a_.gates]
        bw = [(type(g).__name__, list(w), p) for g, w, p in b_.gates]
        inv = []
        for k, w, p in reversed(fw):
            if k in ("H", "Swap"):
                inv.append((k, w, p))
            elif k == "CP":
                inv.append((k, w, -p))
            else:
                inv.append(("?" + k, w, p))
        # the final swaps of qft act on disjoint wire pairs and commute: their block is compared as a set
        ns = n // 2
        canon = lambda blk: sorted((k, sorted(w), p) for k, w, p in blk)
        same = len(inv) == len(bw) and canon(inv[:ns]) == canon(bw[:ns]) and \
            all(x[0] == y[0] and x[2] == y[2] and (x[1] == y[1] or (x[0] == "CP" and sorted(x[1]) == sorted(y[1]))) for x, y in zip(inv[ns:], bw[ns:]))
        # structure of qft itself: H on wl[i], then CP(2pi/2^(j-i+1)) between wl[j] and wl[i], finally swaps wl[i] <-> wl[n-1-i]
        exp = []
        for i in range(n):
            exp.append(("H", [wl[i]], None))
            for j in range(i + 1, n):
                exp.append(("CP", sorted([wl[j], wl[i]]), 2 * math.pi / (2 ** (j - i + 1))))
        for i in range(n // 2):
            exp.append(("Swap", sorted([wl[i], wl[n - 1 - i]]), None))
        struct = [(k, sorted(w) if k != "H" else w, p) for k, w, p in fw] == exp
        if not (same and struct):
            return [res(name, REFUTED, backend="native", replayed=True,
                        replay=dict(qubit_list=wl, qft=fw, iqft=bw, expected_iqft=inv, qft_structure_ok=struct, call="QCircuit.qft / QCircuit.iqft"))]
    return [res(name, PROVED, backend="native", cases=cases)]


def ob_append_circuit_loop(a):
    """Loop-invariant cut of the two map loops of append_circuit (lifts the length bound for that method).
    INVARIANT  ogates = [(g, [qubits[w] for w in ws], p) for (g, ws, p) in other.gates[:i]]   (same for ogates_computed)
    STEP       from an ARBITRARY prefix (a sentinel the body cannot distinguish: checked syntactically - inside the loop the accumulator
               occurs only as the receiver of .append) one iteration with an opaque gate on wires ws appends exactly (g, [qubits[w] ...], p),
               leaves the prefix, other.gates, qubits and the element itself untouched
    INIT / EXIT empty accumulators; gates.extend(accumulator) - covered by the per-length obligations above."""
    import ast
    import inspect
    import textwrap
    from qlasskit.qcircuit import QCircuit
    which, = a
    acc = "ogates" if which == "gates" else "ogates_computed"
    name = f"C14.append_circuit.loop-step[{which}]"
    fn = QCircuit.append_circuit
    lines, start = inspect.getsourcelines(fn)
    tree = ast.parse(textwrap.dedent("".join(lines)))
    ast.increment_lineno(tree, start - 1)
    loops = [n for n in ast.walk(tree) if isinstance(n, ast.For) and isinstance(n.iter, ast.Attribute) and n.iter.attr == which
             and isinstance(n.iter.value, ast.Name) and n.iter.value.id == "other"]
    if len(loops) != 1:
        return [res(name, UNDECIDED, backend="pyvc", detail=f"{len(loops)} loops over other.{which} found: the invariant no longer matches the code")]
    loop = loops[0]
    # syntactic frame of the body: the accumulator only as receiver of .append; other / qubits / self not written
    bad = []
    for n in ast.walk(ast.Module(body=loop.body, type_ignores=[])):
        if isinstance(n, ast.Name) and n.id == acc:
            pass
    uses = [n for b in loop.body for n in ast.walk(b) if isinstance(n, ast.Name) and n.id == acc]
    appends = [n for b in loop.body for n in ast.walk(b) if isinstance(n, ast.Call) and isinstance(n.func, ast.Attribute) and n.func.attr == "append"
               and isinstance(n.func.value, ast.Name) and n.func.value.id == acc]
    if len(uses) != len(appends) or len(appends) != 1:
        return [res(name, UNDECIDED, backend="static", detail=f"inside the loop `{acc}` occurs {len(uses)} times, {len(appends)} of them as receiver of .append: prefix-independence not established")]
    n_cases = 0
    for nq in (1, 2, 3):
        for ar in range(0, min(nq, 3) + 1):
            for ws in itertools.permutations(range(nq), ar):
                for qubits in list(itertools.permutations(range(nq + 1), nq))[:8]:
                    other = mk_circuit(nq, [])
                    selfc = mk_circuit(nq + 1, [])
                    g, p = Token("g"), Token("p")
                    elem = (g, list(ws), p)
                    prefix = Token("PREFIX")
                    ql = list(qubits)
                    eng = pyvc.Engine()

                    def ctl(vc, iterable, fl):
                        fl[acc].append(prefix)          # havoc: "whatever was accumulated so far"

                        def gen():
                            yield elem
                            raise pyvc.LoopCut(list(fl[acc]))
                        return gen()
                    eng.loop_controllers[loop.lineno] = ctl
                    paths = eng.explore(lambda vc: (fn, [selfc, other, ql], {}))
                    n_cases += 1
                    ok = len(paths) == 1 and paths[0].kind == "loopcut"
                    if ok:
                        st = paths[0].value
                        ok = (len(st) == 2 and st[0] is prefix and isinstance(st[1], tuple) and len(st[1]) == 3 and st[1][0] is g and st[1][2] is p
                              and st[1][1] == [qubits[w] for w in ws] and st[1][1] is not elem[1] and elem[1] == list(ws) and ql == list(qubits)
                              and other.gates == [] and selfc.gates == [])
                    if not ok:
                        return [res(name, REFUTED, backend="pyvc-opaque", replayed=True,
                                    replay=dict(wires=list(ws), qubits=list(qubits), observed=str(paths[0].value if paths else None)[:300],
                                                expected="prefix ++ [(g, [qubits[w] for w in wires], p)]", call="one iteration of the loop of QCircuit.append_circuit from a havocked accumulator"))]
    return [res(name, PROVED, backend="pyvc-opaque+static", cases=n_cases)]


def ob_repeat_loop(a):
    """Loop-invariant cut of QCircuit.repeat(n): INVARIANT after i iterations n_qc.gates = self.gates x (i + 1), sharing no list with self or o.
    STEP: from an arbitrary accumulated circuit (a sentinel prefix in n_qc.gates / gates_computed) one iteration appends a FRESH copy of the
    operand's gates after the prefix and touches neither the prefix, nor `o`, nor `self`.  With INIT (n_qc = self.copy(), checked by the copy
    obligations) this gives repeat(n) for every n >= 1."""
    import ast
    import inspect
    import textwrap
    from qlasskit.qcircuit import QCircuit
    nq, length = a
    name = f"C14.repeat.loop-step[{nq}q,{length} gates]"
    fn = QCircuit.repeat
    lines, start = inspect.getsourcelines(fn)
    tree = ast.parse(textwrap.dedent("".join(lines)))
    ast.increment_lineno(tree, start - 1)
    loops = [n for n in ast.walk(tree) if isinstance(n, ast.For)]
    if len(loops) != 1:
        return [res(name, UNDECIDED, backend="pyvc", detail=f"{len(loops)} loops in repeat: the invariant no longer matches the code")]
    line = loops[0].lineno
    cases = 0
    for ws in wire_lists(nq, length, 2 if length <= 2 else 1):
        A = mk_circuit(nq, ws)
        sa = snapshot(A)
        prefix = (Token("PREFIX"), [], None)
        seen = {}
        eng = pyvc.Engine()

        def ctl(vc, iterable, fl):
            acc = fl["n_qc"]
            seen["o"] = fl["o"]
            seen["o_snap"] = snapshot(fl["o"])
            acc.gates[:] = [prefix]
            acc.gates_computed[:] = [prefix]

            def gen():
                yield 0
                raise pyvc.LoopCut(acc)
            return gen()
        eng.loop_controllers[line] = ctl
        paths = eng.explore(lambda vc: (fn, [A, 3], {}))
        cases += 1
        ok = len(paths) == 1 and paths[0].kind == "loopcut"
        if ok:
            acc = paths[0].value
            ok = (acc.gates[0] is prefix and listview(acc.gates[1:]) == sa[0] and listview(acc.gates_computed[1:]) == sa[0]
                  and snapshot(A) == sa and snapshot(seen["o"]) == seen["o_snap"]
                  and not ({id(w) for _, w, _ in acc.gates[1:]} & ({id(w) for _, w, _ in A.gates} | {id(w) for _, w, _ in seen["o"].gates}))
                  and not ({id(t) for t in acc.gates[1:]} & {id(t) for t in seen["o"].gates}))
        if not ok:
            return [res(name, REFUTED, backend="pyvc-opaque", replayed=True,
                        replay=dict(gates=sa[0], observed=str(listview(paths[0].value.gates[1:]) if paths and paths[0].kind == "loopcut" else paths[0].value)[:300],
                                    expected="prefix ++ a fresh copy of the operand's gates; operand and `o` untouched", call="one iteration of the loop of QCircuit.repeat from a havocked accumulator"))]
    return [res(name, PROVED, backend="pyvc-opaque", cases=cases)]


OBS = {"repeat_loop": ob_repeat_loop, "append_circuit_loop": ob_append_circuit_loop, "append_circuit": ob_append_circuit, "append_circuit_raises": ob_append_circuit_raises, "add": ob_add, "iadd": ob_iadd, "iadd_tuple": ob_iadd_tuple, "repeat": ob_repeat,
       "copy": ob_copy, "append": ob_append, "remove_identities": ob_remove_identities, "qft": ob_qft}


def _job(j):
    k, a = j
    t0 = time.time()
    try:
        rs = OBS[k](a)
    except pyvc.Unsupported as ex:
        return [res(f"C14.{k}[{a}]", UNDECIDED, backend="pyvc", detail=f"Unsupported: {ex}")]
    for r in rs:
        r.setdefault("strength", "proved-class")
        r["secs"] = round(time.time() - t0, 3)
    return rs


def run(tier, only=None):
    from qlasskit.qcircuit import QCircuit
    from qlasskit.qcircuit.qcircuitenhanced import QCircuitEnhanced
    rep = Report("C14", tier, "proof", f"./check C14 --tier {tier}")
    jobs = []
    L = 2 if tier == "quick" else 3
    for nqo in (1, 2):
        for length in range(0, L + 1):
            for nqs in (nqo, nqo + 1):
                jobs.append(("append_circuit", (nqo, length, nqs)))
    jobs.append(("append_circuit", (3, 1, 3)))
    jobs.append(("append_circuit_raises", None))
    for nq_, ln_ in ((2, 0), (2, 1), (2, 2), (3, 1), (3, 2)):
        jobs.append(("repeat_loop", (nq_, ln_)))
    jobs.append(("append_circuit_loop", ("gates",)))
    jobs.append(("append_circuit_loop", ("gates_computed",)))
    for nq in (2, 3):
        for l1 in range(0, 3):
            for l2 in range(0, 3):
                if nq == 3 and l1 + l2 > 3:
                    continue
                jobs.append(("add", (nq, l1, l2)))
    for l1 in (0, 1, 2):
        for l2 in (0, 1, 2):
            jobs.append(("iadd", (2, l1, l2)))
    for length in (0, 1, 2, 3):
        for n in (0, 1, 2, 3, 4):
            jobs.append(("repeat", (2, length, n)))
    for length in (0, 1, 2, 3):
        for v in (False, True):
            jobs.append(("copy", (2, length, v)))
            jobs.append(("copy", (3, min(length, 2), v)))
    jobs.append(("append", None))
    jobs.append(("iadd_tuple", None))
    for kind in ("self-inverse", "mixed"):
        jobs.append(("remove_identities", (5 if tier == "quick" else 6, kind)))
    jobs.append(("remove_identities", (3 if tier == "quick" else 4, "fresh objects")))
    for n in range(1, 9):
        jobs.append(("qft", (n,)))
    if only:
        jobs = [j for j in jobs if only in j[0]]
    seen, uniq = set(), []
    for j in jobs:
        if repr(j) not in seen:
            seen.add(repr(j))
            uniq.append(j)
    rep.add(run_pool(_job, uniq))
    rep.under_contract(QCircuit.append_circuit, QCircuit.__iadd__, QCircuit.__add__, QCircuit.repeat, QCircuit.copy, QCircuit.append,
                       QCircuit.qft, QCircuit.iqft, QCircuitEnhanced.remove_identities)
    rep.extra.update(shape_space=[dict(what="gate lists of length <= %d over <= 3 qubits with every wire assignment and every qubit remapping; gate objects and parameters opaque" % L,
                                       complete="per length; for append_circuit the length bound, and for repeat the bound on n, are lifted by loop-step obligations (invariant cuts); the gate-list length of repeat / __add__ / copy is not")],
                     lemma="act(gs ++ hs) = act(hs) o act(gs); (g1...gk)^-1 = gk^-1...g1^-1 - two lines of standard mathematics, not machine-checked")
    rep.trusted = ["CPython executing the instrumented source", "opacity guard: a token raises on every inspection, so a passing run cannot depend on gate content"]
    rep.assumptions = ["A8 standard meaning of gate names (only used for remove_identities' numeric action and for 'CP(-t) inverts CP(t)')",
                       "A3 numeric unitaries compared with tolerance 1e-9 (remove_identities only); qft angles compared as identical float expressions",
                       "length-bounded: lists of <= 2 (quick) / 3 (thorough) gates; remove_identities lists of <= 5/6 entries are a bounded family"]
    rep.explanation = "list-algebra contracts of the composition operators proved per length on opaque gates; remove_identities bounded-exhaustive; qft/iqft inverse structure for 1..8 qubits"
    for r in rep.results[:5]:
        rep.samples.append({k: r.get(k) for k in ("name", "status", "backend", "cases")})
    return rep


def replay(path):
    import sys
    from ..common import generic_replay
    return generic_replay(sys.modules[__name__], path)
