"""C02 / C03 / C06 - contracts on InternalCompiler.compile (compiler/internalcompiler.py) with ghost state =
the truth table of every qubit over ALL classical inputs (csim), evaluated on bounded instance families.

  ensures[C02] every return bit is mapped to a qubit, and for all x: csim(gates, x||0)[qubit_map[r]] = den(r)(x),
               with and without final uncomputation
  ensures[C03] (uncompute) for all x: qubit i (i < n_inputs) holds x_i; every qubit that is not an output holds 0
  ensures[C06] (single bool return) for all x and y in {0,1}: inputs unchanged, output = y xor f(x), scratch 0

Bounded stand-in (the synthesiser recurses over arbitrary formula trees with aliasing between expqmap, the
ancilla sets and the gate list): never counted as proved.  Internal contracts (compile_or arity, expqmap
truthfulness) are diagnostic and only NAME the responsible function when a postcondition fails."""
import hashlib
import itertools
import random
import time

from .. import bounded, common, spec
from ..common import PROVED, REFUTED, UNDECIDED, Report, res, run_pool

PROP_TEXT = {"C02": "circuit computes the expressions", "C03": "clean circuits", "C06": "xor-oracles"}


def key(src):
    return hashlib.sha1(src.encode()).hexdigest()[:10]


# ---- instance families ----------------------------------------------------------------------------

def formula_family(tier, seed):
    """definition lists handed DIRECTLY to InternalCompiler.compile: optimizer-output form (And / 2-ary Or /
    Not / Xor over symbols), shared and re-used intermediates, __temp names, multi-bit / aliased / constant
    returns.  Returned as python source of a builder (so that instances are picklable and printable)."""
    r = random.Random(seed * 31 + 7)
    out = []

    def ex(vs, d):
        if d == 0 or r.random() < 0.3:
            v = r.choice(vs)
            return v if r.random() < 0.75 else f"Not({v})"
        k = r.random()
        if k < 0.3:
            return f"And({', '.join(ex(vs, d - 1) for _ in range(r.choice((2, 2, 3))))})"
        if k < 0.5:
            return f"Or({ex(vs, d - 1)}, {ex(vs, d - 1)})"
        if k < 0.8:
            return f"Xor({', '.join(ex(vs, d - 1) for _ in range(r.choice((2, 2, 3))))})"
        return f"Not({ex(vs, d - 1)})"
    n = 150 if tier == "quick" else 3000
    for i in range(n):
        nv = r.choice((2, 3, 3, 4, 5))
        vs = list("abcde"[:nv])
        defs, avail = [], list(vs)
        for j in range(r.choice((0, 0, 1, 2))):
            nm = r.choice((f"t{j}", f"x{j}"))
            defs.append((nm, ex(avail, r.choice((1, 2)))))
            avail.append(nm)
        nret = r.choice((1, 1, 1, 2, 3))
        rets = []
        for k in range(nret):
            kind = r.random()
            if kind < 0.08:
                e = r.choice(vs)                      # return aliases an input
            elif kind < 0.14 and len(avail) > nv:
                e = avail[-1]                         # return aliases an intermediate
            elif kind < 0.18:
                e = r.choice(("true", "false"))
            else:
                e = ex(avail, r.choice((1, 2, 3)))
            rets.append(e)
        rn = ["_ret"] if nret == 1 else [f"_ret.{k}" for k in range(nret)]
        out.append(dict(vars=vs, defs=defs + list(zip(rn, rets)), rets=rn))
    # targeted shapes
    out += [
        dict(vars=["a", "b"], defs=[("_ret", "And(Xor(a, b), Not(Xor(a, b)))")], rets=["_ret"]),
        dict(vars=["a", "b", "c"], defs=[("x0", "And(a, Not(c))"), ("_ret", "Xor(x0, b)")], rets=["_ret"]),
        dict(vars=["a", "b"], defs=[("_ret.0", "a"), ("_ret.1", "a")], rets=["_ret.0", "_ret.1"]),
        dict(vars=["a", "b"], defs=[("_ret.0", "And(a, b)"), ("_ret.1", "And(a, b)")], rets=["_ret.0", "_ret.1"]),
        dict(vars=["a"], defs=[("_ret", "Not(a)")], rets=["_ret"]),
        dict(vars=["a"], defs=[("_ret", "true")], rets=["_ret"]),
        dict(vars=["a", "b"], defs=[("a", "Not(a)"), ("_ret", "And(a, b)")], rets=["_ret"]),
    ]
    return out


def build_formula(inst):
    import sympy
    from sympy import Symbol
    from sympy.logic import And, Not, Or, Xor, false, true
    from qlasskit.ast2logic.typing import Arg
    ns = dict(And=And, Or=Or, Not=Not, Xor=Xor, true=true, false=false)
    for v in inst["vars"]:
        ns[v] = Symbol(v)
    exprs = []
    for nm, e in inst["defs"]:
        ns_e = dict(ns)
        val = eval(e, {}, ns_e)
        if val is True:
            val = true
        if val is False:
            val = false
        exprs.append((Symbol(nm), val))
        if nm.isidentifier():
            ns[nm] = Symbol(nm)
    args = [Arg(v, bool, [v]) for v in inst["vars"]]
    rets = Arg("_ret", bool if len(inst["rets"]) == 1 else tuple, list(inst["rets"]))
    return args, rets, exprs


# ---- the contract evaluation on one compiled circuit ------------------------------------------------

def check_circuit(qc, in_names, ret_names, ret_tables, mask, uncompute, want):
    """-> list of (prop, clause, ok, detail)"""
    n = len(in_names)
    nq = qc.num_qubits
    out = []
    try:
        st, m = spec.csim_tables(qc.gates, nq, n)
    except ValueError as ex:
        return [("C02", "classical-gates-only", False, str(ex))]
    ins, _ = spec.input_tables(in_names)
    unmapped = [r for r in ret_names if r not in qc.qubit_map]
    if "C02" in want:
        if unmapped:
            out.append(("C02", "ret-mapped", False, f"return bits {unmapped} are not in qubit_map"))
        else:
            bad = None
            for r, t in zip(ret_names, ret_tables):
                q = qc.qubit_map[r]
                if q >= nq:
                    bad = (r, f"qubit {q} out of range")
                    break
                d = st[q] ^ t
                if d:
                    row = spec.first_row(d)
                    bad = (r, dict(input_bits=dict(zip(in_names, bounded.row_bits(row, n))), qubit=q,
                                   observed=(st[q] >> row) & 1, expected=(t >> row) & 1))
                    break
            out.append(("C02", "value", bad is None, bad))
    outs = {qc.qubit_map[r] for r in ret_names if r in qc.qubit_map}
    if "C03" in want and uncompute:
        bad = None
        for i, nm in enumerate(in_names):
            if i in outs:
                continue     # an output that aliases an input qubit is judged by C02
            d = st[i] ^ ins[nm]
            if d:
                row = spec.first_row(d)
                bad = dict(kind="input-changed", qubit=i, name=nm, input_bits=dict(zip(in_names, bounded.row_bits(row, n))))
                break
        if bad is None:
            for q in range(n, nq):
                if q in outs:
                    continue
                if st[q]:
                    row = spec.first_row(st[q])
                    bad = dict(kind="scratch-not-zero", qubit=q, input_bits=dict(zip(in_names, bounded.row_bits(row, n))))
                    break
        out.append(("C03", "clean", bad is None, bad))
    if "C06" in want and uncompute and len(ret_names) == 1 and not unmapped:
        q = qc.qubit_map[ret_names[0]]
        bad = None
        if q < n:
            bad = dict(kind="output-is-an-input-qubit", qubit=q)
        else:
            for y in (0, 1):
                st0 = [ins[nm] for nm in in_names] + [0] * (nq - n)
                if y:
                    st0[q] = mask
                fin = spec.csim_apply(qc.gates, st0, mask)
                for i, nm in enumerate(in_names):
                    if fin[i] ^ ins[nm]:
                        bad = dict(kind="input-changed", y=y, qubit=i, input_bits=dict(zip(in_names, bounded.row_bits(spec.first_row(fin[i] ^ ins[nm]), n))))
                        break
                if bad:
                    break
                want_out = ret_tables[0] ^ (mask if y else 0)
                if fin[q] ^ want_out:
                    row = spec.first_row(fin[q] ^ want_out)
                    bad = dict(kind="output-not-y-xor-f", y=y, input_bits=dict(zip(in_names, bounded.row_bits(row, n))),
                               observed=(fin[q] >> row) & 1, expected=(want_out >> row) & 1)
                    break
                for s in range(n, nq):
                    if s != q and fin[s]:
                        bad = dict(kind="scratch-not-zero", y=y, qubit=s, input_bits=dict(zip(in_names, bounded.row_bits(spec.first_row(fin[s]), n))))
                        break
                if bad:
                    break
        out.append(("C06", "xor-oracle", bad is None, bad))
    return out


class CompileMonitor:
    """Diagnostic (blame) contracts of the synthesiser, installed from outside for one compilation, with ghost
    state = the truth table of every qubit (the gate list so far simulated on all inputs):

      compile_or(qc, e, dest)            requires len(e.args) <= 2   (its own TODO)
      compile_expr(qc, e, dest, sym)     ensures  dest is None  ->  the returned qubit holds den(e)
                                                  dest given    ->  returns dest, and dest' = old(dest) xor den(e)
                                         where den(e) reads every symbol from the qubit it is mapped to at entry

    They are NOT deciding: they only name the first function whose contract broke on an instance whose
    property-level postcondition fails."""

    def __init__(self, in_names):
        self.breaches = []
        self.in_names = list(in_names)
        self.depth = 0

    def tables(self, qc):
        st, mask = spec.csim_tables(qc.gates, qc.num_qubits, len(self.in_names))
        return st, mask

    def check_expqmap(self, qc):
        """representation invariant (diagnostic): every (e -> q) in expqmap has qubit q holding den(e), symbols read
        from the qubits they are mapped to NOW.  Checked at statement boundaries."""
        comp = getattr(self, "compiler", None)
        if comp is None:
            return
        try:
            st, mask = self.tables(qc)
            for e, q in list(comp.expqmap.exp_map.items()):
                symtabs = {x.name: st[qc.qubit_map[x.name]] for x in getattr(e, "free_symbols", ()) if x.name in qc.qubit_map}
                if getattr(e, "is_Symbol", False):
                    continue
                if q < len(st) and spec.sympy_table(e, None, symtabs, mask) != st[q]:
                    self.breaches.append(f"expqmap.invariant.entry-holds-denotation[{type(e).__name__}]")
                    return
        except Exception:  # noqa
            pass

    def __enter__(self):
        from qlasskit.compiler.internalcompiler import InternalCompiler
        from sympy import Symbol
        self._ic = InternalCompiler
        self._or = InternalCompiler.compile_or
        self._ce = InternalCompiler.compile_expr
        mon = self

        def c_or(self_, qc, expr, *a, **k):
            if len(expr.args) > 2:
                mon.breaches.append(f"compile_or.pre.arity<=2[{len(expr.args)} arguments]")
            return mon._or(self_, qc, expr, *a, **k)

        def c_expr(self_, qc, expr, *a, **k):
            # the wrappers pass every argument through unchanged (the signatures may evolve); `dest` is read if present
            dest = k.get("dest", a[0] if a else None)
            mon.compiler = self_
            try:
                s0, mask = mon.tables(qc)
                cached = (not isinstance(expr, Symbol)) and expr in self_.expqmap
                symtabs = {}
                for x in getattr(expr, "free_symbols", ()):
                    if x.name in qc.qubit_map and qc.qubit_map[x.name] < len(s0):
                        symtabs[x.name] = s0[qc.qubit_map[x.name]]
                want = spec.sympy_table(expr, None, symtabs, mask)
                old_dest = s0[dest] if dest is not None and dest < len(s0) else (0 if dest is not None else None)
            except Exception:  # noqa - quantum gates, unmapped symbols: no contract
                want = None
            ret = mon._ce(self_, qc, expr, *a, **k)
            if want is not None:
                try:
                    s1, mask = mon.tables(qc)
                    kind = type(expr).__name__ + (",cached" if cached else "")
                    if dest is not None and ret != dest:
                        mon.breaches.append(f"compile_expr.post.returns-dest[{kind}]")
                    elif dest is not None:
                        if s1[ret] != old_dest ^ want:
                            mon.breaches.append(f"compile_expr.post.accumulates-into-dest[{kind}]")
                    elif s1[ret] != want:
                        mon.breaches.append(f"compile_expr.post.value[{kind}]")
                except Exception:  # noqa
                    pass
            return ret
        InternalCompiler.compile_or = c_or
        InternalCompiler.compile_expr = c_expr
        # QCircuitEnhanced: uncompute() only touches the qubits it returns and leaves them at 0;
        # remove_identities() does not change the action; uncompute_all(keep) leaves keep untouched
        from qlasskit.qcircuit.qcircuitenhanced import QCircuitEnhanced
        self._qe = QCircuitEnhanced
        self._unc, self._rid, self._ua = QCircuitEnhanced.uncompute, QCircuitEnhanced.remove_identities, QCircuitEnhanced.uncompute_all

        def unc(qc, *a, **k):
            mon.check_expqmap(qc)
            try:
                s0, _ = mon.tables(qc)
            except Exception:  # noqa
                s0 = None
            ret = mon._unc(qc, *a, **k)
            if s0 is not None:
                try:
                    s1, _ = mon.tables(qc)
                    changed = {q for q in range(len(s0)) if s0[q] != s1[q]}
                    if not changed <= set(ret):
                        mon.breaches.append("uncompute.frame.only-returned-qubits-change")
                    elif any(s1[q] != 0 for q in ret):
                        mon.breaches.append("uncompute.post.returned-qubits-are-zero")
                except Exception:  # noqa
                    pass
            return ret

        def rid(qc, *a, **k):
            try:
                s0, _ = mon.tables(qc)
            except Exception:  # noqa
                s0 = None
            ret = mon._rid(qc, *a, **k)
            if s0 is not None:
                try:
                    s1, _ = mon.tables(qc)
                    if s0 != s1:
                        mon.breaches.append("remove_identities.post.action-unchanged")
                except Exception:  # noqa
                    pass
            return ret

        def ua(qc, *a, **k):
            keep = k.get("keep", a[0] if a else [])
            try:
                s0, _ = mon.tables(qc)
            except Exception:  # noqa
                s0 = None
            ret = mon._ua(qc, *a, **k)
            if s0 is not None:
                try:
                    s1, _ = mon.tables(qc)
                    if any(s0[q] != s1[q] for q in keep if isinstance(q, int) and q < len(s0)):
                        mon.breaches.append("uncompute_all.frame.keep-untouched")
                except Exception:  # noqa
                    pass
            return ret
        QCircuitEnhanced.uncompute, QCircuitEnhanced.remove_identities, QCircuitEnhanced.uncompute_all = unc, rid, ua
        return self

    def __exit__(self, *a):
        self._ic.compile_or = self._or
        self._ic.compile_expr = self._ce
        self._qe.uncompute, self._qe.remove_identities, self._qe.uncompute_all = self._unc, self._rid, self._ua
        return False


def job(a):
    try:
        with bounded.time_budget(bounded.INSTANCE_BUDGET_S):
            return _job(a)
    except bounded.Budget:
        return []       # instance exceeded its time budget: skipped, not a verdict


def _job(a):
    kind, inst, profile, prop = a
    t0 = time.time()
    want = {"C02", "C03", "C06"} if prop == "ALL" else {prop}
    results = []
    if kind == "program":
        origin, src = inst
        ikey = src
        label = f"{profile},{origin},{key(src)}"
        if "Q." in src or "Parameter[" in src:
            return []
        try:
            qf0 = bounded.front_end(src, profile)
            et = bounded.expr_tables(qf0, 12)
        except Exception:  # rejected programs are C01's business
            return []
        if et is None or not hasattr(qf0, "expressions"):
            return []
        names, tabs, mask = et
        rets = list(qf0.returns.bitvec)
        if any(tabs.get(r) is None for r in rets):
            return []       # undefined return bits: a front-end defect (C01/C05), not the compiler's
        rtabs = [tabs[r] for r in rets]
        args, returns, exprs, nm = qf0.args, qf0.returns, qf0.expressions, qf0.name
        desc = dict(program=src, profile=profile)
    else:
        ikey = repr(inst)
        label = f"formula,{key(ikey)}"
        args, returns, exprs = build_formula(inst)
        from sympy.logic.boolalg import Or
        from sympy import preorder_traversal
        if inst.get("pre", True) and any(isinstance(n, Or) and len(n.args) > 2 for _, e in exprs for n in preorder_traversal(e)):
            return []      # violates the precondition of compile (no Or of more than two arguments): not an instance
        names = list(inst["vars"])
        tabs, mask = spec.input_tables(names)
        for s, e in exprs:
            tabs[s.name] = spec.sympy_table(e, names, tabs, mask)
        rets = list(inst["rets"])
        rtabs = [tabs[r] for r in rets]
        nm = "f"
        desc = dict(definitions=[f"{s} = {e}" for s, e in exprs], returns=rets)
    from qlasskit.compiler import to_quantum
    for unc in (True, False):
        mon = CompileMonitor(names)
        base = dict(strength="bounded", backend="truth-table", instance_key=ikey, uncompute=unc, **desc)
        try:
            with mon:
                qc = to_quantum(name=nm, args=args, returns=returns, exprs=exprs, compiler="internal", uncompute=unc)
        except Exception as ex:  # noqa
            for p in sorted(want & {"C02"}):
                r = res(f"{p}.compile.no-exception[{label},uncompute={unc}]", REFUTED, secs=time.time() - t0, replayed=True,
                        replay=dict(observed=f"compile raises {type(ex).__name__}: {ex}"[:300], **desc), **dict(base, strength="diagnostic"))
                r["prop"] = p
                if mon.breaches:
                    r["blame"] = mon.breaches[0]
                results.append(r)
            continue
        for p, clause, ok, detail in check_circuit(qc, names, rets, rtabs, mask, unc, want):
            name = f"{p}.compile.post.{clause}[{label},uncompute={unc}]"
            nontrivial = qc.num_gates > 0
            if ok:
                r = res(name, PROVED, secs=time.time() - t0, nontrivial=nontrivial, gates=qc.num_gates, qubits=qc.num_qubits, **base)
            else:
                r = res(name, REFUTED, secs=time.time() - t0, replayed=True, gates=qc.num_gates, qubits=qc.num_qubits,
                        replay=dict(failure=detail, gate_list=[f"{g.name}{w}" for g, w, _ in qc.gates][:80], qubit_map=dict(qc.qubit_map),
                                    call="to_quantum(compiler='internal', uncompute=%s) simulated gate by gate on every basis input" % unc, **desc), **base)
                if mon.breaches:
                    r["blame"] = mon.breaches[0]
                    r["internal_contract_breaches"] = mon.breaches[:5]
            r["prop"] = p
            results.append(r)
    return results


API_PROGRAMS = [
    "def p(a: bool, b: bool, c: bool) -> bool:\n\treturn (a or b) ^ ((a or b) and c)",
    "def p(a: bool, b: bool, c: bool, d: bool) -> bool:\n\treturn ((a or d or b) and (a ^ d)) or ((c and b) and (a == c))",
    "def p(a: Qint[2], b: Qint[2]) -> Qint[2]:\n\treturn a + b",
    "def p(a: Qint[2], b: Qint[2]) -> bool:\n\treturn a > b",
    "def p(a: Qint[4]) -> bool:\n\treturn a == 3 or a == 7",
    "def p(a: bool, b: bool) -> Tuple[bool, bool]:\n\tc = a and b\n\treturn (c, c ^ a)",
]


def job_api(a):
    """the wrapper between the user and the verified function: QlassF.compile(compiler, uncompute) must store exactly the circuit
    to_quantum builds from the function's own fields for THOSE settings - whatever the function was compiled with before (so that the
    obligations on to_quantum carry over to every way of getting a compiled function)"""
    idx, prof, first, second, prop = a
    from qlasskit.compiler import to_quantum
    src = API_PROGRAMS[idx]
    name = f"{prop}.QlassF.compile.is-to_quantum-on-own-fields[{prof},{hashlib.sha1(src.encode()).hexdigest()[:8]},built uncompute={first},then compile(uncompute={second})]"
    base = dict(strength="bounded", backend="structural", program=src)

    def view(qc):
        return ([(type(g).__name__, list(w), p_) for g, w, p_ in qc.gates], dict(qc.qubit_map), qc.num_qubits)
    try:
        qf = bounded.front_end(src, prof, compile_=first is not None, uncompute=bool(first))
        qf.compile(uncompute=second)
        got = view(qf.circuit())
        want = view(to_quantum(name=qf.name, args=qf.args, returns=qf.returns, exprs=qf.expressions, compiler="internal", uncompute=second))
    except Exception as ex:  # noqa
        return [res(name, REFUTED, replayed=True, replay=dict(program=src, observed=f"raises {type(ex).__name__}: {ex}"[:200]), **base)]
    if got != want:
        return [res(name, REFUTED, replayed=True, replay=dict(program=src, call=f"qlassf(program, uncompute={first}); qf.compile(uncompute={second}); qf.circuit()",
                                                               observed=dict(gates=str(got[0])[:600], qubits=got[2]), expected=dict(gates=str(want[0])[:600], qubits=want[2])), **base)]
    return [res(name, PROVED, nontrivial=True, **base)]


def all_jobs(tier, prop):
    from .c01_l3 import family
    js = []
    for origin, src in family(tier, seed=0):
        if origin == "outside":
            continue
        for profile in ("default", "fast"):
            js.append(("program", (origin, src), profile, prop))
    for inst in formula_family(tier, 0):       # deterministic family: findings are keyed by blame class / instance text
        js.append(("formula", inst, "-", prop))
    return js


def run_for(prop, tier, only=None):
    from qlasskit.compiler import to_quantum
    from qlasskit.compiler.internalcompiler import InternalCompiler
    from qlasskit.qcircuit.qcircuitenhanced import QCircuitEnhanced
    rep = Report(prop, tier, "exploration", f"./check {prop} --tier {tier}")
    rs = run_pool(job, all_jobs(tier, prop), chunksize=2)
    rs = [r for r in rs if r.get("prop", prop) == prop or r["status"] == common.ENGINE]
    rs += run_pool(job_api, [(i, prof, f, s_, prop) for i in range(len(API_PROGRAMS)) for prof in ("default", "fast")
                             for f, s_ in ((False, True), (True, False), (True, True), (None, True), (None, False))], chunksize=4)
    if prop == "C02":
        # local layer: step contracts of the node compilers, discharged for all qubit values (modular over the contract of compile_expr)
        from . import c02_local
        rs += run_pool(c02_local.job, c02_local.jobs(tier), chunksize=8)
    rep.add(rs)
    deciding = [r for r in rs if r.get("strength") == "bounded"]
    floor = {"C02": 600, "C03": 300, "C06": 150}[prop]
    if len(deciding) < floor:
        rep.add([res(f"{prop}.vacuity.instances-evaluated", common.ENGINE, backend="python",
                     detail=f"only {len(deciding)} instances reached the postcondition (at least {floor} expected): the run decides nothing - e.g. every compilation raised")])
    rep.under_contract(InternalCompiler.compile, InternalCompiler.compile_expr, InternalCompiler.compile_and, InternalCompiler.compile_or,
                       InternalCompiler.compile_not, InternalCompiler.compile_xor, InternalCompiler.compile_symbol, to_quantum,
                       QCircuitEnhanced.uncompute, QCircuitEnhanced.uncompute_all, QCircuitEnhanced.remove_identities, QCircuitEnhanced.get_free_ancilla)
    rep.rule = ("one evaluation = one (instance, uncompute setting) compiled by the real compiler and simulated on ALL 2^n basis inputs by bit-parallel truth tables; "
                "distinct = distinct program/definition-list text; non-trivial = the compiled circuit has at least one gate")
    rep.extra.update(bounded=dict(families=["front-end output for the C01-L3 program family, both optimizer profiles",
                                            "generated definition lists in optimizer-output form (<= 5 variables, depth <= 3, <= 2 intermediates, 1-3 return bits, aliased/constant returns) handed directly to to_quantum"],
                                  bound="<= 12 input bits", all_values=True))
    rep.assumptions = ["A8 standard meaning of X/CX/CCX/MCX is the semantics of a gate list (the repository never defines it)",
                       "the oracle is the denotation of the expressions the same run reports (C02 is relative to the expressions; their meaning is C01's business)",
                       "bounded: program / formula families are truncated enumerations; of C02 only the LOCAL step contracts of the node compilers (compile_and/or/not/xor, "
                       "the leaves and the dispatcher; operands' result qubits pairwise distinct and different from dest, free ancillas hold 0, Or of <= 2 operands) are counted as proved - "
                       "they assume the contract of compile_expr on the operands, which compile_not itself breaks in one case (recorded finding): the composition of the steps is NOT a proof of the compiler"]
    for r in rs[:3]:
        rep.samples.append({k: r.get(k) for k in ("name", "status", "gates", "qubits", "program", "definitions")})
    return rep


def run(tier, only=None):
    return run_for("C02", tier, only)


def replay(path):
    """re-compile exactly the recorded instance with the recorded settings on the current tree and re-evaluate the postcondition"""
    import json
    d = json.load(open(path))
    print(json.dumps({k: d.get(k) for k in ("obligation", "program", "definitions", "profile", "uncompute", "blame", "replay")}, indent=1, default=str)[:3000])
    prop = d["obligation"].split(".")[0]
    rs = []
    if d.get("program"):
        origin = d["obligation"].split("[")[1].split(",")[1]
        rs = job(("program", (origin, d["program"]), d.get("profile", "default"), prop))
    else:
        for inst in formula_family(d.get("tier", "quick"), 0):
            if f"formula,{key(repr(inst))}" in d["obligation"]:
                rs = job(("formula", inst, "-", prop))
    bad = [r for r in rs if r["name"] == d["obligation"] and r["status"] == REFUTED]
    if bad:
        print("REPRODUCED", bad[0]["name"], json.dumps(bad[0]["replay"].get("failure"), default=str))
        return 1
    print("NOT-REPRODUCED" if any(r["name"] == d["obligation"] for r in rs) else "NOT-FOUND")
    return 0 if any(r["name"] == d["obligation"] for r in rs) else 2
