"""C11 - decompiled expressions describe exactly what the gates do.

Contracts on decompiler/decompiler.py:
  Decompiler.decompile(qc)  ensures the sections are exactly the maximal runs of classical gates (X, CX, CCX, MCX; barriers / nops
                            neither start, end nor split a run), in order; qc.gates[index[0]:index[1]] contains all gates of the
                            section, nothing but them and nops, and starts at its first gate; section.gates are those gates in
                            order; qc is not modified
  __exps_of_section         ensures for every qubit q and every entry state s: (q -> e) reported  =>  den(e)(s) = csim(section, s)[q];
                            no entry for q  =>  csim(section, s)[q] = s[q]
Decided on ALL gate sequences up to a length over few qubits (bounded), each for ALL entry states (truth tables); the sectioning
state machine depends only on the KIND of each gate and is checked on all kind-words up to a length."""
import itertools
import time

from .. import bounded, common, spec
from ..common import PROVED, REFUTED, Report, res, run_pool

CLASSICAL = ("X", "CX", "CCX", "MCX")


def mk_gate(kind, nctl=None):
    from qlasskit.qcircuit import gates
    if kind == "MCX":
        return gates.MCX(nctl)
    return getattr(gates, kind)()


def build(nq, seq):
    """seq: list of (kind, wires)"""
    from qlasskit.qcircuit import QCircuit, gates
    qc = QCircuit(nq)
    for kind, ws in seq:
        if kind == "barrier":
            qc.barrier()
        elif kind == "MCX":
            qc.append(gates.MCX(len(ws) - 1), list(ws))
        else:
            qc.append(getattr(gates, kind)(), list(ws))
    return qc


def expected_sections(kinds):
    """maximal runs of classical gates; nops do not break a run; -> [(first, last+1, [positions of classical gates])]"""
    secs, cur = [], []
    for i, k in enumerate(kinds):
        if k in CLASSICAL:
            cur.append(i)
        elif k == "barrier":
            continue
        else:
            if cur:
                secs.append(cur)
            cur = []
    if cur:
        secs.append(cur)
    return secs


def check_circuit(nq, seq):
    """-> None or failure dict"""
    from qlasskit.decompiler import Decompiler
    qc = build(nq, seq)
    before = [(type(g).__name__, list(w), p) for g, w, p in qc.gates]
    ids_before = [id(t) for t in qc.gates]
    try:
        dc = Decompiler().decompile(qc)
    except Exception as ex:  # noqa
        return dict(observed=f"decompile raises {type(ex).__name__}: {ex}"[:200])
    after = [(type(g).__name__, list(w), p) for g, w, p in qc.gates]
    if after != before or [id(t) for t in qc.gates] != ids_before:
        return dict(observed="decompile modified its argument", before=before, after=after)
    kinds = [k for k, _ in seq]
    exp = expected_sections(kinds)
    if len(dc) != len(exp):
        return dict(observed=f"{len(dc)} sections reported: {[s.index for s in dc]}", expected=f"{len(exp)} maximal classical runs at positions {exp}")
    names = [f"q{i}" for i in range(nq)]
    tabs, mask = spec.input_tables(names)
    for sec, pos in zip(dc, exp):
        i0, i1 = sec.index
        sl = list(range(i0, i1))
        non_nop = [i for i in sl if kinds[i] != "barrier"]
        # "covers exactly those gates": from the first classical gate of the run to just after its last one (barriers INSIDE the run are ignored;
        # a barrier before the first or after the last gate is not one of "those gates")
        if non_nop != pos or (sl and (sl[0] != pos[0] or sl[-1] != pos[-1])) or not (0 <= i0 <= i1 <= len(seq)):
            return dict(observed=f"section index {sec.index} covers gate positions {non_nop}" + (f" and ends after position {sl[-1]}" if sl else ""),
                        expected=f"exactly the gates at {pos}: range ({pos[0]}, {pos[-1] + 1})")
        sg = [(type(g).__name__, list(w)) for g, w, p in sec.gates]
        if sg != [(seq[i][0], list(seq[i][1])) for i in pos]:
            return dict(observed=f"section.gates = {sg}", expected=[(seq[i][0], list(seq[i][1])) for i in pos])
        # expressions vs the action of the section on every entry state
        st0 = [tabs[n] for n in names]
        real = [(mk_gate(seq[i][0], len(seq[i][1]) - 1), list(seq[i][1]), None) for i in pos]
        fin = spec.csim_apply(real, st0, mask)
        reported = {}
        for s, e in sec.expressions:
            if s.name in reported:
                return dict(observed=f"two expressions for {s.name}")
            reported[s.name] = e
        for q, nm in enumerate(names):
            if nm in reported:
                try:
                    t = spec.sympy_table(reported[nm], None, tabs, mask)
                except Exception as ex:  # noqa
                    return dict(observed=f"expression of {nm} = {reported[nm]} cannot be evaluated over the entry values: {ex}")
                if t != fin[q]:
                    row = spec.first_row(t ^ fin[q])
                    return dict(section=sec.index, qubit=nm, expression=str(reported[nm]), entry_state=dict(zip(names, bounded.row_bits(row, nq))),
                                observed=(t >> row) & 1, expected=(fin[q] >> row) & 1)
            elif fin[q] != st0[q]:
                row = spec.first_row(fin[q] ^ st0[q])
                return dict(section=sec.index, qubit=nm, observed="no expression reported, but the section changes this qubit",
                            entry_state=dict(zip(names, bounded.row_bits(row, nq))))
        for nm in reported:
            if nm not in names:
                return dict(observed=f"expression for unknown qubit {nm}")
    return None


def gate_choices(nq):
    out = [("X", (q,)) for q in range(nq)]
    out += [("CX", p) for p in itertools.permutations(range(nq), 2)]
    out += [("CCX", p) for p in itertools.permutations(range(nq), 3)]
    if nq >= 3:
        out += [("MCX", p) for p in itertools.permutations(range(nq), 3)][:6]
    if nq >= 4:
        out += [("MCX", p) for p in itertools.permutations(range(nq), 4)][:8]
    out.append(("barrier", ()))
    return out


def job_seq(a):
    nq, length, lo, hi = a
    t0 = time.time()
    ch = gate_choices(nq)
    n = 0
    total = len(ch) ** length
    for idx in range(lo, min(hi, total)):
        seq, k = [], idx
        for _ in range(length):
            seq.append(ch[k % len(ch)])
            k //= len(ch)
        n += 1
        f = check_circuit(nq, seq)
        if f:
            return [dict(name="seqchunk", status="x", strength="aux", backend="truth-table", secs=time.time() - t0, count=n, nq=nq, length=length,
                         fail=dict(qubits=nq, gates=[f"{k}{list(w)}" for k, w in seq], **f))]
    return [dict(name="seqchunk", status="x", strength="aux", backend="truth-table", secs=time.time() - t0, count=n, nq=nq, length=length, fail=None)]


KIND_ALPHABET = [("X", (0,)), ("CX", (1, 2)), ("barrier", ()), ("H", (0,)), ("S", (1,)), ("Swap", (0, 2))]


def job_words(a):
    length, lo, hi = a
    t0 = time.time()
    n = 0
    A = KIND_ALPHABET
    for idx in range(lo, min(hi, len(A) ** length)):
        seq, k = [], idx
        for _ in range(length):
            seq.append(A[k % len(A)])
            k //= len(A)
        n += 1
        f = check_circuit(3, seq)
        if f:
            return [dict(name="wordchunk", status="x", strength="aux", backend="truth-table", secs=time.time() - t0, count=n, length=length,
                         fail=dict(gates=[f"{k}{list(w)}" for k, w in seq], **f))]
    return [dict(name="wordchunk", status="x", strength="aux", backend="truth-table", secs=time.time() - t0, count=n, length=length, fail=None)]


# ---- loop-invariant cut of __exps_of_section: the per-gate step from an ARBITRARY state (all section lengths) -------------

def _loop_line(fn, iter_name):
    """source line of `for ... in <iter_name>` inside fn (re-derived from the live source on every run)"""
    import ast
    import inspect
    import textwrap
    lines, start = inspect.getsourcelines(fn)
    tree = ast.parse(textwrap.dedent("".join(lines)))
    ast.increment_lineno(tree, start - 1)
    for n in ast.walk(tree):
        if isinstance(n, ast.For) and isinstance(n.iter, ast.Name) and n.iter.id == iter_name:
            return n.lineno
    raise RuntimeError(f"no `for ... in {iter_name}` in {fn.__qualname__}")


def job_step(a):
    """INVARIANT of the loop of Decompiler.__exps_of_section: for every qubit q, exps.get(q, q) denotes the current value of q as a function of
    the entry values.  STEP obligation: from an arbitrary state satisfying it (havocked: the entries of an arbitrary subset H of the qubits are
    opaque formulas E_q, the others are absent), one iteration with gate g leaves a state that denotes the values after g.  Together with the
    empty initial state this covers sections of every length."""
    import itertools as it
    import z3
    from sympy import Symbol
    from qlasskit.decompiler import Decompiler
    from qlasskit.qcircuit import QCircuit
    from .. import pyvc
    kind, ws, nq = a
    t0 = time.time()
    fn = getattr(Decompiler, "_Decompiler__exps_of_section")
    line = _loop_line(fn, "section")
    name = f"C11.exps_of_section.loop-step[{kind}{list(ws)} over {nq} qubits, every havocked subset]"
    gate = mk_gate(kind, len(ws) - 1)
    qc = QCircuit(nq)
    names = [f"q{i}" for i in range(nq)]
    n_ok = 0
    for H in it.chain.from_iterable(it.combinations(range(nq), r) for r in range(nq + 1)):
        eng = pyvc.Engine()
        eng.opaque_symbols = False          # dictionary keys are real sympy Symbols

        def ctl(vc, iterable, fl, H=H):
            exps = fl["exps"]
            for q in H:
                exps[Symbol(names[q])] = pyvc.SymExpr(z3.Bool(f"E_{q}"), leaf=True)

            def gen():
                yield (gate, list(ws), None)
                raise pyvc.LoopCut(dict(exps))
            return gen()
        eng.loop_controllers[line] = ctl
        try:
            paths = eng.explore(lambda vc: (fn, [Decompiler(), qc, [("placeholder", [0], None)]], {}))
        except pyvc.Unsupported as ex:
            return [res(name, common.UNDECIDED, strength="proved-class", backend="pyvc", detail=f"Unsupported: {ex}")]
        if len(paths) != 1 or paths[0].kind != "loopcut":
            return [res(name, REFUTED, strength="proved-class", backend="pyvc", replayed=False,
                        detail=f"the loop did not run exactly one iteration: {[(p.kind, str(p.value)[:100]) for p in paths]}")]
        after = {k.name: v for k, v in paths[0].value.items()}
        before = [z3.Bool(f"E_{q}") if q in H else z3.Bool(names[q]) for q in range(nq)]
        exp = list(before)
        if kind == "X":
            exp[ws[0]] = z3.Not(before[ws[0]])
        else:
            exp[ws[-1]] = z3.Xor(before[ws[-1]], z3.And(*[before[w] for w in ws[:-1]]))
        for q in range(nq):
            got = pyvc.den(after[names[q]]) if names[q] in after else z3.Bool(names[q])
            if names[q] not in after and q in H:
                return [res(name, REFUTED, strength="proved-class", backend="pyvc", detail=f"entry of q{q} disappeared")]
            st, model, secs, backend = pyvc.solve([], got == exp[q], 10000)
            if st != PROVED:
                return [res(name, REFUTED if st == REFUTED else common.UNDECIDED, strength="proved-class", backend=backend, replayed=False,
                            solver_output=str(model)[:500], detail=f"after {kind}{list(ws)} from a state with entries for {list(H)}: the entry of q{q} does not denote its value")]
        n_ok += 1
    return [res(name, PROVED, strength="proved-class", backend="z3", secs=time.time() - t0, havocked_states=n_ok)]


def _dispatch(j):
    f, a = j
    return f(a)


def run(tier, only=None):
    from qlasskit.decompiler import Decompiler
    rep = Report("C11", tier, "other", f"./check C11 --tier {tier}")
    jobs = []
    plan = [(3, 1), (3, 2), (3, 3), (4, 1), (4, 2)] + ([(3, 4), (4, 3)] if tier == "thorough" else [])
    for nq, L in plan:
        total = len(gate_choices(nq)) ** L
        step = max(500, total // 64)
        for lo in range(0, total, step):
            jobs.append((job_seq, (nq, L, lo, lo + step)))
    for L in range(1, (7 if tier == "quick" else 8)):
        total = len(KIND_ALPHABET) ** L
        step = max(500, total // 32)
        for lo in range(0, total, step):
            jobs.append((job_words, (L, lo, lo + step)))
    # proved-class: the loop step from an arbitrary state, per gate kind and wire pattern
    import itertools as _it
    for kind, nctl in (("X", 0), ("CX", 1), ("CCX", 2), ("MCX", 1), ("MCX", 2), ("MCX", 3), ("MCX", 4)):
        nq = max(2, nctl + 1 + (1 if nctl < 3 else 0))
        for ws in _it.permutations(range(nq), nctl + 1):
            if kind == "MCX" and nctl >= 3 and ws != tuple(sorted(ws)) and ws != tuple(sorted(ws, reverse=True)):
                continue
            jobs.append((job_step, (kind, ws, nq)))
    rs = run_pool(_dispatch, jobs)
    agg = {}
    for r in rs:
        if r["name"] == "seqchunk":
            k = f"C11.exps_of_section.describes-action[all sequences of {r['length']} gates over {r['nq']} qubits]"
        elif r["name"] == "wordchunk":
            k = f"C11.decompile.sections-are-maximal-classical-runs[all kind-words of length {r['length']}]"
        else:
            rep.add([r])
            continue
        cur = agg.setdefault(k, dict(count=0, fail=None))
        cur["count"] += r["count"]
        cur["fail"] = cur["fail"] or r["fail"]
    for k, v in sorted(agg.items()):
        if v["fail"]:
            rep.add([res(k, REFUTED, strength="bounded", backend="truth-table", replayed=True, instances=v["count"],
                         replay=dict(call="Decompiler().decompile(circuit) on the real class; section gates simulated on every entry state", **v["fail"]))])
        else:
            rep.add([res(k, PROVED, strength="bounded", backend="truth-table", instances=v["count"], nontrivial=True)])
    rep.under_contract(Decompiler.decompile, getattr(Decompiler, "_Decompiler__exps_of_section"))
    rep.rule = "one evaluation = one circuit decompiled by the real Decompiler, every reported expression compared with the simulated section on ALL entry states; distinct = distinct gate sequence"
    rep.extra.update(bounded=dict(family="all gate sequences over X/CX/CCX/MCX(2-3 controls)/barrier with every wire choice; all kind-words over {X,CX,barrier,H,S,swap}",
                                  bound="length <= 3 over 3 qubits, <= 2 over 4 qubits (thorough: 4 / 3); kind-words of length <= 6 (thorough 7)", all_values=True),
                     instances=sum(v["count"] for v in agg.values()))
    rep.extra["loop_invariant"] = ("Decompiler.__exps_of_section: invariant 'exps.get(q, q) denotes the current value of q'; INIT trivial (empty dict), STEP discharged by pyvc/z3 per gate kind "
                                   "and wire pattern from an arbitrary havocked state (proved-class, all section lengths); EXIT (filter of identity entries) covered by the bounded family")
    rep.extra["evaluations"] = sum(v["count"] for v in agg.values())
    rep.extra["distinct_nontrivial"] = sum(v["count"] for v in agg.values())
    rep.assumptions = ["A8 standard meaning of X/CX/CCX/MCX", "gates.I is listed in ZB_GATES but has no case in __exps_of_section (raises): I is outside the gate set C11 quantifies over - diagnostic, not checked",
                       "bounded in length and qubits; complete in entry states"]
    rep.explanation = "loop-invariant style contract of the decompiler checked on an exhaustive small scope of circuits, each on all basis states"
    rep.samples = [dict(name=r["name"], status=r["status"], instances=r.get("instances")) for r in rep.results[:6]]
    return rep


def replay(path):
    import sys
    from ..common import generic_replay
    return generic_replay(sys.modules[__name__], path)
