"""C11 - decompiled expressions describe exactly what the gates do.

Contracts on decompiler/decompiler.py:
  Decompiler.decompile(qc)  ensures the sections are exactly the maximal runs of classical gates (X, CX, CCX, MCX; barriers / nops
                            neither start, end nor split a run), in order; qc.gates[index[0]:index[1]] contains all gates of the
                            section, nothing but them and nops, and starts at its first gate; section.gates are those gates in
                            order; qc is not modified
  __exps_of_section         ensures for every qubit q and every entry state s: (q -> e) reported  =>  den(e)(s) = csim(section, s)[q];
                            no entry for q  =>  csim(section, s)[q] = s[q]
Decided on ALL gate sequences up to a length over few qubits (bounded), each for ALL entry states (truth tables); the sectioning
state machine depends only on the KIND of each gate and is checked on all kind-words up to a length."""
import itertools
import time

from .. import bounded, common, spec
from ..common import PROVED, REFUTED, Report, res, run_pool

CLASSICAL = ("X", "CX", "CCX", "MCX")


def mk_gate(kind, nctl=None):
    from qlasskit.qcircuit import gates
    if kind == "MCX":
        return gates.MCX(nctl)
    return getattr(gates, kind)()


def build(nq, seq):
    """seq: list of (kind, wires)"""
    from qlasskit.qcircuit import QCircuit, gates
    qc = QCircuit(nq)
    for kind, ws in seq:
        if kind == "barrier":
            qc.barrier()
        elif kind == "MCX":
            qc.append(gates.MCX(len(ws) - 1), list(ws))
        elif kind.startswith("MCtrl"):          # a generic multi-controlled gate: MCtrlZ, MCtrlX, MCtrlH, ...
            qc.mctrl(getattr(gates, kind[5:])(), list(ws[:-1]), ws[-1])
        else:
            qc.append(getattr(gates, kind)(), list(ws))
    return qc


def expected_sections(kinds):
    """maximal runs of classical gates; nops do not break a run; -> [(first, last+1, [positions of classical gates])]"""
    secs, cur = [], []
    for i, k in enumerate(kinds):
        if k in CLASSICAL:
            cur.append(i)
        elif k == "barrier":
            continue
        else:
            if cur:
                secs.append(cur)
            cur = []
    if cur:
        secs.append(cur)
    return secs


def check_circuit(nq, seq):
    """-> None or failure dict"""
    from qlasskit.decompiler import Decompiler
    qc = build(nq, seq)
    before = [(type(g).__name__, list(w), p) for g, w, p in qc.gates]
    ids_before = [id(t) for t in qc.gates]
    try:
        dc = Decompiler().decompile(qc)
    except Exception as ex:  # noqa
        return dict(observed=f"decompile raises {type(ex).__name__}: {ex}"[:200])
    after = [(type(g).__name__, list(w), p) for g, w, p in qc.gates]
    if after != before or [id(t) for t in qc.gates] != ids_before:
        return dict(observed="decompile modified its argument", before=before, after=after)
    kinds = [k for k, _ in seq]
    exp = expected_sections(kinds)
    if len(dc) != len(exp):
        return dict(observed=f"{len(dc)} sections reported: {[s.index for s in dc]}", expected=f"{len(exp)} maximal classical runs at positions {exp}")
    names = [f"q{i}" for i in range(nq)]
    tabs, mask = spec.input_tables(names)
    for sec, pos in zip(dc, exp):
        i0, i1 = sec.index
        sl = list(range(i0, i1))
        non_nop = [i for i in sl if kinds[i] != "barrier"]
        # "covers exactly those gates": from the first classical gate of the run to just after its last one (barriers INSIDE the run are ignored;
        # a barrier before the first or after the last gate is not one of "those gates")
        if non_nop != pos or (sl and (sl[0] != pos[0] or sl[-1] != pos[-1])) or not (0 <= i0 <= i1 <= len(seq)):
            return dict(observed=f"section index {sec.index} covers gate positions {non_nop}" + (f" and ends after position {sl[-1]}" if sl else ""),
                        expected=f"exactly the gates at {pos}: range ({pos[0]}, {pos[-1] + 1})")
        sg = [(type(g).__name__, list(w)) for g, w, p in sec.gates]
        if sg != [(seq[i][0], list(seq[i][1])) for i in pos]:
            return dict(observed=f"section.gates = {sg}", expected=[(seq[i][0], list(seq[i][1])) for i in pos])
        # expressions vs the action of the section on every entry state
        st0 = [tabs[n] for n in names]
        real = [(mk_gate(seq[i][0], len(seq[i][1]) - 1), list(seq[i][1]), None) for i in pos]
        fin = spec.csim_apply(real, st0, mask)
        reported = {}
        for s, e in sec.expressions:
            if s.name in reported:
                return dict(observed=f"two expressions for {s.name}")
            reported[s.name] = e
        for q, nm in enumerate(names):
            if nm in reported:
                try:
                    t = spec.sympy_table(reported[nm], None, tabs, mask)
                except Exception as ex:  # noqa
                    return dict(observed=f"expression of {nm} = {reported[nm]} cannot be evaluated over the entry values: {ex}")
                if t != fin[q]:
                    row = spec.first_row(t ^ fin[q])
                    return dict(section=sec.index, qubit=nm, expression=str(reported[nm]), entry_state=dict(zip(names, bounded.row_bits(row, nq))),
                                observed=(t >> row) & 1, expected=(fin[q] >> row) & 1)
            elif fin[q] != st0[q]:
                row = spec.first_row(fin[q] ^ st0[q])
                return dict(section=sec.index, qubit=nm, observed="no expression reported, but the section changes this qubit",
                            entry_state=dict(zip(names, bounded.row_bits(row, nq))))
        for nm in reported:
            if nm not in names:
                return dict(observed=f"expression for unknown qubit {nm}")
    return None


def gate_choices(nq):
    out = [("X", (q,)) for q in range(nq)]
    out += [("CX", p) for p in itertools.permutations(range(nq), 2)]
    out += [("CCX", p) for p in itertools.permutations(range(nq), 3)]
    if nq >= 3:
        out += [("MCX", p) for p in itertools.permutations(range(nq), 3)][:6]
    if nq >= 4:
        out += [("MCX", p) for p in itertools.permutations(range(nq), 4)][:8]
    out.append(("barrier", ()))
    return out


def job_seq(a):
    nq, length, lo, hi = a
    t0 = time.time()
    ch = gate_choices(nq)
    n = 0
    total = len(ch) ** length
    for idx in range(lo, min(hi, total)):
        seq, k = [], idx
        for _ in range(length):
            seq.append(ch[k % len(ch)])
            k //= len(ch)
        n += 1
        f = check_circuit(nq, seq)
        if f:
            return [dict(name="seqchunk", status="x", strength="aux", backend="truth-table", secs=time.time() - t0, count=n, nq=nq, length=length,
                         fail=dict(qubits=nq, gates=[f"{k}{list(w)}" for k, w in seq], **f))]
    return [dict(name="seqchunk", status="x", strength="aux", backend="truth-table", secs=time.time() - t0, count=n, nq=nq, length=length, fail=None)]


KIND_ALPHABET = [("X", (0,)), ("CX", (1, 2)), ("barrier", ()), ("H", (0,)), ("S", (1,)), ("Swap", (0, 2))]


def job_words(a):
    length, lo, hi = a
    t0 = time.time()
    n = 0
    A = KIND_ALPHABET
    for idx in range(lo, min(hi, len(A) ** length)):
        seq, k = [], idx
        for _ in range(length):
            seq.append(A[k % len(A)])
            k //= len(A)
        n += 1
        f = check_circuit(3, seq)
        if f:
            return [dict(name="wordchunk", status="x", strength="aux", backend="truth-table", secs=time.time() - t0, count=n, length=length,
                         fail=dict(gates=[f"{k}{list(w)}" for k, w in seq], **f))]
    return [dict(name="wordchunk", status="x", strength="aux", backend="truth-table", secs=time.time() - t0, count=n, length=length, fail=None)]


# ---- loop-invariant cut of __exps_of_section: the per-gate step from an ARBITRARY state (all section lengths) -------------

def _loop_line(fn, iter_name):
    """source line of `for ... in <iter_name>` inside fn (re-derived from the live source on every run)"""
    import ast
    import inspect
    import textwrap
    lines, start = inspect.getsourcelines(fn)
    tree = ast.parse(textwrap.dedent("".join(lines)))
    ast.increment_lineno(tree, start - 1)
    for n in ast.walk(tree):
        if isinstance(n, ast.For) and isinstance(n.iter, ast.Name) and n.iter.id == iter_name:
            return n.lineno
    raise RuntimeError(f"no `for ... in {iter_name}` in {fn.__qualname__}")


def job_step(a):
    """INVARIANT of the loop of Decompiler.__exps_of_section: for every qubit q, exps.get(q, q) denotes the current value of q as a function of
    the entry values.  STEP obligation: from an arbitrary state satisfying it (havocked: the entries of an arbitrary subset H of the qubits are
    opaque formulas E_q, the others are absent), one iteration with gate g leaves a state that denotes the values after g.  Together with the
    empty initial state this covers sections of every length."""
    import itertools as it
    import z3
    from sympy import Symbol
    from qlasskit.decompiler import Decompiler
    from qlasskit.qcircuit import QCircuit
    from .. import pyvc
    kind, ws, nq = a
    t0 = time.time()
    fn = getattr(Decompiler, "_Decompiler__exps_of_section")
    line = _loop_line(fn, "section")
    name = f"C11.exps_of_section.loop-step[{kind}{list(ws)} over {nq} qubits, every havocked subset]"
    gate = mk_gate(kind, len(ws) - 1)
    qc = QCircuit(nq)
    names = [f"q{i}" for i in range(nq)]
    n_ok = 0
    for H in it.chain.from_iterable(it.combinations(range(nq), r) for r in range(nq + 1)):
        eng = pyvc.Engine()
        eng.opaque_symbols = False          # dictionary keys are real sympy Symbols

        def ctl(vc, iterable, fl, H=H):
            exps = fl["exps"]
            for q in H:
                exps[Symbol(names[q])] = pyvc.SymExpr(z3.Bool(f"E_{q}"), leaf=True)

            def gen():
                yield (gate, list(ws), None)
                raise pyvc.LoopCut(dict(exps))
            return gen()
        eng.loop_controllers[line] = ctl
        try:
            paths = eng.explore(lambda vc: (fn, [Decompiler(), qc, [("placeholder", [0], None)]], {}))
        except pyvc.Unsupported as ex:
            return [res(name, common.UNDECIDED, strength="proved-class", backend="pyvc", detail=f"Unsupported: {ex}")]
        if len(paths) != 1 or paths[0].kind != "loopcut":
            return [res(name, REFUTED, strength="proved-class", backend="pyvc", replayed=False,
                        detail=f"the loop did not run exactly one iteration: {[(p.kind, str(p.value)[:100]) for p in paths]}")]
        after = {k.name: v for k, v in paths[0].value.items()}
        before = [z3.Bool(f"E_{q}") if q in H else z3.Bool(names[q]) for q in range(nq)]
        exp = list(before)
        if kind == "X":
            exp[ws[0]] = z3.Not(before[ws[0]])
        else:
            exp[ws[-1]] = z3.Xor(before[ws[-1]], z3.And(*[before[w] for w in ws[:-1]]))
        for q in range(nq):
            got = pyvc.den(after[names[q]]) if names[q] in after else z3.Bool(names[q])
            if names[q] not in after and q in H:
                return [res(name, REFUTED, strength="proved-class", backend="pyvc", detail=f"entry of q{q} disappeared")]
            st, model, secs, backend = pyvc.solve([], got == exp[q], 10000)
            if st != PROVED:
                return [res(name, REFUTED if st == REFUTED else common.UNDECIDED, strength="proved-class", backend=backend, replayed=False,
                            solver_output=str(model)[:500], detail=f"after {kind}{list(ws)} from a state with entries for {list(H)}: the entry of q{q} does not denote its value")]
        n_ok += 1
    return [res(name, PROVED, strength="proved-class", backend="z3", secs=time.time() - t0, havocked_states=n_ok)]


def job_section_step(a):
    """the SECTION loop of Decompiler.decompile from a state whose current run has ANY length: the run holds one real classical gate plus G >= 0
    ghost gates (len() of that list object is modelled as 1 + G, G a mathematical integer: every path condition on the length is decided by z3).
    STEP obligations for the next gate g:  classical -> nothing is closed and exactly g is appended;  barrier -> nothing changes;
    any other gate -> exactly ONE section is reported, it is the run (same list, start index kept) and the state is reset (a later run is reported
    on its own).  __exps_of_section is replaced by its contract (an opaque list)."""
    import inspect
    import z3
    from qlasskit.decompiler import Decompiler
    from qlasskit.decompiler import decompiler as dmod
    from qlasskit.qcircuit import QCircuit, gates
    from .. import pyvc
    kind, = a
    t0 = time.time()
    fn = Decompiler.decompile
    name = f"C11.decompile.section-loop-step[next gate {kind}; a run of every length >= 1]"
    base = dict(strength="proved-class", backend="pyvc")
    import ast
    import textwrap
    lines, start = inspect.getsourcelines(fn)
    tree = ast.parse(textwrap.dedent("".join(lines)))
    ast.increment_lineno(tree, start - 1)
    fors = [n.lineno for n in ast.walk(tree) if isinstance(n, ast.For)]
    if len(fors) != 1:
        return [res(name, common.UNDECIDED, detail=f"decompile has {len(fors)} for loops: the contract names one", **base)]
    mk = {"X": lambda: (gates.X(), [1], None), "CX": lambda: (gates.CX(), [0, 1], None), "CCX": lambda: (gates.CCX(), [0, 1, 2], None),
          "MCX": lambda: (gates.MCX(3), [0, 1, 2, 3], None), "barrier": lambda: (gates.Barrier(), [], None), "H": lambda: (gates.H(), [0], None),
          "sentinel": lambda: (None, [0], None)}
    first = (gates.X(), [0], None)
    nxt = mk[kind]()
    tail = [(gates.X(), [2], None), (gates.H(), [1], None)]
    qc = QCircuit(4)
    for g, w, p in [first] + ([nxt] if kind != "sentinel" else []) + tail:
        qc.append(g, w, p)
    eng = pyvc.Engine(modular=True)
    G = z3.Int("ghost_gates")
    eng.base_hyps = [G >= 0]
    eng.prune = True
    state = {}
    sentinel_exps = ["<exps of the section>"]
    calls = []

    def c_exps(vc, f, args, kwargs):
        calls.append(args[-1])
        return list(sentinel_exps)
    eng.contracts[getattr(Decompiler, "_Decompiler__exps_of_section")] = c_exps

    def m_len(vc, f, x):
        if state.get("ghost_id") is not None and id(x) == state["ghost_id"]:
            return pyvc.SymZ(z3.IntVal(len(x)) + G)
        return len(x)
    eng.models[len] = m_len

    def ctl(vc, iterable, fl):
        sec, results = fl["current_section"], fl["results"]
        state.update(sec=sec, results=results)

        def gen():
            yield first
            state["ghost_id"] = id(sec)          # from here on the run is 1 + G gates long
            state["after_first"] = (list(sec), len(results.sections))
            if kind != "sentinel":
                yield nxt
            else:
                yield (None, [0], None)
            state["after_next"] = (list(sec), [x for x in results.sections])
            if kind in ("H", "sentinel"):
                for t in tail:                    # a later run must be reported on its own
                    yield t
                state["after_tail"] = [x for x in results.sections]
            raise pyvc.LoopCut(True)
        return gen()
    eng.loop_controllers[fors[0]] = ctl
    try:
        paths = eng.explore(lambda vc: (fn, [Decompiler(), qc], {}), max_paths=16)
    except pyvc.Unsupported as ex:
        return [res(name, common.UNDECIDED, detail=f"Unsupported: {ex}", **base)]
    feas = [p for p in paths if p.kind != "infeasible"]
    if len(feas) != 1 or feas[0].kind != "loopcut":
        # a path that depends on the run's length: a witness length comes from the path condition
        det = []
        for p in feas:
            st, model, _, _ = pyvc.solve([G >= 0] + list(getattr(p, "pc", [])), z3.BoolVal(False), 5000)
            det.append(dict(kind=p.kind, value=str(p.value)[:120], run_length=(1 + model[G].as_long()) if (st == REFUTED and model is not None and model[G] is not None) else None))
        wit = next((d["run_length"] for d in det if d["run_length"] and d["run_length"] > 1), None)
        rp = dict(detail="the step depends on the LENGTH of the run", paths=det)
        if wit:
            rp.update(native_replay=_native_section_len(wit, kind))
        return [res(name, REFUTED, replayed=bool(wit and rp["native_replay"].get("violates")), replay=rp, **base)]
    sec_first, nres_first = state["after_first"]
    sec_next, res_next = state["after_next"]
    bad = None
    if len(sec_first) != 1 or nres_first != 0:
        bad = "the first classical gate did not open a run of one gate"
    elif kind in ("X", "CX", "CCX", "MCX"):
        if res_next or len(sec_next) != 2 or sec_next[1][0] is not nxt[0]:
            bad = f"a classical gate must extend the run and close nothing: run {len(sec_next)} real gates, {len(res_next)} section(s) reported"
    elif kind == "barrier":
        if res_next or len(sec_next) != 1:
            bad = f"a barrier must change nothing: run {len(sec_next)} real gates, {len(res_next)} section(s) reported"
    else:
        if len(res_next) != 1 or res_next[0].gates is not state["sec"] or res_next[0].index[0] != 0 or res_next[0].expressions != sentinel_exps:
            bad = f"a non-classical gate must report exactly the run: {len(res_next)} section(s), index {[x.index for x in res_next]}"
        else:
            at = state.get("after_tail", [])
            if len(at) != 2 or len(at[1].gates) != 1 or at[1].gates[0][0] is not tail[0][0]:
                bad = f"after a reported run the state is not reset: the later run X, H is reported as {[(len(x.gates), x.index) for x in at[1:]]}"
    if bad:
        return [res(name, REFUTED, replayed=False, replay=dict(detail=bad), **base)]
    return [res(name, PROVED, secs=time.time() - t0, nontrivial=True, **base)]


def _native_section_len(n, kind="H"):
    """n classical gates, then the gate of the step, then H - on the REAL class: one section covering exactly the classical run"""
    from qlasskit.decompiler import Decompiler
    from qlasskit.qcircuit import QCircuit, gates
    qc = QCircuit(4)
    for i in range(n):
        qc.append(gates.X(), [i % 2])
    extra = {"X": (gates.X(), [1]), "CX": (gates.CX(), [0, 1]), "CCX": (gates.CCX(), [0, 1, 2]), "MCX": (gates.MCX(3), [0, 1, 2, 3])}.get(kind)
    if extra:
        qc.append(*extra)
    if kind == "barrier":
        qc.barrier()
    if kind != "sentinel":
        qc.append(gates.H(), [0])
    exp = [(0, n + (1 if extra else 0))]
    call = f"Decompiler().decompile({n} X gates" + (f", {kind}" if kind not in ("H", "sentinel") else "") + (", H)" if kind != "sentinel" else ")")
    try:
        got = [tuple(x.index) for x in Decompiler().decompile(qc)]
    except Exception as ex:  # noqa
        return dict(call=call, observed=f"raises {type(ex).__name__}: {ex}"[:200], violates=True)
    return dict(call=call, observed=got, expected=exp, violates=got != exp)


def _dispatch(j):
    f, a = j
    return f(a)


def run(tier, only=None):
    from qlasskit.decompiler import Decompiler
    rep = Report("C11", tier, "other", f"./check C11 --tier {tier}")
    jobs = []
    plan = [(3, 1), (3, 2), (3, 3), (4, 1), (4, 2)] + ([(3, 4), (4, 3)] if tier == "thorough" else [])
    for nq, L in plan:
        total = len(gate_choices(nq)) ** L
        step = max(500, total // 64)
        for lo in range(0, total, step):
            jobs.append((job_seq, (nq, L, lo, lo + step)))
    for L in range(1, (7 if tier == "quick" else 8)):
        total = len(KIND_ALPHABET) ** L
        step = max(500, total // 32)
        for lo in range(0, total, step):
            jobs.append((job_words, (L, lo, lo + step)))
    # proved-class: the loop step from an arbitrary state, per gate kind and wire pattern
    import itertools as _it
    for kind, nctl in (("X", 0), ("CX", 1), ("CCX", 2), ("MCX", 1), ("MCX", 2), ("MCX", 3), ("MCX", 4)):
        nq = max(2, nctl + 1 + (1 if nctl < 3 else 0))
        for ws in _it.permutations(range(nq), nctl + 1):
            if kind == "MCX" and nctl >= 3 and ws != tuple(sorted(ws)) and ws != tuple(sorted(ws, reverse=True)):
                continue
            jobs.append((job_step, (kind, ws, nq)))
    for kind in ("X", "CX", "CCX", "MCX", "barrier", "H", "sentinel"):
        jobs.append((job_section_step, (kind,)))
    rs = run_pool(_dispatch, jobs)
    agg = {}
    for r in rs:
        if r["name"] == "seqchunk":
            k = f"C11.exps_of_section.describes-action[all sequences of {r['length']} gates over {r['nq']} qubits]"
        elif r["name"] == "wordchunk":
            k = f"C11.decompile.sections-are-maximal-classical-runs[all kind-words of length {r['length']}]"
        else:
            rep.add([r])
            continue
        cur = agg.setdefault(k, dict(count=0, fail=None))
        cur["count"] += r["count"]
        cur["fail"] = cur["fail"] or r["fail"]
    for k, v in sorted(agg.items()):
        if v["fail"]:
            rep.add([res(k, REFUTED, strength="bounded", backend="truth-table", replayed=True, instances=v["count"],
                         replay=dict(call="Decompiler().decompile(circuit) on the real class; section gates simulated on every entry state", **v["fail"]))])
        else:
            rep.add([res(k, PROVED, strength="bounded", backend="truth-table", instances=v["count"], nontrivial=True)])
    rep.under_contract(Decompiler.decompile, getattr(Decompiler, "_Decompiler__exps_of_section"))
    rep.rule = "one evaluation = one circuit decompiled by the real Decompiler, every reported expression compared with the simulated section on ALL entry states; distinct = distinct gate sequence"
    rep.extra.update(bounded=dict(family="all gate sequences over X/CX/CCX/MCX(2-3 controls)/barrier with every wire choice; all kind-words over {X,CX,barrier,H,S,swap}",
                                  bound="length <= 3 over 3 qubits, <= 2 over 4 qubits (thorough: 4 / 3); kind-words of length <= 6 (thorough 7)", all_values=True),
                     instances=sum(v["count"] for v in agg.values()))
    rep.extra["loop_invariant"] = ("Decompiler.__exps_of_section: invariant 'exps.get(q, q) denotes the current value of q'; INIT trivial (empty dict), STEP discharged by pyvc/z3 per gate kind "
                                   "and wire pattern from an arbitrary havocked state (proved-class, all section lengths); EXIT (filter of identity entries) covered by the bounded family")
    rep.extra["evaluations"] = sum(v["count"] for v in agg.values())
    rep.extra["distinct_nontrivial"] = sum(v["count"] for v in agg.values())
    rep.assumptions = ["A8 standard meaning of X/CX/CCX/MCX", "gates.I is listed in ZB_GATES but has no case in __exps_of_section (raises): I is outside the gate set C11 quantifies over - diagnostic, not checked",
                       "bounded in length and qubits; complete in entry states"]
    rep.explanation = "loop-invariant style contract of the decompiler checked on an exhaustive small scope of circuits, each on all basis states"
    rep.samples = [dict(name=r["name"], status=r["status"], instances=r.get("instances")) for r in rep.results[:6]]
    return rep


def replay(path):
    import sys
    from ..common import generic_replay
    return generic_replay(sys.modules[__name__], path)
