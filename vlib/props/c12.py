"""C12 - the circuit boolean optimizer returns an equivalent, no larger circuit.

Contract on decompiler/decopt.py circuit_boolean_optimizer(qc, compiler="internal", preserve=None):
  ensures same num_qubits; same unitary; number of non-nop gates <= that of qc; qc.gates unchanged (frame).
"Same unitary" is decided exactly for classical circuits (permutation action on all basis states, csim) and numerically
(1e-9) for circuits with H/Z/S/T gates (<= 4 qubits).  Bounded family of circuits."""
import itertools
import random
import time

from .. import bounded, common, spec
from ..common import PROVED, REFUTED, Report, res, run_pool
from . import c11
from .c14 import _unitary

PATTERNS = ("plain", "H.sec.Z", "sec.H.sec", "T.sec.barrier.sec", "three-sections")

# classical sections the optimizer can shorten (so that a splice really happens), used for circuits with three sections
REDUCIBLE = [
    [("X", (0,)), ("CX", (0, 1)), ("X", (0,)), ("CX", (0, 1))],
    [("CX", (0, 1)), ("CX", (0, 1))],
    [("X", (1,)), ("X", (1,)), ("X", (2,))],
    [("CX", (1, 2)), ("X", (1,)), ("CX", (1, 2)), ("X", (1,))],
    [("CCX", (0, 1, 2)), ("CCX", (0, 1, 2)), ("X", (0,))],
    [("X", (2,)), ("CX", (2, 0)), ("X", (2,))],
]


def job_three(a):
    """circuits with THREE classical sections separated by non-classical gates: every splice must land at its own section"""
    lo, hi = a
    fails, n = [], 0
    combos = [(i, j, k, s) for i in range(len(REDUCIBLE)) for j in range(len(REDUCIBLE)) for k in range(len(REDUCIBLE)) for s in (0, 1)]
    for i, j, k, s in combos[lo:hi]:
        seps = [[("H", (0,))], [("H", (1,)), ("T", (2,))]][s]
        full = REDUCIBLE[i] + seps + REDUCIBLE[j] + [("Z", (1,))] + REDUCIBLE[k] + [("H", (2,))]
        n += 1
        f = check(3, full)
        if f:
            fails.append(dict(qubits=3, gates=[f"{g}{list(w)}" for g, w in full], **f))
    return [dict(name="chunk", status="x", strength="aux", backend="csim", secs=0, count=n, nq=3, length="3 sections", pattern="three-sections", fails=fails)]



def embed(seq, pattern, seq2=None):
    seq2 = seq2 if seq2 is not None else seq[::-1]
    if pattern == "plain":
        return list(seq)
    if pattern == "H.sec.Z":
        return [("H", (0,))] + list(seq) + [("Z", (1,))]
    if pattern == "sec.H.sec":
        return list(seq) + [("H", (1,))] + list(seq2)
    return [("T", (0,))] + list(seq) + [("barrier", ())] + list(seq2)


def check(nq, seq):
    import numpy as np
    from qlasskit.decompiler import circuit_boolean_optimizer
    qc = c11.build(nq, seq)
    before = [(type(g).__name__, list(w), p) for g, w, p in qc.gates]
    ids = [id(t) for t in qc.gates]
    try:
        out = circuit_boolean_optimizer(qc)
    except Exception as ex:  # noqa
        return dict(observed=f"raises {type(ex).__name__}: {ex}"[:300])
    after = [(type(g).__name__, list(w), p) for g, w, p in qc.gates]
    if after != before or ids != [id(t) for t in qc.gates]:
        return dict(clause="frame", observed="the input circuit was modified", before=before, after=after)
    if out.num_qubits != nq:
        return dict(clause="qubits", observed=f"{out.num_qubits} qubits", expected=nq)
    og = [(type(g).__name__, list(w)) for g, w, p in out.gates]
    if any(w and max(w) >= nq for _, w in og):
        return dict(clause="qubits", observed=f"gate on a qubit outside the circuit: {og}")
    n_in = sum(1 for k, _ in seq if k != "barrier")
    n_out = sum(1 for k, _ in og if k not in ("Barrier", "NopGate"))
    if n_out > n_in:
        return dict(clause="size", observed=f"{n_out} gates", expected=f"<= {n_in}", result=og)
    classical = all(k in c11.CLASSICAL or k == "barrier" for k, _ in seq) and all(k in ("X", "CX", "CCX", "MCX", "Barrier") for k, _ in og)
    if classical:
        s0, mask = spec.csim_tables(qc.gates, nq, nq)
        s1, _ = spec.csim_tables(out.gates, nq, nq)
        if s0 != s1:
            q = next(i for i in range(nq) if s0[i] != s1[i])
            row = spec.first_row(s0[q] ^ s1[q])
            return dict(clause="unitary", basis_state=dict(zip([f"q{i}" for i in range(nq)], bounded.row_bits(row, nq))), qubit=q,
                        observed=(s1[q] >> row) & 1, expected=(s0[q] >> row) & 1, result=og)
    else:
        try:
            U0, U1 = _unitary(qc.gates, nq), _unitary(out.gates, nq)
        except ValueError as ex:
            return dict(clause="unitary", observed=f"result contains a gate outside the gate set: {ex}", result=og)
        if not np.allclose(U0, U1, atol=1e-9):
            return dict(clause="unitary", observed="unitaries differ (1e-9)", result=og)
    return None


def job(a):
    nq, length, lo, hi, pattern = a
    t0 = time.time()
    ch = [c for c in c11.gate_choices(nq) if c[0] != "barrier" or pattern == "plain"]
    total = len(ch) ** length
    n = 0
    fails = []
    for idx in range(lo, min(hi, total)):
        seq, k = [], idx
        for _ in range(length):
            seq.append(ch[k % len(ch)])
            k //= len(ch)
        full = embed(seq, pattern)
        n += 1
        f = check(nq, full)
        if f and len(fails) < 400:
            fails.append(dict(qubits=nq, gates=[f"{k}{list(w)}" for k, w in full], **f))
    return [dict(name="chunk", status="x", strength="aux", backend="csim", secs=time.time() - t0, count=n, nq=nq, length=length, pattern=pattern, fails=fails)]


MCTRL_ALPHABET = [("MCtrlZ", (0, 1, 2)), ("MCtrlX", (0, 1, 2)), ("MCtrlZ", (1, 2)), ("MCtrlX", (1, 2)), ("MCtrlZ", (2, 0, 1)), ("X", (2,)), ("CX", (1, 2)), ("CCX", (0, 1, 2)), ("H", (2,))]


def job_mctrl(a):
    """sequences over generic multi-controlled gates (MCtrl of Z / X: same class, same wires, different inner gate) mixed with classical gates"""
    length, = a
    n, fails = 0, []
    for seq in itertools.product(MCTRL_ALPHABET, repeat=length):
        n += 1
        f = check(3, list(seq))
        if f and len(fails) < 50:
            fails.append(dict(qubits=3, gates=[f"{k}{list(w)}" for k, w in seq], **f))
    return [dict(name="chunk", status="x", strength="aux", backend="csim", secs=0, count=n, nq=3, length=length, pattern="multi-controlled Z/X mixed with classical gates", fails=fails)]


MCX4_ALPHABET = [("X", (0,)), ("X", (1,)), ("X", (3,)), ("MCX", (0, 1, 2, 3)), ("MCX", (3, 1, 2, 0)), ("CX", (0, 3)), ("CCX", (0, 1, 3))]


def job_mcx4(a):
    """runs over four qubits with 3-control MCX gates whose controls are WRITTEN earlier in the same run (a slice of the all-sequences space no length-3 bound reaches)"""
    length, = a
    n, fails = 0, []
    for seq in itertools.product(MCX4_ALPHABET, repeat=length):
        if not any(k == "MCX" for k, _ in seq):
            continue
        n += 1
        f = check(4, list(seq))
        if f and len(fails) < 50:
            fails.append(dict(qubits=4, gates=[f"{k}{list(w)}" for k, w in seq], **f))
    return [dict(name="chunk", status="x", strength="aux", backend="csim", secs=0, count=n, nq=4, length=length, pattern="runs with 3-control MCX gates", fails=fails)]


def job_random(a):
    seed, count = a
    r = random.Random(seed)
    n = 0
    fails = []
    for _ in range(count):
        nq = r.choice((3, 4))
        ch = c11.gate_choices(nq) + [("H", (q,)) for q in range(nq)] + [("Z", (0,)), ("S", (1,)), ("T", (2,)), ("Swap", (0, 1)), ("CZ", (0, 2))]
        seq = [r.choice(ch) for _ in range(r.choice((6, 8, 10, 12)))]
        n += 1
        f = check(nq, seq)
        if f:
            fails.append(dict(qubits=nq, gates=[f"{k}{list(w)}" for k, w in seq], **f))
    return [dict(name="chunk", status="x", strength="aux", backend="csim", secs=0, count=n, nq="3-4", length="6-12", pattern="random", fails=fails)]


def _dispatch(j):
    f, a = j
    return f(a)


def run(tier, only=None):
    from qlasskit.decompiler import circuit_boolean_optimizer
    from qlasskit.decompiler.decopt import custom_simplify_logic2
    rep = Report("C12", tier, "exploration", f"./check C12 --tier {tier}")
    jobs = []
    plan = [(3, 1, "plain"), (3, 2, "plain"), (3, 3, "plain"), (4, 2, "plain"), (3, 2, "H.sec.Z"), (3, 2, "sec.H.sec"), (3, 2, "T.sec.barrier.sec"),
            (2, 4, "plain"), (2, 5, "plain")]          # LONGER runs on two qubits: sections that cancel to identity / to a single negation after several steps
    if tier == "thorough":
        plan += [(3, 3, "H.sec.Z"), (3, 3, "sec.H.sec"), (4, 3, "plain"), (2, 6, "plain"), (2, 4, "H.sec.Z")]
    for nq, L, pat in plan:
        nch = len([c for c in c11.gate_choices(nq) if c[0] != "barrier" or pat == "plain"])
        total = nch ** L
        step = max(300, total // 48)
        for lo in range(0, total, step):
            jobs.append((job, (nq, L, lo, lo + step, pat)))
    for s in range(16 if tier == "quick" else 64):
        jobs.append((job_random, (1000 + s, 30)))
    n3 = len(REDUCIBLE) ** 3 * 2
    for lo in range(0, n3, 27):
        jobs.append((job_three, (lo, lo + 27)))
    for L in (2, 3) + ((4,) if tier == "thorough" else ()):
        jobs.append((job_mctrl, (L,)))
    for L in (3, 4) + ((5,) if tier == "thorough" else ()):
        jobs.append((job_mcx4, (L,)))
    rs = run_pool(_dispatch, jobs)
    agg = {}
    for r in rs:
        if r["name"] != "chunk":
            rep.add([r])
            continue
        k = f"C12.circuit_boolean_optimizer.equivalent-no-larger-frame[{r['pattern']}: {r['length']} classical gates over {r['nq']} qubits]"
        cur = agg.setdefault(k, dict(count=0, fails=[]))
        cur["count"] += r["count"]
        cur["fails"] += r["fails"]
    for k, v in sorted(agg.items()):
        # one result per failing circuit (so that known findings can be keyed by the exact circuit), one for the rest of the group
        for f in v["fails"]:
            nm = f"C12.circuit_boolean_optimizer.equivalent-no-larger-frame[{f['qubits']}q: {' '.join(f['gates'])}]"
            rep.add([res(nm, REFUTED, strength="bounded", backend="csim/numeric", replayed=True,
                         replay=dict(call="circuit_boolean_optimizer(circuit) on the real function; action compared on every basis state", **f))])
        rep.add([res(k, PROVED, strength="bounded", backend="csim/numeric", instances=v["count"] - len(v["fails"]), failing_listed_separately=len(v["fails"]), nontrivial=True)])
    rep.under_contract(circuit_boolean_optimizer, custom_simplify_logic2)
    n = sum(v["count"] for v in agg.values())
    rep.extra.update(evaluations=n, distinct_nontrivial=n,
                     bounded=dict(family="all circuits of <= 3 classical gates over 3 qubits (<= 2 over 4), plain and embedded between H/Z/T gates and barriers; seeded random circuits of 6-12 gates over the full gate set",
                                  bound="see family", all_values=True),
                     lemma="the optimizer only replaces classical slices on the same wires, so equal permutation action of the whole classical circuit (csim) decides 'same unitary' exactly; "
                           "mixed circuits are compared numerically (1e-9)")
    rep.rule = "one evaluation = one circuit optimized by the real function and compared on all basis states (classical) or as a unitary matrix (mixed); distinct = distinct gate sequence"
    rep.assumptions = ["A8 standard meaning of gate names", "A3 numeric comparison with tolerance 1e-9 for circuits containing H/Z/S/T", "bounded family; nothing counted as proved"]
    rep.samples = [dict(name=r["name"], status=r["status"], instances=r.get("instances")) for r in rep.results[:6]]
    return rep


def replay(path):
    import sys
    from ..common import generic_replay
    return generic_replay(sys.modules[__name__], path)
