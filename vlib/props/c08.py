"""C08 - binding parameters is specialisation.

Contract on UnboundQlassf.bind(**kw) (qlassfun.py):
  requires set(kw) = set(parameters)                (else raises)
  ensures  (semantic) for all remaining inputs x:  eval(result.expressions, x) = pysem(unbound source, params := kw, x)
           (frame)    ast.dump(self.fun_ast), self.parameters, self.original_f unchanged; the result shares no AST node with self.fun_ast
           (history)  binding the same unbound object to v1, v2, v1 again, interleaved with binds of another unbound object, gives each
                      time the result a bind on a freshly built object gives
The semantic clause goes through the whole front end -> BOUNDED family of parameterised programs x ALL parameter values of the small
types x all remaining inputs (truth tables)."""
import ast
import hashlib
import itertools
import time

from .. import bounded, common, pysem, spec
from ..common import PROVED, REFUTED, Report, res, run_pool

PROGRAMS = [
    # (source, {param: list of values})
    ("def t(c: Parameter[bool], a: bool) -> bool:\n\treturn a and c", dict(c=[True, False])),
    ("def t(a: bool, c: Parameter[bool]) -> bool:\n\treturn a ^ c", dict(c=[True, False])),
    ("def t(c: Parameter[Qint[2]], a: bool) -> Qint[2]:\n\treturn c + 1 if a else c", dict(c=[0, 1, 2, 3])),
    ("def t(c: Parameter[Qint[2]], d: Parameter[Qint[2]], a: bool) -> Qint[2]:\n\treturn c + d if a else c + 1", dict(c=[0, 1, 3], d=[0, 2, 3])),
    ("def t(c: Parameter[Qint[2]], a: Qint[2]) -> bool:\n\treturn a > c", dict(c=[0, 1, 2, 3])),
    ("def t(a: Qint[2], c: Parameter[Qint[2]], d: Parameter[bool]) -> Qint[4]:\n\treturn a + c if d else a", dict(c=[0, 1, 2, 3], d=[True, False])),
    ("def t(c: Parameter[Qint[4]], a: Qint[4]) -> bool:\n\treturn a == c", dict(c=[0, 5, 9, 15])),
    ("def t(c: Parameter[Qlist[bool, 2]], a: bool) -> bool:\n\treturn (c[0] and a) or c[1]", dict(c=[[True, True], [False, True], [True, False], [False, False]])),
    ("def t(c: Parameter[Qlist[Qint[2], 3]], a: Qint[2]) -> Qint[2]:\n\treturn c[a]", dict(c=[[1, 2, 3], [3, 0, 1], [0, 0, 0]])),
    ("def t(c: Parameter[Tuple[bool, Qint[2]]], a: Qint[2]) -> Qint[2]:\n\treturn c[1] if c[0] else a", dict(c=[(True, 2), (False, 1), (True, 0)])),
    ("def t(k: Parameter[Qint[2]], a: Qint[2]) -> Qint[4]:\n\tr = 0\n\tfor i in range(2):\n\t\tr += a + k\n\treturn r", dict(k=[0, 1, 3])),
    ("def t(c: Parameter[Qint[2]], a: Qint[2], b: Qint[2]) -> bool:\n\treturn (a + b) == c", dict(c=[0, 1, 2, 3])),
    ("def t(x: Parameter[bool], y: Parameter[bool], z: Parameter[bool], a: bool) -> bool:\n\treturn (a and x) or (y ^ z)", dict(x=[True, False], y=[True, False], z=[True, False])),
    # a parameterised function that calls another compiled function (defs): every bind() re-translates with the same definitions
    ("def t(k: Parameter[bool], a: Qint[2]) -> Qint[2]:\n\treturn g(a) if k else a", dict(k=[True, False]), ["def g(b: Qint[2]) -> Qint[2]:\n\treturn b + 1"]),
    ("def t(c: Parameter[Qint[2]], a: Qint[2]) -> Qint[2]:\n\treturn g(a) + c", dict(c=[0, 1, 3]), ["def g(b: Qint[2]) -> Qint[2]:\n\treturn b + 1"]),
    ("def t(c: Parameter[Qint[2]], a: bool, b: bool) -> bool:\n\treturn h(a, b) if c == 2 else h(b, a)", dict(c=[0, 2, 3]), ["def h(x: bool, y: bool) -> bool:\n\treturn x and not y"]),
    # the body RE-ASSIGNS a parameter, or an inner function has a formal of the same name (the value must be bound once, at the top - not pasted over every read)
    ("def t(c: Parameter[bool], a: bool) -> bool:\n\tc = not c\n\treturn a and c", dict(c=[True, False])),
    ("def t(c: Parameter[bool], a: bool, b: bool) -> bool:\n\tr = a and c\n\tc = b\n\treturn r ^ c", dict(c=[True, False])),
    ("def t(k: Parameter[Qint[2]], a: Qint[2]) -> Qint[2]:\n\tk = k + a\n\treturn k + 1", dict(k=[0, 1, 3])),
    ("def t(c: Parameter[bool], a: bool, b: bool) -> bool:\n\tdef g(c: bool, y: bool) -> bool:\n\t\treturn c and not y\n\treturn g(a, b) ^ c", dict(c=[True, False])),
    # a sequence parameter RE-ASSIGNED to a display of another length / to other constants, then read with a variable index
    ("def t(c: Parameter[Qlist[bool, 2]], i: Qint[2]) -> bool:\n\tc = [c[1], c[0], c[1]]\n\treturn c[i]", dict(c=[[False, True], [True, False], [True, True]])),
    ("def t(c: Parameter[Qlist[Qint[2], 2]], i: Qint[2]) -> Qint[2]:\n\tc = [c[1], 3, c[0], 1]\n\treturn c[i]", dict(c=[[0, 2], [1, 3], [2, 2]])),
    ("def t(c: Parameter[Qlist[Qint[2], 3]], i: bool) -> Qint[2]:\n\tc = [c[2], c[0]]\n\treturn c[1] if i else c[0]", dict(c=[[0, 1, 2], [3, 1, 0]])),
    # parameters WITH DEFAULT VALUES bound to falsy values (rejected, or the bound value - never the default)
    ("def t(a: bool, b: bool, c: Parameter[bool] = True) -> bool:\n\treturn (a and b) ^ c", dict(c=[False, True])),
    ("def t(a: Qint[2], b: bool, k: Parameter[Qint[2]] = 3) -> Qint[2]:\n\treturn a + k if b else a", dict(k=[0, 1, 3])),
    # results that depend on the DECLARED width of the parameter (the value alone would be typed narrower)
    ("def t(c: Parameter[Qint[4]], a: Qint[4]) -> Qint[4]:\n\treturn (c << 2) + a", dict(c=[0, 1, 2, 3])),
    ("def t(c: Parameter[Qint[4]], a: Qint[2]) -> Qint[4]:\n\treturn c + a", dict(c=[1, 3, 5])),
    ("def t(c: Parameter[Qint[4]], a: Qint[4]) -> bool:\n\treturn (c + 3) > a", dict(c=[1, 2, 9])),
]


def declared(ann):
    """type tree of a Parameter[...] annotation: ('bool',) | ('int', w) | ('seq', [trees])"""
    if isinstance(ann, ast.Subscript) and ast.unparse(ann.value) == "Parameter":
        return declared(ann.slice)
    if isinstance(ann, ast.Name) and ann.id == "bool":
        return ("bool",)
    if isinstance(ann, ast.Subscript) and ast.unparse(ann.value) == "Qint":
        return ("int", int(ast.unparse(ann.slice)))
    if isinstance(ann, ast.Subscript) and ast.unparse(ann.value) == "Qlist":
        el, n = ann.slice.elts
        return ("seq", [declared(el)] * int(ast.unparse(n)))
    if isinstance(ann, ast.Subscript) and ast.unparse(ann.value) == "Tuple":
        els = ann.slice.elts if isinstance(ann.slice, ast.Tuple) else [ann.slice]
        return ("seq", [declared(e) for e in els])
    raise ValueError(f"parameter annotation not modelled: {ast.unparse(ann)}")


def to_ref(v, ty):
    """the parameter value in its DECLARED type (the property: 'the unbound Python function called with the parameters set to v' under the
    documented fixed-width types - the declared width is the parameter's width, whatever the value)"""
    if ty[0] == "bool":
        return bool(v)
    if ty[0] == "int":
        return pysem.SInt(ty[1], int(v))
    return tuple(to_ref(x, t) for x, t in zip(v, ty[1]))


def param_names(src):
    fd = ast.parse(src).body[0]
    return [a.arg for a in fd.args.args if "Parameter" in ast.unparse(a.annotation)], [a.arg for a in fd.args.args]


def param_types(src):
    fd = ast.parse(src).body[0]
    return {a.arg: declared(a.annotation) for a in fd.args.args if "Parameter" in ast.unparse(a.annotation)}


def build(entry, prof):
    from qlasskit import qlassf
    src, defs = entry[0], (entry[2] if len(entry) > 2 else [])
    return qlassf(src, to_compile=False, bool_optimizer=prof, defs=[qlassf(d, to_compile=False) for d in defs])


def check_bound(src, qf, kw, defs=()):
    """semantic clause for one binding; -> None or failure dict"""
    params, allargs = param_names(src)
    ptypes = param_types(src)
    ns = {}
    for d in defs:
        ns[ast.parse(d).body[0].name] = pysem.compile_reference(d, dict(ns))
    fn = pysem.compile_reference(src, ns)
    et = bounded.expr_tables(qf, 12)
    names, tabs, mask = et
    rets = list(qf.returns.bitvec)
    if any(tabs.get(r) is None for r in rets):
        return dict(observed=f"return bits undefined: {[r for r in rets if tabs.get(r) is None]}")
    if [a.name for a in qf.args] != [a for a in allargs if a not in params]:
        return dict(observed=f"bound function has arguments {[a.name for a in qf.args]}", expected=[a for a in allargs if a not in params])
    arg_types = [a.ttype for a in qf.args]
    n = len(names)
    for r in range(1 << n):
        row = [(r >> i) & 1 == 1 for i in range(n)]
        # build the full argument list in source order
        vals, k = {}, 0
        for a_, t_ in zip(qf.args, arg_types):
            v, used = pysem.to_spec(t_, row[k:])
            vals[a_.name] = v
            k += used
        full = [to_ref(kw[a], ptypes[a]) if a in params else vals[a] for a in allargs]
        pysem.Flag.overflow = False
        try:
            val = fn(*full)
            exp = pysem.to_bits(qf.returns.ttype, val)
        except pysem.Reject:
            continue
        except Exception:  # noqa
            continue
        if pysem.Flag.overflow:
            continue
        got = [(tabs[x] >> r) & 1 == 1 for x in rets]
        if got != exp:
            return dict(parameters=str(kw), input_bits=dict(zip(names, [int(b) for b in row])), observed_return_bits=[int(b) for b in got], expected_return_bits=[int(b) for b in exp])
    return None


def check_original_f(src, qf, kw):
    """the CLASSICAL face after the caller changed the list it had passed: original_f still computes with the values bound (plain ints / bools in, value out)"""
    params, allargs = param_names(src)
    fd = ast.parse(src).body[0]
    anns = {a.arg: ast.unparse(a.annotation) for a in fd.args.args}
    remaining = [a for a in allargs if a not in params]
    if any(anns[a] not in ("bool", "Qint[2]") for a in remaining) or "for " in src:
        return None
    fd2 = ast.parse(src)
    for a in fd2.body[0].args.args:
        a.annotation = None
    fd2.body[0].returns = None
    ns = {}
    exec(compile(fd2, "<ref>", "exec"), ns)
    ref = ns[fd.name]
    doms = [[False, True] if anns[a] == "bool" else [0, 1, 2, 3] for a in remaining]
    for vals in itertools.product(*doms):
        try:
            want = ref(**{**dict(zip(remaining, vals)), **kw})
        except Exception:  # noqa
            continue
        try:
            got = qf.original_f(*vals)
        except Exception as ex:  # noqa
            got = f"raises {type(ex).__name__}: {ex}"[:120]
        if got != want:
            return dict(parameters=str(kw), arguments=list(vals), observed=repr(got), expected=repr(want),
                        call="bound = qlassf(program).bind(**parameters); the caller then changes the list object it passed; bound.original_f(*arguments)")
    return None


def fp(qf):
    return ([(a.name, tuple(a.bitvec)) for a in qf.args], [(str(s), str(e)) for s, e in qf.expressions])


def job(a):
    idx, profile = a
    src, space = PROGRAMS[idx][:2]
    defs = PROGRAMS[idx][2] if len(PROGRAMS[idx]) > 2 else []
    from qlasskit import qlassf
    t0 = time.time()
    key = hashlib.sha1(src.encode()).hexdigest()[:8]
    base = dict(strength="bounded", backend="truth-table", program=src)
    prof = bounded.profiles()[profile]
    out = []
    uq = build(PROGRAMS[idx], prof)
    dump0 = ast.dump(uq.fun_ast)
    params0 = dict(uq.parameters)
    of0 = uq.original_f
    nodes0 = {id(n) for n in ast.walk(uq.fun_ast)}
    names = list(space)
    combos = list(itertools.product(*[space[n] for n in names]))
    # semantic clause for every parameter value (any keyword order)
    bad = None
    for ci, combo in enumerate(combos):
        kw = dict(zip(names, combo))
        if ci % 2:
            kw = dict(reversed(list(kw.items())))          # keyword order must not matter
        import copy as _copy
        kw_passed = _copy.deepcopy(kw)
        # sequence values may be handed over as any iterable (tuple / iterator / generator / reversed): the values are what is bound
        for k_ in list(kw_passed):
            v_ = kw_passed[k_]
            if isinstance(v_, (list, tuple)) and not any(isinstance(x_, (list, tuple)) for x_ in v_):
                how = ci % 4
                kw_passed[k_] = [list(v_), tuple(v_), iter(list(v_)), (x_ for x_ in list(v_))][how]
        try:
            qf = uq.bind(**kw_passed)
        except Exception as ex:  # noqa
            bad = dict(parameters=str(kw), observed=f"bind raises {type(ex).__name__}: {ex}"[:200])
            break
        # the caller goes on using (and changing) the objects it passed: the bound function must keep the values it was bound to
        for v_ in kw_passed.values():
            if isinstance(v_, list):
                for i_ in range(len(v_)):
                    v_[i_] = (not v_[i_]) if isinstance(v_[i_], bool) else (v_[i_] + 1 if isinstance(v_[i_], int) else v_[i_])
        f = check_bound(src, qf, kw, defs)
        if not f and callable(getattr(qf, "original_f", None)) and not defs and any(isinstance(v_, list) for v_ in kw.values()):
            f = check_original_f(src, qf, kw)
        if f:
            bad = f
            break
        if ast.dump(uq.fun_ast) != dump0 or dict(uq.parameters) != params0 or uq.original_f is not of0:
            bad = dict(parameters=str(kw), observed="bind altered the unbound object (fun_ast / parameters / original_f)")
            break
    nm = f"C08.bind.specialises[{profile},{key}]"
    out.append(res(nm, PROVED, secs=time.time() - t0, bindings=len(combos), nontrivial=True, **base) if not bad else
               res(nm, REFUTED, secs=time.time() - t0, replayed=True, replay=dict(program=src, profile=profile, **bad), **base))
    # history clause: v1, v2, v1 again, interleaved with another unbound object; each equals a bind on a fresh object
    other = build(PROGRAMS[(idx + 1) % len(PROGRAMS)], prof)
    ospace = PROGRAMS[(idx + 1) % len(PROGRAMS)][1]
    okw = {k: v[0] for k, v in ospace.items()}
    seq = [combos[0], combos[-1], combos[0], combos[len(combos) // 2], combos[0]]
    hist_bad = None
    for step, combo in enumerate(seq):
        kw = dict(zip(names, combo))
        got = fp(uq.bind(**kw))
        other.bind(**okw)
        fresh = fp(build(PROGRAMS[idx], prof).bind(**kw))
        if got != fresh:
            hist_bad = dict(history=[str(dict(zip(names, c))) for c in seq[:step + 1]], observed=str(got)[:500], expected=str(fresh)[:500])
            break
    nm = f"C08.bind.history-independent[{profile},{key}]"
    out.append(res(nm, PROVED, **base) if not hist_bad else res(nm, REFUTED, replayed=True, replay=dict(program=src, **hist_bad), **base))
    # frame: no AST node of the result's construction is shared with the unbound tree (the tree must not have grown)
    nm = f"C08.bind.frame[{profile},{key}]"
    same_nodes = {id(n) for n in ast.walk(uq.fun_ast)} == nodes0 and ast.dump(uq.fun_ast) == dump0
    out.append(res(nm, PROVED, **base) if same_nodes else res(nm, REFUTED, replayed=True, replay=dict(program=src, observed="fun_ast of the unbound object changed after binds"), **base))
    # raises on unknown / missing parameters
    nm = f"C08.bind.raises-on-bad-keywords[{profile},{key}]"
    probs = []
    for kw in ({**dict(zip(names, combos[0])), "zz_unknown": 1}, {} if names else None, dict(zip(names[:-1], combos[0][:-1])) if len(names) > 1 else None):
        if kw is None:
            continue
        try:
            uq.bind(**kw)
            probs.append(str(kw))
        except Exception:  # noqa
            pass
    out.append(res(nm, PROVED, **base) if not probs else res(nm, REFUTED, replayed=True, replay=dict(program=src, accepted=probs, expected="an exception"), **base))
    return out


def job_original_f(nm):
    """the CLASSICAL face of the bound function: bound.original_f(*remaining) is the unbound Python function with the parameters set,
    called positionally, for every binding (any keyword order), parameters in leading / middle / trailing position; decorated functions
    defined in a file (fallback path of bind) and source strings (re-executed path)."""
    from .. import c08_funcs
    out = []
    base = dict(strength="bounded", backend="native")
    ref, remaining, space = c08_funcs.REFS[nm]
    uq = getattr(c08_funcs, nm)
    names = list(space)
    bad = None
    n = 0
    for ci, combo in enumerate(itertools.product(*[space[k] for k in names])):
        kw = dict(zip(names, combo))
        if ci % 2:
            kw = dict(reversed(list(kw.items())))
        try:
            qf = uq.bind(**kw)
        except Exception as ex:  # noqa
            bad = dict(parameters=str(kw), observed=f"bind raises {type(ex).__name__}: {ex}"[:200])
            break
        for vals in itertools.product([False, True], repeat=len(remaining)):
            n += 1
            want = bool(ref(*vals, **kw))
            try:
                got = qf.original_f(*vals)
            except Exception as ex:  # noqa
                got = f"raises {type(ex).__name__}: {ex}"[:160]
            if got != want:
                bad = dict(parameters=str(kw), arguments=list(vals), observed=repr(got), expected=repr(want), call=f"vlib.c08_funcs.{nm}.bind(**parameters).original_f(*arguments)")
                break
        if bad:
            break
        # the expressions of the same binding
        et = bounded.expr_tables(qf, 12)
        tnames, tabs, mask = et
        for r in range(1 << len(tnames)):
            env = {tn: bool((r >> i) & 1) for i, tn in enumerate(tnames)}
            want = bool(ref(*[env[a] for a in remaining], **kw))
            got = (tabs[qf.returns.bitvec[0]] >> r) & 1 == 1
            if got != want:
                bad = dict(parameters=str(kw), input_bits=env, observed=got, expected=want, call="expressions of the bound function")
                break
        if bad:
            break
    name = f"C08.bind.original_f[decorated function in a file: {nm}]"
    out.append(res(name, PROVED, calls=n, **base) if not bad else res(name, REFUTED, replayed=True, replay=bad, **base))
    return out


def job_original_f_src(idx):
    """same clause for the programs given as source strings with boolean / small-integer arguments: plain Python values in, plain value out"""
    src, space = PROGRAMS[idx][:2]
    from qlasskit import qlassf
    base = dict(strength="bounded", backend="native", program=src)
    key = hashlib.sha1(src.encode()).hexdigest()[:8]
    name = f"C08.bind.original_f[source string,{key}]"
    params, allargs = param_names(src)
    fd = ast.parse(src).body[0]
    anns = {a.arg: ast.unparse(a.annotation) for a in fd.args.args}
    remaining = [a for a in allargs if a not in params]
    if len(PROGRAMS[idx]) > 2 or any(anns[a] not in ("bool", "Qint[2]") for a in remaining) or "for " in src:
        return []
    # the plain-Python reference: the source itself with annotations erased
    fd2 = ast.parse(src)
    for a in fd2.body[0].args.args:
        a.annotation = None
    fd2.body[0].returns = None
    ns = {}
    exec(compile(fd2, "<ref>", "exec"), ns)
    ref = ns[fd.name]
    uq = qlassf(src, to_compile=False)
    names = list(space)
    bad, n = None, 0
    for combo in itertools.product(*[space[k] for k in names]):
        kw = dict(zip(names, combo))
        qf = uq.bind(**kw)
        doms = [[False, True] if anns[a] == "bool" else [0, 1, 2, 3] for a in remaining]
        for vals in itertools.product(*doms):
            n += 1
            full = {**dict(zip(remaining, vals)), **kw}
            try:
                want = ref(**full)
            except Exception:  # noqa
                continue
            try:
                got = qf.original_f(*vals)
            except Exception as ex:  # noqa
                got = f"raises {type(ex).__name__}: {ex}"[:160]
            if got != want:
                bad = dict(parameters=str(kw), arguments=list(vals), observed=repr(got), expected=repr(want), call="qlassf(program).bind(**parameters).original_f(*arguments) vs the program run by CPython")
                break
        if bad:
            break
    return [res(name, PROVED, calls=n, **base) if not bad else res(name, REFUTED, replayed=True, replay=dict(program=src, **bad), **base)]


def _dispatch(j):
    f, a = j
    return f(a)


def run(tier, only=None):
    from qlasskit.qlassfun import UnboundQlassf
    rep = Report("C08", tier, "exploration", f"./check C08 --tier {tier}")
    jobs = [(job, (i, p)) for i in range(len(PROGRAMS)) for p in ("default", "fast")]
    jobs += [(job_original_f, nm) for nm in ("lead", "trail", "mid")]
    jobs += [(job_original_f_src, i) for i in range(len(PROGRAMS))]
    rep.add(run_pool(_dispatch, jobs))
    rep.under_contract(UnboundQlassf.bind)
    rep.rule = "one evaluation = one parameterised program x profile: every listed parameter value bound and the result compared with the reference on all remaining inputs; distinct = distinct program text"
    rep.extra.update(bounded=dict(family=f"{len(PROGRAMS)} parameterised programs (1-3 parameters: bool, Qint2/4, Qlist, Tuple; any keyword order) x all listed parameter values x both profiles; "
                                         "bind histories v1, v2, v1, v3, v1 interleaved with another unbound object", bound="listed programs", all_values=True))
    rep.assumptions = ["oracle: pysem of the unbound source with the parameter values as literals (typed like literals: smallest Qint holding them)", "bounded family"]
    rep.samples = [dict(name=r["name"], status=r["status"]) for r in rep.results[:6]]
    return rep


def replay(path):
    import sys
    from ..common import generic_replay
    return generic_replay(sys.modules[__name__], path)
