"""C01, layer T - the source-to-source pipeline `ast2ast` (ConstantFolder, ReplaceTypeAnn, ReplaceMultiTargetAssign, ASTRewriter: loop
unrolling, if -> conditional assignments, temporaries for self-referencing assignments, tuple assignments, len/min/max/sum/all/any over
literal and typed sequences, constant subscripts) under ONE contract:

    ensures   for ALL argument values:  python_meaning(ast2ast(P))(x) == python_meaning(P)(x)        (or ast2ast rejects P)

Both sides are Python (the rewritten tree still is), so the obligation is discharged by TRANSLATION VALIDATION with the same verifier that
executes the library: the real `ast2ast` runs on the real AST of P; P and the unparsed result are both executed symbolically by pyvc - booleans as
symbolic bools, integers as symbolic MATHEMATICAL integers (an argument declared Qint[w] ranges over 0..2^w-1; every intermediate and result is
unbounded: no width, no overflow - widths are the business of layers L1/L2; branches that contradict the path condition are pruned) - and for
every pair of paths z3 proves `pc_P and pc_P' => result_P == result_P'`.  A path on which P itself raises (e.g. a name bound on one branch only)
constrains nothing; a rewritten program that raises NameError is a program the translator rejects (an unbound temporary), not a mistranslation.

Programs: every program of the L3 family (harvested from the repository's tests, curated, generated) that stays inside what pyvc executes
symbolically (+, -, comparisons, boolean operators, conditionals, loops over constant ranges and literal/tuple-typed sequences, tuples, constant
subscripts).  A program outside it (products of two unknowns, shifts, bit operators on integers, indexing by an unknown, fixed point, chars) is
reported as not attempted - never counted.  Proved per PROGRAM for all inputs; the program family is finite."""
import ast
import copy
import hashlib
import linecache
import time

from ..common import PROVED, REFUTED, UNDECIDED, res

MOD = "qlasskit._verif_template"


def _strip(fd):
    fd = copy.deepcopy(fd)
    fd.returns = None
    fd.decorator_list = []
    for a in fd.args.args:
        a.annotation = None
    for n in ast.walk(fd):
        if isinstance(n, ast.FunctionDef) and n is not fd:
            n.returns = None
            for a in n.args.args:
                a.annotation = None
    # annotated assignments keep their value only
    class _Ann(ast.NodeTransformer):
        def visit_AnnAssign(self, n):
            if n.value is None:
                return None
            return ast.copy_location(ast.Assign(targets=[n.target], value=n.value), n)
    fd = _Ann().visit(fd)
    ast.fix_missing_locations(fd)
    return fd


def make_fn(fd, tag):
    """a real function object whose source pyvc can re-read (registered with linecache), living in a module name under the engine's prefix"""
    text = ast.unparse(fd) + "\n"
    fname = f"<c01-T-{tag}-{hashlib.sha1(text.encode()).hexdigest()[:10]}>"
    linecache.cache[fname] = (len(text), None, text.splitlines(True), fname)
    ns = {"__name__": MOD}
    exec(compile(text, fname, "exec"), ns)
    return ns[fd.name], text


def symbolic_args(fd, pyvc, z3):
    """-> (list of symbolic argument values, hypotheses) from the annotations; None if a type is outside this layer"""
    hyps = []

    def of(ann, name):
        txt = ast.unparse(ann)
        if txt == "bool":
            return pyvc.SymBool(z3.Bool(name))
        if txt.startswith("Qint"):
            v = z3.Int(name)
            hyps.append(v >= 0)
            try:
                w = int(txt[5:-1]) if txt.startswith("Qint[") else int(txt[4:])
                hyps.append(v < 2 ** w)          # an argument of type Qint[w] holds a w-bit value (results and intermediates stay unbounded)
            except ValueError:
                pass
            return pyvc.SymZ(v)
        if isinstance(ann, ast.Subscript) and ast.unparse(ann.value) in ("Tuple", "Qlist", "Qmatrix"):
            kind = ast.unparse(ann.value)
            if kind == "Tuple":
                els = ann.slice.elts if isinstance(ann.slice, ast.Tuple) else [ann.slice]
                return tuple(of(e, f"{name}.{i}") for i, e in enumerate(els))
            if kind == "Qlist":
                el, n = ann.slice.elts
                return tuple(of(el, f"{name}.{i}") for i in range(int(ast.unparse(n))))
            el, r, c = ann.slice.elts
            return tuple(tuple(of(el, f"{name}.{i}.{j}") for j in range(int(ast.unparse(c)))) for i in range(int(ast.unparse(r))))
        raise ValueError(txt)
    try:
        return [of(a.annotation, a.arg) for a in fd.args.args], hyps
    except (ValueError, AttributeError):
        return None, None


def _zeq(pyvc, z3, a, b):
    """z3 formula: the two results are the same Python value; None = structurally different"""
    if isinstance(a, (tuple, list)) or isinstance(b, (tuple, list)):
        if not (isinstance(a, (tuple, list)) and isinstance(b, (tuple, list))) or len(a) != len(b):
            return None
        parts = [_zeq(pyvc, z3, x, y) for x, y in zip(a, b)]
        return None if any(p is None for p in parts) else z3.And(*parts) if parts else z3.BoolVal(True)

    def num(x):
        if isinstance(x, pyvc.SymZ):
            return x.z
        if isinstance(x, pyvc.SymBool):
            return z3.If(x.z, z3.IntVal(1), z3.IntVal(0))
        if isinstance(x, bool):
            return z3.IntVal(int(x))
        if isinstance(x, int):
            return z3.IntVal(x)
        return None
    na, nb = num(a), num(b)
    if na is None or nb is None:
        return z3.BoolVal(True) if (type(a) is type(b) and a == b) else None
    # bool-ness must agree too (True vs 1 differ downstream: a bool is one bit, an integer at least two)
    ba, bb = isinstance(a, (bool, pyvc.SymBool)), isinstance(b, (bool, pyvc.SymBool))
    if ba != bb:
        return None
    return na == nb


class _Over(Exception):
    pass


def job(a):
    """cooperative 45 s budget per program (checked between solver calls - no alarm: an alarm firing inside a z3 ctypes call is not catchable cleanly)"""
    try:
        return _job(a)
    except _Over:
        origin, src = a
        key = hashlib.sha1(src.encode()).hexdigest()[:10]
        return [dict(name=f"C01.T.ast2ast.preserves-python-meaning[{origin},{key}]", status="x", strength="aux", backend="pyvc", secs=0, program=src,
                     why="over the 45 s budget of this layer (path explosion)")]


def _job(a):
    origin, src = a
    import z3
    from qlasskit.ast2ast import ast2ast
    from .. import pyvc
    t0 = time.time()
    key = hashlib.sha1(src.encode()).hexdigest()[:10]
    name = f"C01.T.ast2ast.preserves-python-meaning[{origin},{key}]"
    base = dict(strength="proved-class", backend="z3", function="qlasskit.ast2ast.ast2ast.ast2ast", program=src)
    skip = dict(name=name, status="x", strength="aux", backend="pyvc", secs=0, program=src)
    try:
        fd = ast.parse(src).body[0]
    except SyntaxError:
        return [dict(skip, why="not parseable")]
    if not isinstance(fd, ast.FunctionDef):
        return [dict(skip, why="not a function")]
    args, hyps = symbolic_args(fd, pyvc, z3)
    if args is None:
        return [dict(skip, why="argument types outside this layer (fixed point / char / user type)")]
    try:
        new = ast2ast(copy.deepcopy(fd))
    except Exception as ex:  # noqa - rejected by the pipeline: allowed
        return [dict(skip, why=f"rejected by ast2ast: {type(ex).__name__}")]
    try:
        f0, text0 = make_fn(_strip(fd), "orig")
        f1, text1 = make_fn(_strip(new), "new")
    except Exception as ex:  # noqa
        return [dict(skip, why=f"not executable as plain Python: {type(ex).__name__}: {ex}"[:120])]
    eng = pyvc.Engine()
    eng.opaque_symbols = False
    eng.prune = True
    eng.base_hyps = list(hyps)
    eng.int_uf = True          # bit operators / products of two unknowns as uninterpreted functions: enough to prove two programs EQUAL
    try:
        p0 = eng.explore(lambda vc: (f0, list(args), {}), max_paths=200)
        p1 = eng.explore(lambda vc: (f1, list(args), {}), max_paths=200)
    except pyvc.Unsupported as ex:
        return [dict(skip, why=f"outside pyvc's symbolic subset: {ex}"[:140])]
    except RecursionError:
        return [dict(skip, why="recursion limit")]
    ok0 = [p for p in p0 if p.kind == "return"]
    if not ok0:
        return [dict(skip, why=f"the program raises on every path when run as plain Python ({type(p0[0].value).__name__}: bit indexing / typed operations)")]
    pairs = 0
    for a_ in ok0:
        for b_ in p1:
            if time.time() - t0 > 45:
                raise _Over()
            hy = hyps + a_.hyps() + b_.hyps()
            if b_.kind != "return":
                if isinstance(b_.value, (NameError, UnboundLocalError)):
                    continue              # an unbound temporary: the translator rejects such a program
                st, model, _, _ = pyvc.solve(hy, z3.BoolVal(False), 10000)
                if st == PROVED:
                    continue              # infeasible combination
                goal = None
            else:
                goal = _zeq(pyvc, z3, a_.value, b_.value)
                if goal is not None:
                    st, model, _, _ = pyvc.solve(hy, goal, 10000)
                    pairs += 1
                    if st == PROVED:
                        continue
                else:
                    st, model, _, _ = pyvc.solve(hy, z3.BoolVal(False), 10000)
                    if st == PROVED:
                        continue
            if st != REFUTED:
                return [res(name, UNDECIDED, detail="solver undecided", **base)]
            # counter-model -> concrete inputs -> replay both programs natively (CPython), and the real pipeline once more
            def conc(v):
                if isinstance(v, tuple):
                    return tuple(conc(x) for x in v)
                if isinstance(v, pyvc.SymBool):
                    return bool(z3.is_true(model.eval(v.z, model_completion=True)))
                if isinstance(v, pyvc.SymZ):
                    return model.eval(v.z, model_completion=True).as_long()
                return v
            cargs = [conc(v) for v in args]

            def run(f):
                try:
                    return ("value", f(*cargs))
                except Exception as ex:  # noqa
                    return ("raises", type(ex).__name__)
            r0, r1 = run(f0), run(f1)
            differs = r0[0] == "value" and (r1 != r0 or (r1[0] == "value" and type(r1[1]) is not type(r0[1]))) and not (r1[0] == "raises" and r1[1] in ("NameError", "UnboundLocalError"))
            if not differs:
                if getattr(eng, "uf_applied", 0):
                    return [dict(skip, why="the only counter-models come from treating bit operators as uninterpreted (they do not replay): abstraction too coarse for this program")]
                return [res(name, UNDECIDED, detail=f"counter-model {cargs} does not replay natively ({r0} / {r1})", **base)]
            return [res(name, REFUTED, secs=time.time() - t0, replayed=True, solver_output=str(model)[:300],
                        replay=dict(program=src, arguments=[repr(c) for c in cargs], python_value_of_the_program=repr(r0), python_value_of_the_rewritten_program=repr(r1),
                                    rewritten_program=text1, call="ast2ast(ast.parse(program).body[0]) unparsed and run by CPython vs the program run by CPython (annotations erased)"), **base)]
    return [res(name, PROVED, secs=time.time() - t0, paths=(len(p0), len(p1)), path_pairs=pairs, **base)]
