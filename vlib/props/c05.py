"""C05 - values survive encode -> circuit -> decode.

Contracts (qlassfun.py, types/__init__.py, qcircuit/qcircuitwrapper.py):
  QlassF.encode_input(*v)   ensures the result has sum(len(arg)) characters and the character at distance k from the RIGHT end
                            is '1' iff bit k of the concatenation of the argument encodings (argument order, tuple-flattened,
                            each scalar by its C09 codec) is set
  QlassF.decode_output(s)   ensures the value of the return type whose bit k is the character k-from-the-right of s
  QlassF.input_qubits       = [0 .. sum(len(arg)));   output_qubits[k] = qubit_map[returns.bitvec[k]], defined and < num_qubits
  decode_counts             sums the counts of readings with equal decoded value
Round-trip lemma over the contracts: encode o "qubit i starts as character i-from-the-right" o C02.post o output_qubits o
"reading character k-from-the-right = qubit output_qubits[k]" o decode  =>  decoded value = f(v).

encode/decode are proved per signature shape by pyvc over SYMBOLIC values (all values at once); the end-to-end round trip on
real compiled circuits is a bounded family, exhaustive over argument values.
"""
import itertools
import time
import typing

import z3

from .. import bounded, common, pyvc, spec
from ..common import PROVED, REFUTED, UNDECIDED, Report, res, run_pool
from ..pyvc import SymBool, SymChar, SymStr
from . import c09


def scalar_types():
    from qlasskit.types import Qchar
    from qlasskit.types.qfixed import Qfixed1_2, Qfixed2_3
    from qlasskit.types.qint import Qint2, Qint3, Qint4
    return dict(bool=bool, Qint2=Qint2, Qint3=Qint3, Qint4=Qint4, Qfixed1_2=Qfixed1_2, Qfixed2_3=Qfixed2_3, Qchar=Qchar)


ANN = {"bool": "bool", "Qint2": "Qint[2]", "Qint3": "Qint[3]", "Qint4": "Qint[4]", "Qfixed1_2": "Qfixed[1,2]", "Qfixed2_3": "Qfixed[2,3]", "Qchar": "Qchar"}
CONST = {"bool": "True", "Qint2": "1", "Qint3": "Qint3(1)", "Qint4": "Qint4(1)", "Qfixed1_2": "Qfixed1_2(0.5)", "Qfixed2_3": "Qfixed2_3(0.5)", "Qchar": "'a'"}


def ann_of(t):
    """t: a scalar name, or ('T', [elts]) for Tuple, or ('L', elt, n) for Qlist"""
    if isinstance(t, str):
        return ANN[t]
    if t[0] == "T":
        return "Tuple[" + ", ".join(ann_of(x) for x in t[1]) + "]"
    return f"Qlist[{ann_of(t[1])}, {t[2]}]"


def const_of(t):
    if isinstance(t, str):
        return CONST[t]
    if t[0] == "T":
        return "(" + ", ".join(const_of(x) for x in t[1]) + ("," if len(t[1]) == 1 else "") + ")"
    return "[" + ", ".join(const_of(t[1]) for _ in range(t[2])) + "]"


def signature_shapes(tier):
    S = ["bool", "Qint2", "Qint4", "Qfixed1_2", "Qchar"]
    tup = [("T", ["Qint2", "bool"]), ("T", ["bool", "bool"]), ("T", ["bool", "Qint3", "Qfixed1_2"]), ("T", [("T", ["bool", "Qint2"]), "bool"]),
           ("L", "Qint2", 2), ("L", "bool", 3), ("T", [("L", "Qint2", 2), ("L", "Qint2", 2)]),
           # three nesting levels (an element that is a tuple of tuples / of lists)
           ("T", [("T", [("T", ["bool", "bool"]), "Qint2"]), "bool"]), ("T", ["bool", ("T", [("L", "bool", 2), ("T", ["Qint2", "bool"])])])]
    arg_sets = [[a] for a in S + tup]
    for a in S[:4] + tup[:2]:
        for b in S[:4] + tup[:2]:
            arg_sets.append([a, b])
    arg_sets += [["bool", "Qint2", "bool"], [tup[0], "Qint4", "bool"], ["Qint2", tup[3], "Qfixed1_2"]]
    rets = S + tup
    shapes = []
    for i, args in enumerate(arg_sets):
        shapes.append((args, rets[i % len(rets)]))
    if tier == "thorough":
        for args in arg_sets[::3]:
            for r in rets:
                shapes.append((args, r))
    return shapes


def build_qf(args, ret):
    src = "def sig(" + ", ".join(f"a{i}: {ann_of(t)}" for i, t in enumerate(args)) + f") -> {ann_of(ret)}:\n\treturn {const_of(ret)}"
    from qlasskit import qlassf
    return src, qlassf(src, to_compile=False)


class ValProxy:
    """a symbolic value of a Qtype: only its C09 contract is known (to_bin() spells its BIT_SIZE encoding bits)"""

    def __init__(self, T, name):
        self.T = T
        self.zs = [z3.Bool(f"{name}.{i}") for i in range(T.BIT_SIZE)]

    def to_bin(self):
        return SymStr([SymChar(z) for z in self.zs])


def sym_value(T, name):
    """-> (symbolic python value, flattened z3 bits in encoding order)"""
    args = typing.get_args(T)
    if args:
        vals, flat = [], []
        for i, a in enumerate(args):
            v, f = sym_value(a, f"{name}.{i}")
            vals.append(v)
            flat += f
        return tuple(vals), flat
    if T is bool:
        z = z3.Bool(name)
        return SymBool(z), [z]
    p = ValProxy(T, name)
    return p, list(p.zs)


def same_term(a, b):
    s = z3.Solver()
    s.add(a != b)
    return s.check() == z3.unsat


def job_sig(shape):
    args, ret = shape
    t0 = time.time()
    out = []
    try:
        src, qf = build_qf(args, ret)
    except Exception as ex:  # noqa
        return [res(f"C05.signature-accepted[{args}->{ret}]", PROVED, backend="native", nontrivial=False, note=f"signature rejected by the library: {type(ex).__name__}", strength="diagnostic")]
    sig = f"{', '.join(ann_of(a) for a in args)} -> {ann_of(ret)}"
    # ---- encode_input ---------------------------------------------------------------------------
    name = f"C05.encode_input.bit-order[{sig}]"
    vals, flat = [], []
    for i, a in enumerate(qf.args):
        v, f = sym_value(a.ttype, f"v{i}")
        vals.append(v)
        flat += f
    eng = pyvc.Engine()
    try:
        paths = eng.explore(lambda vc: (qf.encode_input, list(vals), {}))
        ok = len(paths) == 1 and paths[0].kind == "return"
        enc = paths[0].value if ok else None
        ok = ok and isinstance(enc, SymStr) and len(enc) == len(flat) == sum(len(a) for a in qf.args)
        if ok:
            for k in range(len(flat)):
                c = enc[len(enc) - 1 - k]
                if not (isinstance(c, SymChar) and same_term(c.z, flat[k])):
                    ok = False
                    break
        if ok:
            out.append(res(name, PROVED, backend="z3", secs=time.time() - t0))
        else:
            out.append(res(name, REFUTED, backend="pyvc", secs=time.time() - t0, replayed=True,
                           replay=_native_encode_cex(qf, sig), detail=f"symbolic result {enc!r}"[:300]))
    except pyvc.Unsupported as ex:
        out.append(res(name, UNDECIDED, backend="pyvc", detail=f"Unsupported: {ex}"))
    # ---- decode_output --------------------------------------------------------------------------
    from qlasskit.types import Qchar
    from qlasskit.types.qfixed import QfixedImp
    from qlasskit.types.qint import QintImp
    name = f"C05.decode_output.bit-order[{sig}]"
    n = len(qf.returns)
    zs = [z3.Bool(f"r{j}") for j in range(n)]
    eng = pyvc.Engine()
    for cls in (QintImp, QfixedImp, Qchar):
        eng.models[cls.from_bool.__func__] = lambda vc, f, v: c09.SpecVal(f.__self__, v)
    t1 = time.time()
    try:
        paths = eng.explore(lambda vc: (qf.decode_output, [SymStr([SymChar(z) for z in zs])], {}))
        exp, used = c09._expect_struct(qf.returns.ttype, list(reversed(zs)))
        ok = len(paths) == 1 and paths[0].kind == "return" and used == n and c09._match(paths[0].value, exp)
        if ok:
            out.append(res(name, PROVED, backend="z3", secs=time.time() - t1))
        else:
            out.append(res(name, REFUTED, backend="pyvc", secs=time.time() - t1, replayed=True,
                           replay=_native_decode_cex(qf, sig), detail=f"symbolic result {paths[0].value if paths else None!r}"[:300]))
    except pyvc.Unsupported as ex:
        out.append(res(name, UNDECIDED, backend="pyvc", detail=f"Unsupported: {ex}"))
    # ---- decode_output of a reading of the WHOLE register (what decode_counts receives from a simulator: leftmost character = highest qubit): only
    #      the trailing len(returns) characters count, whatever precedes them - the repository's algorithm wrappers and tests rely on it
    name = f"C05.decode_output.full-register-reading[{sig}]"
    for extra in (1, 3):
        xs = [z3.Bool(f"x{j}") for j in range(extra)]
        eng = pyvc.Engine()
        for cls in (QintImp, QfixedImp, Qchar):
            eng.models[cls.from_bool.__func__] = lambda vc, f, v: c09.SpecVal(f.__self__, v)
        try:
            paths = eng.explore(lambda vc: (qf.decode_output, [SymStr([SymChar(z) for z in xs + zs])], {}))
            exp, used = c09._expect_struct(qf.returns.ttype, list(reversed(zs)))
            ok = len(paths) == 1 and paths[0].kind == "return" and c09._match(paths[0].value, exp)
        except pyvc.Unsupported as ex:
            out.append(res(name, UNDECIDED, backend="pyvc", detail=f"Unsupported: {ex}"))
            break
        if not ok:
            rd = "1" * extra + "0" * (n - 1) + "1"
            try:
                got_long, got_short = qf.decode_output(rd), qf.decode_output(rd[extra:])
            except Exception as ex:  # noqa
                got_long, got_short = f"raises {type(ex).__name__}", None
            out.append(res(name, REFUTED, backend="pyvc", replayed=got_long != got_short,
                           replay=dict(signature=sig, reading=rd, observed=repr(got_long), expected=f"{got_short!r} (= decode_output({rd[extra:]!r}), the trailing {n} characters)"),
                           detail=f"symbolic result {paths[0].value if paths else None!r}"[:300], solver_output="structural mismatch"))
            break
    else:
        out.append(res(name, PROVED, backend="z3"))
    # ---- input_qubits ---------------------------------------------------------------------------
    name = f"C05.input_qubits.range[{sig}]"
    iq = qf.input_qubits
    nbits = sum(1 if t is bool else t.BIT_SIZE for a in qf.args for t in c09._flatten_type(a.ttype))
    if iq == list(range(nbits)) and [b for a in qf.args for b in a.bitvec] == _expected_bitnames(qf):
        out.append(res(name, PROVED, backend="native"))
    else:
        out.append(res(name, REFUTED, backend="native", replayed=True, replay=dict(signature=sig, observed=iq, bit_names=[b for a in qf.args for b in a.bitvec],
                                                                                 expected=list(range(nbits)), expected_names=_expected_bitnames(qf))))
    return out


def _expected_bitnames(qf):
    """argument bit names in argument order, tuple-flattened, LSB first: <arg>[.<i>...][.<bit>]"""
    def names(T, base):
        args = typing.get_args(T)
        if args:
            out = []
            for i, a in enumerate(args):
                out += names(a, f"{base}.{i}")
            return out
        if T is bool:
            return [base]
        return [f"{base}.{i}" for i in range(T.BIT_SIZE)]
    out = []
    for a in qf.args:
        out += names(a.ttype, a.name)
    return out


def lib_value(T, bits):
    """library value of type T from LSB-first bits (flattened)"""
    args = typing.get_args(T)
    if args:
        vals, k = [], 0
        for a in args:
            n = c09._size(a)
            vals.append(lib_value(a, bits[k:k + n]))
            k += n
        return tuple(vals)
    if T is bool:
        return bits[0]
    return T.from_bool(list(bits))


def lib_bits(T, v):
    args = typing.get_args(T)
    if args:
        out = []
        for a, x in zip(args, v):
            out += lib_bits(a, x)
        return out
    if T is bool:
        return [bool(v)]
    return list(v.to_bool())


def _native_encode_cex(qf, sig):
    import random
    rnd = random.Random(1)
    n = sum(len(a) for a in qf.args)
    for _ in range(64):
        bits = [rnd.random() < 0.5 for _ in range(n)]
        vals, k = [], 0
        for a in qf.args:
            vals.append(lib_value(a.ttype, bits[k:k + len(a)]))
            k += len(a)
        s = qf.encode_input(*vals)
        exp = "".join("1" if b else "0" for b in reversed(bits))
        if s != exp:
            return dict(signature=sig, argument_bits_lsb_first=bits, observed=s, expected=exp, call="QlassF.encode_input(*values)")
    return None


def _native_decode_cex(qf, sig):
    import random
    rnd = random.Random(2)
    n = len(qf.returns)
    for _ in range(64):
        bits = [rnd.random() < 0.5 for _ in range(n)]
        s = "".join("1" if b else "0" for b in reversed(bits))
        try:
            got = lib_bits(qf.returns.ttype, qf.decode_output(s))
        except Exception as ex:  # noqa
            return dict(signature=sig, reading=s, observed=f"raises {type(ex).__name__}: {ex}")
        if got != bits:
            return dict(signature=sig, reading=s, observed_bits=got, expected_bits=bits, call="QlassF.decode_output(reading)")
    return None


# ---- end to end on compiled circuits (bounded) ---------------------------------------------------------

def job_e2e(a):
    try:
        with bounded.time_budget(bounded.INSTANCE_BUDGET_S):
            return _job_e2e(a)
    except bounded.Budget:
        return []


def _job_e2e(a):
    origin, src = a[:2]
    profile = a[2] if len(a) > 2 else "default"
    t0 = time.time()
    import hashlib
    key = hashlib.sha1(src.encode()).hexdigest()[:10] + ("" if profile == "default" else ",fast")
    name = f"C05.round-trip[{origin},{key}]"
    base = dict(strength="bounded", backend="truth-table", instance_key=src, program=src)
    if "Q." in src or "Parameter[" in src:
        return []
    try:
        qf = bounded.front_end(src, profile, compile_=True)
    except Exception:  # noqa
        return []
    if not hasattr(qf, "expressions"):
        return []
    et = bounded.expr_tables(qf, 10)
    if et is None:
        return []
    names, tabs, mask = et
    rets = list(qf.returns.bitvec)
    out = []
    # output_qubits: defined, in range, in return-bit order
    try:
        oq = qf.output_qubits
        okq = oq == [qf.circuit().qubit_map[r] for r in rets] and all(0 <= q < qf.num_qubits for q in oq)
        detail = oq
    except Exception as ex:  # noqa
        okq, detail = False, f"raises {type(ex).__name__}: {ex}"
    nm = f"C05.output_qubits.defined-in-range[{origin},{key}]"
    if not okq:
        r = res(nm, REFUTED, replayed=True, replay=dict(program=src, observed=detail, expected="qubit_map[returns.bitvec[k]] for every k, each < num_qubits"), **base)
        if any(tabs.get(x) is None for x in rets) or not all(x in qf.circuit().qubit_map for x in rets):
            r["covered_by"] = "F-C05-return-tuple-variable"
        return [r]
    out.append(res(nm, PROVED, **base))
    if any(tabs.get(x) is None for x in rets):
        return out
    n = len(names)
    qc = qf.circuit()
    # input_qubits: the qubits the circuit reads its arguments from - the compiler gives argument bit k qubit k, whatever a later re-assignment of the
    # argument's NAME maps that name to
    nm0 = f"C05.input_qubits.argument-qubits[{origin},{key}]"
    try:
        iq = list(qf.input_qubits)
    except Exception as ex:  # noqa
        iq = f"raises {type(ex).__name__}: {ex}"
    if iq != list(range(n)):
        out.append(res(nm0, REFUTED, replayed=True, replay=dict(program=src, profile=profile, observed=iq, expected=list(range(n)), qubit_map=dict(qc.qubit_map),
                                                                 call="qlassf(program, bool_optimizer=profile).input_qubits"), **base))
        return out
    out.append(res(nm0, PROVED, **base))
    try:
        st, m = spec.csim_tables(qc.gates, qc.num_qubits, n)
    except ValueError:
        return out
    # two output bits share a qubit only if they always carry the same value
    nm2 = f"C05.output_qubits.shared-only-if-equal[{origin},{key}]"
    share_bad = None
    for i in range(len(rets)):
        for j in range(i + 1, len(rets)):
            if oq[i] == oq[j] and tabs[rets[i]] != tabs[rets[j]]:
                share_bad = (rets[i], rets[j], oq[i])
    if share_bad:
        out.append(res(nm2, REFUTED, replayed=True, replay=dict(program=src, observed=f"{share_bad[0]} and {share_bad[1]} both on qubit {share_bad[2]} but differ on some input"), **base))
    else:
        out.append(res(nm2, PROVED, **base))
    # round trip on every argument value
    bad = None
    attributed = False
    for r in range(1 << n):
        bits = [(r >> i) & 1 == 1 for i in range(n)]
        vals, k = [], 0
        for a_ in qf.args:
            vals.append(lib_value(a_.ttype, bits[k:k + len(a_)]))
            k += len(a_)
        s = qf.encode_input(*vals)
        init = [c == "1" for c in reversed(s)]                    # qubit i starts as the character i-from-the-right
        if init != bits:
            bad = dict(stage="encode_input", input_bits=bits, encoded=s)
            break
        meas = [(st[q] >> r) & 1 == 1 for q in oq]
        reading = "".join("1" if b else "0" for b in reversed(meas))   # character k-from-the-right = output qubit k
        expected = [(tabs[x] >> r) & 1 == 1 for x in rets]
        try:
            dec = qf.decode_output(reading)
            got = lib_bits(qf.returns.ttype, dec)
        except Exception as ex:  # noqa
            bad = dict(stage="decode_output", input_bits=bits, reading=reading, observed=f"raises {type(ex).__name__}: {ex}")
            break
        if got != expected:
            if meas != expected:
                attributed = True      # the circuit itself is wrong on this input: C02's business, not the codec's
                continue
            bad = dict(stage="decode_output", input_bits=bits, reading=reading, observed_bits=got, expected_bits=expected)
            break
    if bad:
        out.append(res(name, REFUTED, secs=time.time() - t0, replayed=True, replay=dict(program=src, **bad), **base))
    else:
        out.append(res(name, PROVED, secs=time.time() - t0, rows=1 << n, nontrivial=qc.num_gates > 0,
                       note="some rows attributed to a C02 failure of the circuit" if attributed else None, **base))
    return out


def job_counts(_):
    """decode_counts sums counts of readings with equal decoded value"""
    from qlasskit import qlassf
    name = "C05.decode_counts.sums-equal-values"
    qf = qlassf("def cnt(a: Qint[2]) -> Tuple[bool, Qint[2]]:\n\treturn (a[0], a)", to_compile=False)
    counts = {"101": 3, "001": 4, "111": 5, "000": 1}
    got = qf.decode_counts(counts)
    exp = {}
    for s, c in counts.items():
        v = qf.decode_output(s)
        exp[v] = exp.get(v, 0) + c
    ok = got == exp and sum(got.values()) == 13 and len(got) == 4
    got2 = qf.decode_counts({"101": 3, "001": 4}, discard_lower=4)
    ok = ok and list(got2.values()) == [4]
    if ok:
        return [res(name, PROVED, backend="native", strength="bounded")]
    return [res(name, REFUTED, backend="native", strength="bounded", replayed=True, replay=dict(counts=counts, observed=str(got), expected=str(exp)))]


def job_int_reading(_):
    """a reading handed over as an INTEGER (decode_output accepts str / int / list of bool): the integer r denotes the register contents whose
    binary numeral is r, i.e. the same value as the string of len(returns) characters spelling r.  A deviation that is exactly 'the numeral is
    padded on the right instead of the left' is named after the finding; anything else is not."""
    from qlasskit import qlassf
    out = []
    for ann, expr in (("Qint[2]", "a"), ("Qint[4]", "a + 0"), ("Tuple[bool, Qint[2]]", "(a[0], a)"), ("bool", "a[0]")):
        qf = qlassf(f"def rd(a: Qint[{4 if ann == 'Qint[4]' else 2}]) -> {ann}:\n\treturn {expr}", to_compile=False)
        n = len(qf.returns)
        bad, signature = None, True
        for r in range(1 << n):
            want = qf.decode_output(format(r, f"0{n}b"))
            try:
                got = qf.decode_output(r)
            except Exception as ex:  # noqa
                got = f"raises {type(ex).__name__}: {ex}"[:120]
            if got != want:
                bad = bad or dict(reading=r, observed=str(got), expected=str(want), same_reading_as_string=format(r, f"0{n}b"))
                try:
                    if got != qf.decode_output(format(r, "b").ljust(n, "0")):
                        signature = False
                except Exception:  # noqa
                    signature = False
        nm = f"C05.decode_output.int-reading[{ann}{', numeral padded on the right' if bad and signature else ''}]"
        out.append(res(nm, PROVED, backend="native", strength="bounded") if not bad else
                   res(nm, REFUTED, backend="native", strength="bounded", replayed=True, replay=dict(program=f"-> {ann}: return {expr}", call="qf.decode_output(<int>)", **bad)))
    return out


def set_partitions(n):
    """all partitions of range(n) as label lists (restricted growth strings)"""
    def rec(i, labels, mx):
        if i == n:
            yield list(labels)
            return
        for l in range(mx + 2):
            yield from rec(i + 1, labels + [l], max(mx, l))
    if n == 0:
        yield []
        return
    yield from rec(1, [0], 0)


def job_counts_proved(k):
    """decode_counts against its contract for ALL counts and ALL thresholds: k readings (k fixed), every partition of them into classes of equal
    decoded value (decode_output is replaced by its contract: it returns the class value), counts and discard_lower arbitrary integers.
      requires counts >= 0, discard_lower >= 0 (natural numbers)
      ensures  discard_lower None or 0:  result = { v: sum of the counts of the readings decoding to v }
               otherwise:                result = the same map restricted to the values whose SUM is >= discard_lower"""
    import z3
    from qlasskit.qcircuit.qcircuitwrapper import QCircuitWrapper
    from qlasskit.qlassfun import QlassF
    from .. import pyvc
    out = []
    for labels in set_partitions(k):
        for mode in ("none", "symbolic"):
            t0 = time.time()
            name = f"C05.decode_counts.contract[{k} readings, classes {''.join(map(str, labels))}, discard_lower {mode}]"
            readings = [format(i, "03b") + "x" for i in range(k)]          # opaque to the code: only decode_output may look at them
            value_of = {r: ("value", l) for r, l in zip(readings, labels)}
            eng = pyvc.Engine(modular=True)

            def dec(vc, f, args, kwargs):
                return value_of[args[0]]
            eng.contracts[QlassF.decode_output] = dec
            eng.contracts[QCircuitWrapper.decode_output] = dec
            cs = [z3.Int(f"c{i}") for i in range(k)]
            d = z3.Int("d")
            obj = object.__new__(QlassF)

            def mkcall(vc):
                counts = {r: pyvc.SymZ(c) for r, c in zip(readings, cs)}
                return (QCircuitWrapper.decode_counts, [obj, counts] + ([pyvc.SymZ(d)] if mode == "symbolic" else []), {})
            try:
                paths = eng.explore(mkcall)
            except pyvc.Unsupported as ex:
                out.append(res(name, UNDECIDED, strength="proved-class", backend="pyvc", detail=f"Unsupported: {ex}"))
                continue
            sums = {}
            for r, l, c in zip(readings, labels, cs):
                sums[("value", l)] = sums.get(("value", l), 0) + c
            bad = None
            npaths = 0
            for p_ in paths:
                npaths += 1
                if p_.kind != "return" or not isinstance(p_.value, dict):
                    bad = dict(observed=f"{p_.kind}: {p_.value!r}"[:300])
                    break
                goal = []
                for v, sm in sums.items():
                    keep = z3.BoolVal(True) if mode == "none" else z3.Or(d == 0, sm >= d)
                    if v in p_.value:
                        got = p_.value[v]
                        goal.append(z3.And(keep, (got.z if isinstance(got, pyvc.SymZ) else z3.IntVal(got)) == sm))
                    else:
                        goal.append(z3.Not(keep))
                if any(v not in sums for v in p_.value):
                    goal.append(z3.BoolVal(False))
                pre = [c >= 0 for c in cs] + [d >= 0]          # requires: counts and the threshold are natural numbers
                st, model, secs, backend = pyvc.solve(p_.hyps() + pre, z3.And(*goal) if goal else z3.BoolVal(True), 10000)
                if st != PROVED:
                    cv = {str(c): model.eval(c, model_completion=True).as_long() for c in cs} if model is not None else None
                    dv = model.eval(d, model_completion=True).as_long() if (model is not None and mode == "symbolic") else None
                    bad = dict(status=st, counts=cv, discard_lower=dv, classes=labels, result=str(p_.value)[:300])
                    break
            if bad is None and npaths:
                out.append(res(name, PROVED, strength="proved-class", backend="z3", secs=time.time() - t0, paths=npaths))
                continue
            # replay natively on the real method with a stub decode_output
            replayed, rp = False, None
            if bad and bad.get("counts") is not None:
                class Stub(QCircuitWrapper):
                    def __init__(self):
                        pass

                    def decode_output(self, e):
                        return value_of[e]
                cn = {r: bad["counts"][f"c{i}"] for i, r in enumerate(readings)}
                try:
                    got = Stub().decode_counts(cn, bad["discard_lower"]) if mode == "symbolic" else Stub().decode_counts(cn)
                except Exception as ex:  # noqa
                    got = f"raises {type(ex).__name__}: {ex}"
                exp = {}
                for r, c in cn.items():
                    exp[value_of[r]] = exp.get(value_of[r], 0) + c
                if mode == "symbolic" and bad["discard_lower"]:
                    exp = {v: c for v, c in exp.items() if c >= bad["discard_lower"]}
                replayed = got != exp
                rp = dict(counts={r: c for r, c in cn.items()}, decoded_value_of_each_reading={r: str(v) for r, v in value_of.items()}, discard_lower=bad["discard_lower"],
                          observed=str(got), expected=str(exp))
            status = REFUTED if (bad and bad.get("status") == REFUTED) or (bad and "observed" in bad) else UNDECIDED
            if status == REFUTED and bad.get("counts") is not None and not replayed:
                status = UNDECIDED      # the counter-model does not replay on the real code: engine problem, not a violation
            out.append(res(name, status, strength="proved-class", backend="z3", replayed=replayed, replay=rp, detail=str(bad)[:500], solver_output=str(bad)[:300]))
    return out


def _dispatch(j):
    f, a = j
    return f(a)


def run(tier, only=None):
    from qlasskit.qcircuit.qcircuitwrapper import QCircuitWrapper
    from qlasskit.qlassfun import QlassF
    from qlasskit.types import format_outcome, interpret_as_qtype
    from .c01_l3 import family
    rep = Report("C05", tier, "proof", f"./check C05 --tier {tier}")
    jobs = [(job_sig, s) for s in signature_shapes(tier)]
    jobs += [(job_counts, None), (job_int_reading, None)]
    for k in ((1, 2, 3) if tier == "quick" else (1, 2, 3, 4)):
        jobs.append((job_counts_proved, k))
    for origin, src in family(tier, seed=0):
        if origin != "outside":
            jobs.append((job_e2e, (origin, src)))
            if origin == "curated" or tier == "thorough":
                jobs.append((job_e2e, (origin, src, "fast")))
    rep.add(run_pool(_dispatch, jobs, chunksize=2))
    rep.under_contract(QlassF.encode_input, QlassF.decode_output, QlassF.input_qubits.fget, QlassF.output_qubits.fget, QCircuitWrapper.decode_counts,
                       format_outcome, interpret_as_qtype)
    rep.extra.update(shape_space=[dict(what="signatures of 1-3 arguments over bool/Qint/Qfixed/Qchar scalars, Tuple of <= 3 (up to three nesting levels), Qlist; symbolic values",
                                       complete="all values per signature shape; shapes are a finite sample of the type grammar")],
                     lemma="round trip = encode contract o qubit-order convention o C02.post o output_qubits contract o decode contract (composition of the proved clauses; "
                           "exercised end to end on the bounded program family)",
                     bounded=dict(family="C01-L3 program family compiled with the default profile", bound="<= 10 argument bits", all_values=True))
    rep.trusted = ["z3 (term identities)", "CPython executing the instrumented encode/decode source", "C09 contract of to_bin/from_bool (proved separately by exhaustion)"]
    rep.assumptions = ["the C09 codec contracts (to_bin spells the encoding LSB first; from_bool decodes it) are assumed here and proved under C09",
                       "the end-to-end round trip is a bounded family; a row on which the circuit itself is wrong is attributed to C02, not to the codecs",
                       "int / short-list readings (decode_output(5)) are outside the statement (a reading has one character per output qubit): not checked"]
    rep.explanation = "codec and bit-order contracts of encode_input/decode_output/input_qubits proved per signature shape over symbolic values; round trip on compiled circuits bounded"
    for r in rep.results[:4]:
        rep.samples.append({k: r.get(k) for k in ("name", "status", "backend")})
    return rep


def replay(path):
    import sys
    from ..common import generic_replay
    return generic_replay(sys.modules[__name__], path)
