"""C18 - the quadratic-model export has the function's minimisers as ground states.

PyQUBO is not installed in the sandbox: to_bqm runs against the STUB in /verif/stubs/pyqubo (assumed contract A6: Binary/And/Or/Not/Xor
evaluate to the 0/1 polynomial of their boolean meaning; the *Const gadgets are penalties that are 0 iff the constraint holds).  What is
verifiable is what the property's observe_at names: the expression tree handed to the modelling library, evaluated as a polynomial.

Contracts (bqm.py):
  SympyToBQM.visit(e)            ensures the polynomial returned evaluates, on every 0/1 assignment, to 1 iff den(e)  (or the call raises)
  to_bqm(args, returns, exprs, fmt)  ensures for every argument assignment x: min over the non-argument variables of E(x, aux) = number of true return bits,
                                 hence minimisers = the inputs making the fewest return bits true (energy 0 on the zeros of the function);
                                 variables = argument bits the function depends on + declared auxiliaries; every fmt accepted, an unknown one raises
  decode_samples(qf, sampleset)  per sample, each argument value is the C05 decoding of the sample's values for that argument's bits
Bounded family; complete over assignments."""
import itertools
import os
import sys
import time

from .. import bounded, common, spec
from ..common import PROVED, REFUTED, UNDECIDED, Report, res, run_pool
from . import c04


def use_stub():
    p = os.path.join(common.VERIF, "stubs")
    if p not in sys.path:
        sys.path.insert(0, p)
    import pyqubo
    if not getattr(pyqubo, "__doc__", "").startswith("STUB"):
        raise RuntimeError("a real pyqubo is importable: the C18 check is written against the stub")
    return pyqubo


def poly_table(poly, names):
    """value of a stub polynomial on all assignments of names (list of ints per row would be slow: evaluate row by row; <= 2^10 rows)"""
    n = len(names)
    vals = []
    for r in range(1 << n):
        s = {nm: (r >> i) & 1 for i, nm in enumerate(names)}
        vals.append(poly.energy(s))
    return vals


def job_visit(a):
    lo, hi = a
    pq = use_stub()
    from qlasskit.bqm import SympyToBQM
    from sympy import Symbol
    from sympy.logic import And, Not, Or, Xor, false, true
    import sympy
    sa, sb, sc, sd = [Symbol(x) for x in "abcd"]
    L = [sa, sb, sc, Not(sa), Not(sb), true, false]
    sk = []
    for op in (And, Xor, Or):
        for ar in (2, 3, 4):
            for args in itertools.product(L[:5], repeat=ar):
                sk.append(op(*args))
    reps = [And(sa, sb), Or(sa, sb), Xor(sa, sb), Not(And(sa, sb)), And(sa, Not(sb)), Xor(sa, sb, sc), And(sa, sb, sc), Or(sc, sd), Not(Xor(sc, sd)), sa, Not(sa), true, false]
    for op in (And, Xor, Or):
        for x, y in itertools.product(reps, repeat=2):
            sk.append(op(x, y))
        for x, y, z in itertools.product(reps[:7], repeat=3):
            sk.append(op(x, y, z))
    for x in reps:
        sk.append(Not(x))
    seen, uniq = set(), []
    for e in sk:
        if str(e) not in seen:
            seen.add(str(e))
            uniq.append(e)
    names = list("abcd")
    tabs, mask = spec.input_tables(names)
    a_vars = {n: pq.Binary(n) for n in names}
    fail, n, raised = None, 0, 0
    for e in uniq[lo:hi]:
        n += 1
        want = spec.sympy_table(e, None, tabs, mask)
        try:
            p = SympyToBQM(a_vars).visit(e)
        except Exception:  # noqa - a rejection is allowed (e.g. Or of more than two arguments)
            raised += 1
            continue
        p = pq.Poly.of(p) if not isinstance(p, pq.Poly) else p
        vals = poly_table(p, names)
        for r, v in enumerate(vals):
            if v != ((want >> r) & 1):
                fail = fail or dict(expression=str(e), assignment=dict(zip(names, bounded.row_bits(r, 4))), polynomial_value=v, expected=(want >> r) & 1)
                break
    return [dict(name="vchunk", status="x", strength="aux", backend="polynomial", secs=0, count=n, raised=raised, fail=fail, total=len(uniq))]


def induct_patterns():
    out = ["h0", "true", "false", "Not(h0)"]
    for op in ("And", "Xor", "Or"):
        for ar in (2, 3, 4, 5):
            out.append(f"{op}({', '.join('h%d' % i for i in range(ar))})")
        out += [f"{op}(h0, Not(h1))", f"{op}(Not(h0), h1, h2)", f"{op}(And(h0, h1), Or(h2, h3))", f"{op}(Xor(h0, h1), h2)"]
    out += ["Not(And(h0, h1))", "Not(Xor(h0, h1, h2))"]
    return out


def job_induct(mode):
    """STRUCTURAL-INDUCTION STEP of SympyToBQM.visit, discharged with pyvc + z3: the real method runs on a top-level node whose children are
    arbitrary sub-trees (pyvc.Hole) or symbols; every RECURSIVE self.visit(x) is replaced by its contract - it returns a fresh binary variable
    whose value is assumed to be the truth value of x - and the obligation is: the polynomial returned (PyQUBO stub semantics, A6) evaluates to
    1 exactly where the node is true, 0 elsewhere, for ALL values of the sub-terms.  With the base cases (symbol, constants) this is
    'polynomial = indicator' for trees of every depth.  A node kind the translator rejects (Or with more than two arguments) must raise."""
    import sympy
    import z3
    from sympy.logic import boolalg
    from qlasskit.bqm import SympyToBQM
    from .. import pyvc
    pq = use_stub()
    ns = dict(And=boolalg.And, Or=boolalg.Or, Not=boolalg.Not, Xor=boolalg.Xor, true=sympy.true, false=sympy.false)
    for i in range(5):
        ns[f"h{i}"] = sympy.Symbol(f"s{i}") if mode == "symbol" else pyvc.Hole(sympy.Symbol(f"k{i}"))
    out = []

    def poly_z3(pl):
        pl = pq.Poly.of(pl)
        tot = z3.IntVal(0)
        for mono, coef in pl.terms.items():
            cond = z3.And(*[z3.Bool(lbl) for lbl in sorted(mono)]) if mono else z3.BoolVal(True)
            tot = tot + z3.If(cond, z3.IntVal(int(coef)), z3.IntVal(0))
        return tot
    for src in induct_patterns():
        e = eval(src, {}, dict(ns))
        name = f"C18.SympyToBQM.visit.induction-step[{src}; sub-terms: {'symbols' if mode == 'symbol' else 'arbitrary trees'}]"
        base = dict(strength="proved-class", backend="z3", function="qlasskit.bqm.SympyToBQM.visit")
        if str(e) != src.replace("true", "True").replace("false", "False") and type(e).__name__ not in src[:4]:
            continue          # sympy evaluated the pattern into another kind of node
        eng = pyvc.Engine(modular=True)
        eng.opaque_symbols = False
        state = dict(top=False, k=0)

        def visit_contract(vc, f, args, kwargs):
            if not state["top"]:
                # the call under verification itself: run the real (instrumented) body
                state["top"] = True
                return eng.instr(f.__func__)(f.__self__, *args)
            state["k"] += 1
            lbl = f"sub{state['k']}"
            vc.assumed.append(z3.Bool(lbl) == pyvc.den(args[0]))
            return pq.Binary(lbl)
        eng.contracts[SympyToBQM.visit] = visit_contract
        syms = sorted({str(x) for x in e.free_symbols}) if mode == "symbol" else []
        a_vars = {n: pq.Binary(n) for n in syms}

        def mk(vc):
            state.update(top=False, k=0)
            return (SympyToBQM(a_vars).visit, [e], {})
        try:
            paths = eng.explore(mk)
        except pyvc.Unsupported as ex:
            out.append(res(name, UNDECIDED, detail=f"Unsupported: {ex}", **base))
            continue
        wide_or = isinstance(e, boolalg.Or) and len(e.args) > 2
        verdict = None
        for p_ in paths:
            if p_.kind != "return":
                if wide_or:
                    verdict = verdict or res(name, PROVED, note="rejected (Or of more than two arguments), as allowed", outcome="rejected", **base)
                else:
                    verdict = res(name, REFUTED, replayed=False, detail=f"raises {type(p_.value).__name__}: {p_.value}"[:200], solver_output="path raises", **base)
                continue
            try:
                got = poly_z3(p_.value)
            except Exception as ex:  # noqa
                verdict = res(name, REFUTED, replayed=False, detail=f"result is not a polynomial: {ex}"[:200], solver_output="n/a", **base)
                continue
            goal = got == z3.If(pyvc.sympy_to_z3(e), z3.IntVal(1), z3.IntVal(0))
            st, model, secs, backend = pyvc.solve(p_.hyps(), goal, 10000)
            if st == PROVED:
                verdict = verdict or res(name, PROVED, **base)
            elif st == REFUTED:
                # replay on the real recursive method with plain symbols, all assignments
                n = 5
                syms5 = [sympy.Symbol(f"s{i}") for i in range(n)]
                e2 = eval(src, {}, {**ns, **{f"h{i}": syms5[i] for i in range(n)}})
                pl = pq.Poly.of(SympyToBQM({f"s{i}": pq.Binary(f"s{i}") for i in range(n)}).visit(e2))
                rp = None
                for r in range(1 << n):
                    smp = {f"s{i}": (r >> i) & 1 for i in range(n)}
                    want = 1 if bool(e2.xreplace({syms5[i]: bool(smp[f"s{i}"]) for i in range(n)})) else 0
                    if pl.energy(smp) != want:
                        rp = dict(expression=str(e2), assignment=smp, polynomial_value=pl.energy(smp), expected=want, call="SympyToBQM(a_vars).visit(expression) against the PyQUBO stub")
                        break
                verdict = res(name, REFUTED, replayed=rp is not None, replay=rp, solver_output=str(model)[:300], **base) if rp else \
                    res(name, UNDECIDED, detail="counter-model does not replay on the real recursive method", **base)
            else:
                verdict = res(name, UNDECIDED, detail="solver: undecided", **base)
        if verdict is None:
            verdict = res(name, UNDECIDED, detail="no path", **base)
        out.append(verdict)
    return out


PROGRAMS = [
    "def t(a: bool) -> bool:\n\treturn not a",
    "def t(a: bool) -> bool:\n\treturn a",
    "def t(a: bool, b: bool) -> bool:\n\treturn a and b",
    "def t(a: bool, b: bool) -> bool:\n\treturn a or b",
    "def t(a: bool, b: bool) -> bool:\n\treturn a ^ b",
    "def t(a: bool, b: bool, c: bool) -> bool:\n\treturn (a and b) or c",
    "def t(a: bool, b: bool, c: bool) -> bool:\n\treturn a and b and c",
    "def t(a: bool, b: bool, c: bool) -> bool:\n\treturn (a or b or c) and not (a and b and c)",
    "def t(a: bool, b: bool) -> bool:\n\tc = a and b\n\treturn c ^ a",
    "def t(a: Qint[2]) -> bool:\n\treturn a == 2",
    "def t(a: Qint[2], b: Qint[2]) -> bool:\n\treturn a + b == 3",
    "def t(a: Qint[2], b: Qint[2]) -> bool:\n\treturn a > b",
    "def t(a: Qint[2], b: Qint[2]) -> Qint[2]:\n\treturn a + b",
    "def t(a: bool, b: bool) -> Tuple[bool, bool]:\n\treturn (a and b, a or b)",
    "def t(a: Qint[2]) -> Qint[2]:\n\treturn a",
    "def t(a: bool, b: bool) -> bool:\n\treturn True",
    "def t(a: Qint[4]) -> bool:\n\treturn a != 5 and a[0]",
    "def t(k: Parameter[Qint[2]], a: Qint[2]) -> bool:\n\treturn a != k",
    # functions whose OPTIMISED definition list keeps intermediate symbols (common sub-expressions), return bits equal to an intermediate, 3-ary intermediates
    "def t(a: Qint[2], b: Qint[2]) -> Qint[2]:\n\treturn a + b - 3",
    "def t(a: Qint[2]) -> Qint[2]:\n\treturn a + 3",
    "def t(a: Qint[2], b: bool) -> Qint[2]:\n\treturn a + 1 if b else a",
    "def t(a: Qint[2], b: Qint[2]) -> Qint[4]:\n\treturn a * b",
    "def t(a: Qint[2], b: Qint[2]) -> Qint[4]:\n\treturn Qint4(0) + a + b - 3",
    "def t(a: bool, b: bool, c: bool) -> Tuple[bool, bool, bool]:\n\td = a ^ b ^ c\n\treturn (d, d and a, d or (b and c))",
    # several return bits with the SAME expression; a function that is never all-false (no zero: the minimum is the fewest true bits)
    "def t(a: bool, b: bool) -> Tuple[bool, bool, bool]:\n\tm = a and b\n\treturn (m, m, not m)",
    "def t(a: bool, b: bool) -> Tuple[bool, bool]:\n\treturn (a ^ b, a ^ b)",
    "def t(a: Qint[2]) -> Tuple[bool, bool, bool]:\n\treturn (a == 1, a != 1, a == 1)",
]


def job_tobqm(a):
    idx, fmt = a
    pq = use_stub()
    from qlasskit import qlassf
    src = PROGRAMS[idx]
    import hashlib
    key = hashlib.sha1(src.encode()).hexdigest()[:8]
    name = f"C18.to_bqm.ground-states[{fmt},{key}]"
    base = dict(strength="bounded", backend="polynomial", program=src)
    qf = qlassf(src, to_compile=False)
    from qlasskit.qlassfun import UnboundQlassf
    if isinstance(qf, UnboundQlassf):
        qf = qf.bind(k=1)
    try:
        m = qf.to_bqm(fmt)
    except Exception as ex:  # noqa
        return [res(name, REFUTED, replayed=True, replay=dict(program=src, fmt=fmt, observed=f"raises {type(ex).__name__}: {ex}"[:200]), **base)]
    poly = m.poly if fmt == "pq_model" else m[1]
    tag_ok = (fmt == "pq_model") or m[0] == fmt
    names, tabs, mask = bounded.expr_tables(qf, 10)
    rets = list(qf.returns.bitvec)
    n = len(names)
    pvars = poly.variables()
    aux = [v for v in pvars if v not in names]
    # number of true return bits on every row
    out = []
    bad = None
    for r in range(1 << n):
        x = {nm: (r >> i) & 1 for i, nm in enumerate(names)}
        want = sum((tabs[b] >> r) & 1 for b in rets)
        best = None
        for av in itertools.product((0, 1), repeat=len(aux)):
            e = poly.energy({**x, **dict(zip(aux, av))})
            best = e if best is None or e < best else best
        if best != want:
            bad = dict(input_bits=x, min_energy=best, true_return_bits=want)
            break
    if bad or not tag_ok:
        out.append(res(name, REFUTED, replayed=True, replay=dict(program=src, fmt=fmt, polynomial=str(sorted((sorted(k), v) for k, v in poly.terms.items()))[:500],
                                                                 observed=bad or f"format tag {m[0]}", expected="min over auxiliaries of the energy = number of true return bits, for every input",
                                                                 call="QlassF.to_bqm(fmt) against the PyQUBO stub; polynomial evaluated on every assignment"), **base))
    else:
        out.append(res(name, PROVED, nontrivial=True, **base))
    # variables: argument bits the function depends on + declared auxiliaries (the return symbols)
    nm2 = f"C18.to_bqm.variables[{fmt},{key}]"
    dep = {x for x in names if any(_dep(tabs[b], names.index(x), n, mask) for b in rets)}
    declared = set(rets)
    mentioned = poly.mentioned()
    foreign = [v for v in mentioned if v not in names and v not in declared]
    missing = [v for v in dep if v not in mentioned]
    if foreign or missing:
        out.append(res(nm2, REFUTED, replayed=True, replay=dict(program=src, variables=pvars, foreign=foreign, missing_argument_bits=missing), **base))
    else:
        out.append(res(nm2, PROVED, **base))
    return out


def job_family(a):
    """the C01 L3 program family (tests / curated / generated; <= 8 argument bits) through to_bqm: min over the auxiliaries of the
    energy = number of true return bits, on every input.  A deviation that is EXACTLY the behaviour of a listed finding (a return bit
    that is a bare argument symbol contributes 0; nothing but constant return bits raises) is named after it; anything else is not."""
    chunk, fmts = a
    use_stub()
    from qlasskit import qlassf
    from qlasskit.qlassfun import UnboundQlassf
    from qlasskit.boolopt.bool_optimizer import merge_expressions
    from sympy import Symbol
    from sympy.logic.boolalg import BooleanFalse, BooleanTrue
    import hashlib
    out = []
    for origin, src in chunk:
        key = hashlib.sha1(src.encode()).hexdigest()[:8]
        base = dict(strength="bounded", backend="polynomial", program=src, instance_key=src)
        if "Q." in src or "Parameter[" in src:
            continue
        try:
            with bounded.time_budget(20):
                qf = qlassf(src, to_compile=False)
                if isinstance(qf, UnboundQlassf):
                    continue
                et = bounded.expr_tables(qf, 8)
                if et is None:
                    continue
                names, tabs, mask = et
                rets = list(qf.returns.bitvec)
                if any(tabs.get(b) is None for b in rets):
                    continue
                merged = dict((s_.name, e_) for s_, e_ in merge_expressions(qf.expressions))
        except bounded.Budget:
            continue
        except Exception:  # rejected programs: nothing to export
            continue
        n = len(names)
        bare = [b for b in rets if isinstance(merged.get(b), Symbol)]
        const = [b for b in rets if isinstance(merged.get(b), (BooleanTrue, BooleanFalse))]
        for fmt in fmts:
            shape = "plain"
            name = lambda sh: f"C18.to_bqm.ground-states.family[{sh},{fmt},{origin},{key}]"  # noqa: E731
            try:
                with bounded.time_budget(30):
                    try:
                        m = qf.to_bqm(fmt)
                    except bounded.Budget:
                        raise
                    except Exception as ex:  # noqa
                        sh = "constant-return" if len(const) == len(rets) and isinstance(ex, AttributeError) and "compile" in str(ex) else "plain"
                        out.append(res(name(sh), REFUTED, replayed=True, replay=dict(program=src, fmt=fmt, observed=f"raises {type(ex).__name__}: {ex}"[:200],
                                                                                      call="qlassf(program, to_compile=False).to_bqm(fmt) against the PyQUBO stub"), **base))
                        continue
                    poly = m.poly if fmt == "pq_model" else m[1]
                    pvars = poly.variables()
                    aux = [v for v in pvars if v not in names]
                    if len(aux) > 10:
                        continue
                    bad = None
                    defect_only = True
                    for r in range(1 << n):
                        x = {nm: (r >> i) & 1 for i, nm in enumerate(names)}
                        want = sum((tabs[b] >> r) & 1 for b in rets)
                        known = sum((tabs[b] >> r) & 1 for b in rets if b not in bare)
                        best = min(poly.energy({**x, **dict(zip(aux, av))}) for av in itertools.product((0, 1), repeat=len(aux)))
                        if best != want:
                            bad = bad or dict(input_bits=x, min_energy=best, true_return_bits=want)
                            if best != known:
                                defect_only = False
                                bad = dict(input_bits=x, min_energy=best, true_return_bits=want)
                                break
                    if bad:
                        sh = "bare-symbol-return" if (bare and defect_only) else "plain"
                        out.append(res(name(sh), REFUTED, replayed=True,
                                       replay=dict(program=src, fmt=fmt, polynomial=str(sorted((sorted(k), v) for k, v in poly.terms.items()))[:500], observed=bad,
                                                   bare_symbol_return_bits=bare, expected="min over auxiliaries of the energy = number of true return bits, for every input",
                                                   call="qlassf(program, to_compile=False).to_bqm(fmt) against the PyQUBO stub; polynomial evaluated on every assignment"), **base))
                        continue
                    dep = {x for x in names if any(_dep(tabs[b], names.index(x), n, mask) for b in rets)}
                    mentioned = poly.mentioned()
                    foreign = [v for v in mentioned if v not in names and v not in rets]
                    missing = [v for v in dep if v not in mentioned]
                    if foreign or missing:
                        out.append(res(f"C18.to_bqm.variables.family[{fmt},{origin},{key}]", REFUTED, replayed=True,
                                       replay=dict(program=src, fmt=fmt, variables=pvars, foreign=foreign, missing_argument_bits=missing), **base))
                        continue
                    out.append(res(name("plain"), PROVED, nontrivial=(0 < sum(bin(tabs[b] & mask).count("1") for b in rets) < len(rets) << n), **base))
            except bounded.Budget:
                continue
    return out


def _dep(t, i, n, mask):
    tabs, _ = spec.input_tables([f"v{k}" for k in range(n)])
    hi = tabs[f"v{i}"]
    return ((t & hi) >> (1 << i)) != (t & (mask ^ hi))


def job_misc(_):
    pq = use_stub()
    from qlasskit import qlassf
    from qlasskit.bqm import decode_samples
    out = []
    qf = qlassf("def t(a: Qint[2], b: bool) -> bool:\n\treturn a == 2 and b", to_compile=False)
    base = dict(strength="bounded", backend="native")
    try:
        qf.to_bqm("no-such-format")
        out.append(res("C18.to_bqm.unknown-format-raises", REFUTED, replayed=True, replay=dict(observed="accepted"), **base))
    except Exception:  # noqa
        out.append(res("C18.to_bqm.unknown-format-raises", PROVED, **base))
    # decode_samples: samples containing every argument bit
    bad = None
    for r in range(8):
        s = {"a.0": r & 1, "a.1": (r >> 1) & 1, "b": (r >> 2) & 1, "_ret": 0}
        ds = decode_samples(qf, [s])
        got = ds[0].sample
        exp_a = (r & 1) + 2 * ((r >> 1) & 1)
        if len(ds) != 1 or int(got["a"]) != exp_a or bool(got["b"]) != bool((r >> 2) & 1):
            bad = dict(sample=s, observed=str(got), expected=dict(a=exp_a, b=bool((r >> 2) & 1)))
            break
    out.append(res("C18.decode_samples.arguments-spelled-by-the-sample", PROVED, **base) if not bad else
               res("C18.decode_samples.arguments-spelled-by-the-sample", REFUTED, replayed=True, replay=bad, **base))
    # a sample SET: the i-th decoded entry belongs to the i-th sample (energies neither ascending nor descending, repeated samples)
    order = [5, 0, 7, 2, 2, 6, 1, 3, 4, 0]
    samples = [{"a.0": r & 1, "a.1": (r >> 1) & 1, "b": (r >> 2) & 1, "_ret": (i % 2)} for i, r in enumerate(order)]
    bad = None
    try:
        ds = decode_samples(qf, samples)
        if len(ds) != len(samples):
            bad = dict(observed=f"{len(ds)} entries for {len(samples)} samples")
        for i, (r, d_) in enumerate(zip(order, ds)):
            ea, eb = (r & 1) + 2 * ((r >> 1) & 1), bool((r >> 2) & 1)
            if not bad and (int(d_.sample["a"]) != ea or bool(d_.sample["b"]) != eb):
                bad = dict(samples=samples, position=i, observed=str(d_.sample), expected=dict(a=ea, b=eb))
    except Exception as ex:  # noqa
        bad = dict(observed=f"raises {type(ex).__name__}: {ex}"[:200])
    nm_ = "C18.decode_samples.entry-i-decodes-sample-i[10 samples, mixed energies]"
    out.append(res(nm_, PROVED, **base) if not bad else res(nm_, REFUTED, replayed=True, replay=bad, **base))
    # samples that LACK a variable (the model does not mention a bit the function does not depend on): the value of the missing bit is open, every
    # bit the sample does spell must sit at its own position; several arguments, a 3-bit argument, each bit missing in turn
    qf3 = qlassf("def t(a: Qint[3], b: Qint[2]) -> bool:\n\treturn a == 5 and b == 2", to_compile=False)
    allbits = ["a.0", "a.1", "a.2", "b.0", "b.1"]
    bad = None
    for missing in allbits:
        for r in range(32):
            full = {nm: (r >> i) & 1 for i, nm in enumerate(allbits)}
            s = {k: v for k, v in full.items() if k != missing}
            s["_ret"] = 0
            try:
                got = decode_samples(qf3, [s])[0].sample
                ga, gb = int(got["a"]), int(got["b"])
            except Exception as ex:  # noqa
                bad = dict(sample=s, observed=f"raises {type(ex).__name__}: {ex}"[:200])
                break
            for nm, gv in (("a", ga), ("b", gb)):
                for k in range(3 if nm == "a" else 2):
                    bit = f"{nm}.{k}"
                    if bit != missing and ((gv >> k) & 1) != full[bit]:
                        bad = dict(sample=s, missing_variable=missing, observed=dict(a=ga, b=gb), expected=f"bit {k} of {nm} = {full[bit]} (the sample's {bit})")
            if bad:
                break
        if bad:
            break
    nm_ = "C18.decode_samples.present-bits-keep-their-position[a variable missing from the sample]"
    out.append(res(nm_, PROVED, **base) if not bad else res(nm_, REFUTED, replayed=True, replay=bad, **base))
    return out


def _dispatch(j):
    f, a = j
    return f(a)


def run(tier, only=None):
    use_stub()
    from qlasskit.bqm import SympyToBQM, decode_samples, to_bqm
    rep = Report("C18", tier, "other", f"./check C18 --tier {tier}")
    jobs = [(job_visit, (lo, lo + 150)) for lo in range(0, 3000, 150)]
    for i in range(len(PROGRAMS)):
        for fmt in ("bqm", "ising", "qubo", "pq_model"):
            jobs.append((job_tobqm, (i, fmt)))
    jobs.append((job_misc, None))
    jobs += [(job_induct, "symbol"), (job_induct, "hole")]
    from . import c01_l3
    fam = [x for x in c01_l3.family(tier, front=True) if x[0] != "outside"]
    fmts = ("pq_model",) if tier == "quick" else ("bqm", "ising", "qubo", "pq_model")
    for lo in range(0, len(fam), 12):
        jobs.append((job_family, (fam[lo:lo + 12], fmts)))
    rs = run_pool(_dispatch, jobs)
    cnt = sum(r["count"] for r in rs if r.get("name") == "vchunk")
    raised = sum(r["raised"] for r in rs if r.get("name") == "vchunk")
    fail = next((r["fail"] for r in rs if r.get("name") == "vchunk" and r["fail"]), None)
    nm = "C18.SympyToBQM.visit.polynomial-is-the-indicator[skeletons]"
    if fail:
        rep.add([res(nm, REFUTED, strength="bounded", backend="polynomial", replayed=True, replay=fail, instances=cnt)])
    else:
        rep.add([res(nm, PROVED, strength="bounded", backend="polynomial", instances=cnt, rejected=raised, nontrivial=True)])
    rep.add([r for r in rs if r.get("name") != "vchunk"])
    rep.under_contract(SympyToBQM.visit, to_bqm, decode_samples)
    rep.rule = "skeleton trees through SympyToBQM.visit and programs through to_bqm (all formats), against the PyQUBO stub; every polynomial evaluated on all 0/1 assignments"
    rep.extra.update(evaluations=cnt + len(PROGRAMS) * 4, distinct_nontrivial=cnt + len(PROGRAMS),
                     bounded=dict(family="And/Xor/Or skeletons of arity 2-4 over literals and over 13 representative sub-terms, Not; 27 programs x 4 formats; the C01 L3 program family (tests, curated, generated) with <= 8 argument bits through to_bqm (quick: pq_model, thorough: all four formats)", bound="<= 4 holes, <= 10 argument bits (family: <= 8)", all_values=True))
    rep.assumptions = ["A6 PyQUBO is absent: the check runs against /verif/stubs/pyqubo, whose polynomial semantics of Binary/And/Or/Not/Xor/*Const is taken from PyQUBO's documentation - an ASSUMED contract on a dependency",
                       "compile() of the stub does not reduce the degree: the model is the polynomial of the expression tree qlasskit hands over (the property's observe_at); format conversions are the dependency's business",
                       "bounded family"]
    rep.explanation = "contracts of SympyToBQM.visit / to_bqm / decode_samples evaluated against a documented-semantics stub of the absent dependency; polynomials compared with the boolean meaning on all assignments"
    rep.samples = [dict(name=r["name"], status=r["status"]) for r in rep.results[:6]]
    return rep


def replay(path):
    import sys
    from ..common import generic_replay
    return generic_replay(sys.modules[__name__], path)
