"""C09 - type codecs are exact and mutually inverse.

Contracts (from the statement) on Qtype.to_bin/from_bin/__getitem__/export, {QintImp,QfixedImp,Qchar}
.from_bool/.to_bool/.const/.to_amplitudes, const_to_qtype, format_outcome, interpret_as_qtype.

(1) The domain of the scalar codecs is finite: every shipped type x every bit pattern of its width.
    The obligations are discharged by EXHAUSTION - the real functions are run on every pattern
    (complete, hence proved-class; back end `exhaustion`).
(2) interpret_as_qtype / format_outcome on nested Tuple/Qlist/Qmatrix types: pyvc obligation per
    type shape over a SYMBOLIC reading (all values at once), from_bool replaced by its contract.
"""
import typing
from fractions import Fraction

import z3

from .. import common, pyvc
from ..common import PROVED, REFUTED, Report, res, run_pool
from ..pyvc import SymChar, SymStr


def _types():
    from qlasskit.types import QFIXED_TYPES, QINT_TYPES, Qchar
    return list(QINT_TYPES) + list(QFIXED_TYPES) + [Qchar]


def spec_value(T, p):
    """the value a pattern denotes, from the documentation of the types"""
    from qlasskit.types import Qchar
    from qlasskit.types.qfixed import QfixedImp
    if issubclass(T, QfixedImp):
        I = T.BIT_SIZE_INTEGER
        v = Fraction(sum((1 << i) for i, b in enumerate(p[:I]) if b))
        for j, b in enumerate(p[I:]):
            if b:
                v += Fraction(1, 2 ** (j + 1))
        return v
    n = sum((1 << i) for i, b in enumerate(p) if b)
    return chr(n) if T is Qchar else n


CLAUSES = ("from_bool.to_bool.inverse", "from_bool.value", "const.equals-runtime-encoding", "to_bin.spells-to_bool",
           "from_bin.inverts-to_bin", "getitem.bit", "to_amplitudes.one-hot", "export.modes")


def check_pattern(T, n):
    """-> dict clause -> None (holds) or text of the failure"""
    from qlasskit.types import Qchar
    from qlasskit.types.qfixed import QfixedImp
    w = T.BIT_SIZE
    p = [(n >> i) & 1 == 1 for i in range(w)]
    out = {}

    def guard(name, fn):
        try:
            r = fn()
            out[name] = None if r is True else (r if isinstance(r, str) else "clause is false")
        except Exception as ex:  # noqa
            out[name] = f"raises {type(ex).__name__}: {ex}"[:160]
    v = T.from_bool(list(p))
    sv = spec_value(T, p)
    guard("from_bool.to_bool.inverse", lambda: v.to_bool() == p or f"to_bool gives {v.to_bool()}")
    if issubclass(T, QfixedImp):
        guard("from_bool.value", lambda: Fraction(v.value) == sv or f"value {v.value} expected {sv}")
        cv = float(sv)
    elif T is Qchar:
        guard("from_bool.value", lambda: v.value == sv or f"value {v.value!r} expected {sv!r}")
        cv = sv
    else:
        guard("from_bool.value", lambda: (v.value == sv and int(v) == sv) or f"value {v.value}/{int(v)} expected {sv}")
        cv = sv

    def c_const():
        t, bits = T.const(cv)
        bits = [bool(b) for b in bits]
        return (t is T and bits == p and bits == T(cv).to_bool()) or f"const({cv!r}) = {t.__name__},{bits}; runtime {T(cv).to_bool()}"
    guard("const.equals-runtime-encoding", c_const)
    guard("to_bin.spells-to_bool", lambda: v.to_bin() == "".join("1" if b else "0" for b in p) or f"to_bin {v.to_bin()}")
    guard("from_bin.inverts-to_bin", lambda: T.from_bin("".join("1" if b else "0" for b in p)).to_bool() == p)
    if T is not Qchar:   # Qchar is a str: v[i] is character indexing, not the bit accessor
        guard("getitem.bit", lambda: all(v[i] == p[i] for i in range(w)))

    def c_ampl():
        a = v.to_amplitudes()
        if len(a) != 2 ** w:
            return f"length {len(a)}"
        if a.count(0) != len(a) - 1 or a[n] != 1:
            hot = [i for i, x in enumerate(a) if x != 0]
            return f"one-hot index {hot}, expected {n} (bit k of the index = bit k of the encoding)"
        return True
    guard("to_amplitudes.one-hot", c_ampl)
    guard("export.modes", lambda: v.export("binary") == v.to_bin() and (w > 10 or v.export("amplitudes") == v.to_amplitudes()))
    return out


def _job_exh(a):
    T, lo, hi = a
    fails = {c: None for c in CLAUSES}
    cnt = 0
    for n in range(lo, hi):
        r = check_pattern(T, n)
        cnt += 1
        for c, why in r.items():
            if why is not None and fails[c] is None:
                fails[c] = (n, why)
    return [dict(name="chunk", status="x", strength="aux", backend="exhaustion", secs=0, T=T.__name__, fails=fails, count=cnt)]


# ---- const_to_qtype --------------------------------------------------------------------------

def _job_const(a):
    from qlasskit.types import const_to_qtype
    lo, hi = a
    bad = None
    from contracts.types_ops import smallest_qint
    for v in range(lo, hi):
        T = smallest_qint(v)
        try:
            t, bits = const_to_qtype(v)
            ok = T is not None and t is T and [bool(b) for b in bits] == [(v >> i) & 1 == 1 for i in range(T.BIT_SIZE)]
            why = f"const_to_qtype({v}) = {t.__name__},{bits}"
        except Exception as ex:  # noqa
            ok = T is None
            why = f"const_to_qtype({v}) raises {type(ex).__name__}"
        if not ok and bad is None:
            bad = (v, why)
    return [dict(name="constchunk", status="x", strength="aux", backend="exhaustion", secs=0, bad=bad, count=hi - lo)]


# ---- interpret_as_qtype on nested types: pyvc over a symbolic reading ----------------------------

class SpecVal:
    """ghost value returned by the contract of T.from_bool: remembers the type and the bits it was built from"""

    def __init__(self, T, bits):
        self.T, self.bits = T, list(bits)

    def __repr__(self):
        return f"<{self.T.__name__} {self.bits}>"


def _flatten_type(T):
    """[(scalar type, path)] in encoding order"""
    args = typing.get_args(T)
    if not args:
        return [T]
    out = []
    for a in args:
        out += _flatten_type(a)
    return out


def tuple_shapes(tier):
    from qlasskit.types import Qchar, Qlist, Qmatrix
    from qlasskit.types.qfixed import Qfixed1_2, Qfixed2_3
    from qlasskit.types.qint import Qint2, Qint3, Qint4
    base = [bool, Qint2, Qint3, Qfixed1_2, Qchar]
    Tu = typing.Tuple
    shapes = [bool] + base[1:] + [Qint4, Qfixed2_3]
    for a in base:
        for b in base:
            shapes.append(Tu[a, b])
    for a in base[:4]:
        for b in base[:4]:
            for c in base[:4]:
                if tier == "thorough" or (a, b, c).count(bool) <= 1:
                    shapes.append(Tu[a, b, c])
    for a in base[:4]:
        for b in base[:3]:
            shapes.append(Tu[Tu[a, b], b])
            shapes.append(Tu[a, Tu[b, a]])
            shapes.append(Tu[Tu[a, b], Tu[b, a]])
    shapes += [Qlist[Qint2, 3], Qlist[bool, 3], Qlist[Qint3, 2], Qmatrix[Qint2, 2, 2], Qmatrix[bool, 2, 2], Qmatrix[Qint2, 2, 3]]
    # three and four levels of nesting
    shapes += [Tu[Qmatrix[bool, 2, 2], Qint2], Tu[Tu[Tu[bool, Qint2], bool], Qint3], Tu[Qmatrix[Qint3, 1, 1], Qint2], Tu[Qint2, Tu[Tu[Qint2, bool], Tu[bool, Qint2]]],
               Tu[Tu[Tu[Tu[bool, bool], Qint2], bool], bool]]
    return shapes


def _expect_struct(T, chars_lsb, pos=0):
    """expected decoded structure over the LSB-first list of reading bits; returns (struct, next pos)"""
    args = typing.get_args(T)
    if not args:
        if T is bool:
            return ("bool", chars_lsb[pos]), pos + 1
        w = T.BIT_SIZE
        return ("val", T, chars_lsb[pos:pos + w]), pos + w
    out = []
    for a in args:
        s, pos = _expect_struct(a, chars_lsb, pos)
        out.append(s)
    return ("tuple", out), pos


def _match(got, exp):
    """compare decoded structure with the expected one; leaves are compared as z3 terms (identical up to simplification)"""
    kind = exp[0]
    if kind == "bool":
        g = got.z if isinstance(got, pyvc.SymBool) else (z3.BoolVal(bool(got)) if isinstance(got, bool) else None)
        if g is None:
            return False
        return _zeq(g, exp[1])
    if kind == "val":
        if not isinstance(got, SpecVal) or got.T is not exp[1] or len(got.bits) != len(exp[2]):
            return False
        return all(_zeq(_zb(a), b) for a, b in zip(got.bits, exp[2]))
    if not isinstance(got, tuple) or len(got) != len(exp[1]):
        return False
    return all(_match(g, e) for g, e in zip(got, exp[1]))


def _zb(x):
    if isinstance(x, pyvc.SymBool):
        return x.z
    if isinstance(x, bool):
        return z3.BoolVal(x)
    raise pyvc.Unsupported(f"bit of type {type(x).__name__}")


def _zeq(a, b):
    s = z3.Solver()
    s.add(a != b)
    return s.check() == z3.unsat


def _size(T):
    return sum(1 if t is bool else t.BIT_SIZE for t in _flatten_type(T))


def type_str(T):
    from qlasskit.types import type_repr
    try:
        return type_repr(T)
    except Exception:  # noqa
        return str(T)


def _job_interp(a):
    """interpret_as_qtype(reading, T, n) for a symbolic reading string of n characters"""
    import time
    from qlasskit.types import Qchar, interpret_as_qtype
    from qlasskit.types.qfixed import QfixedImp
    from qlasskit.types.qint import QintImp
    T, mode = a
    t0 = time.time()
    n = _size(T)
    eng = pyvc.Engine()
    for cls in (QintImp, QfixedImp, Qchar):
        eng.models[cls.from_bool.__func__] = lambda vc, f, v: SpecVal(f.__self__, v)
    zs = [z3.Bool(f"r{j}") for j in range(n)]        # r0 = leftmost character

    def mk(vc):
        if mode == "str":
            reading = SymStr([SymChar(z) for z in zs])
        else:
            reading = [pyvc.SymBool(z) for z in zs]
        return interpret_as_qtype, [reading, T, n], {}
    name = f"C09.interpret_as_qtype.inverts-concatenated-encodings[{type_str(T)},{mode}]"
    try:
        paths = eng.explore(mk)
    except pyvc.Unsupported as ex:
        return [res(name, common.UNDECIDED, backend="pyvc", secs=time.time() - t0, detail=f"Unsupported: {ex}")]
    lsb = list(reversed(zs))      # bit k of the reading = character k from the right
    exp, used = _expect_struct(T, lsb)
    ok = len(paths) == 1 and paths[0].kind == "return" and used == n and _match(paths[0].value, exp)
    if ok:
        return [res(name, PROVED, backend="z3", secs=time.time() - t0, paths=len(paths))]
    # exhibit a concrete reading natively
    rp = _native_interp_counterexample(T, n)
    return [res(name, REFUTED, backend="pyvc+native", secs=time.time() - t0, replay=rp, replayed=rp is not None,
                detail=f"symbolic result {paths[0].value if paths else None!r}"[:400])]


def _native_interp_counterexample(T, n):
    import random
    from qlasskit.types import interpret_as_qtype
    rnd = random.Random(1)
    cands = [[(k >> i) & 1 == 1 for i in range(n)] for k in range(min(2 ** n, 4096))] if n <= 12 else \
        [[rnd.random() < 0.5 for _ in range(n)] for _ in range(4096)]
    for bits in cands:      # bits LSB-first
        s = "".join("1" if b else "0" for b in reversed(bits))
        try:
            got = interpret_as_qtype(s, T, n)
            exp = _concrete_expect(T, bits)
            if not _conc_eq(got, exp):
                return dict(reading=s, type=type_str(T), observed=repr(got), expected=repr(exp))
        except Exception as ex:  # noqa
            return dict(reading=s, type=type_str(T), observed=f"raises {type(ex).__name__}: {ex}", expected="a value")
    return None


def _concrete_expect(T, bits, pos=0, top=True):
    args = typing.get_args(T)
    if not args:
        if T is bool:
            r = (bits[pos], pos + 1)
        else:
            r = (spec_value(T, bits[pos:pos + T.BIT_SIZE]), pos + T.BIT_SIZE)
    else:
        out = []
        for a in args:
            v, pos = _concrete_expect(a, bits, pos, False)
            out.append(v)
        r = (tuple(out), pos)
    return r[0] if top else r


def _conc_eq(got, exp):
    if isinstance(exp, tuple):
        return isinstance(got, tuple) and len(got) == len(exp) and all(_conc_eq(g, e) for g, e in zip(got, exp))
    if isinstance(exp, bool):
        return got is exp or got == exp
    if isinstance(exp, Fraction):
        return Fraction(getattr(got, "value", got)) == exp
    return getattr(got, "value", got) == exp


def run(tier, only=None):
    from qlasskit.types import const_to_qtype, format_outcome, interpret_as_qtype
    from qlasskit.types.qtype import Qtype, bin_to_bool_list, bool_list_to_bin
    rep = Report("C09", tier, "proof", f"./check C09 --tier {tier}")
    jobs = []
    for T in _types():
        N = 2 ** T.BIT_SIZE
        step = max(256, N // 32)
        for lo in range(0, N, step):
            jobs.append((_job_exh, (T, lo, min(N, lo + step))))
        rep.under_contract(T.from_bool, T.to_bool, T.const, T.to_amplitudes)
    rep.under_contract(Qtype.to_bin, Qtype.from_bin, Qtype.__getitem__, Qtype.export, bin_to_bool_list, bool_list_to_bin,
                       const_to_qtype, format_outcome, interpret_as_qtype)
    for lo in range(0, 65536 + 4096, 4096):
        jobs.append((_job_const, (lo, lo + 4096)))
    for T in tuple_shapes(tier):
        for mode in ("str", "list"):
            jobs.append((_job_interp, (T, mode)))
    rs = run_pool(_dispatch, jobs)
    # aggregate the exhaustive chunks: one obligation per (type, clause)
    agg = {}
    for r in rs:
        if r.get("name") == "chunk":
            for c, f in r["fails"].items():
                k = (r["T"], c)
                cur = agg.setdefault(k, dict(count=0, fail=None))
                cur["count"] += r["count"]
                if f is not None and (cur["fail"] is None or f[0] < cur["fail"][0]):
                    cur["fail"] = f
    for (tn, c), v in sorted(agg.items()):
        name = f"C09.{c}[{tn}]"
        if v["fail"] is None:
            rep.add([res(name, PROVED, backend="exhaustion", patterns=v["count"])])
        else:
            n, why = v["fail"]
            rep.add([res(name, REFUTED, backend="exhaustion", patterns=v["count"], replayed=True, instance_key=f"{tn}:{c}",
                         replay=dict(type=tn, pattern_lsb_first=format(n, "b")[::-1], pattern_int=n, observed=why,
                                     call=f"{tn}.from_bool(pattern) and the clause {c} on the real classes"))])
    cb = [r for r in rs if r.get("name") == "constchunk"]
    bad = sorted([r["bad"] for r in cb if r["bad"]], key=lambda x: x[0])
    name = "C09.const_to_qtype.int.smallest-type-exact[0..69631]"
    if not bad:
        rep.add([res(name, PROVED, backend="exhaustion", patterns=sum(r["count"] for r in cb))])
    else:
        rep.add([res(name, REFUTED, backend="exhaustion", replayed=True, replay=dict(value=bad[0][0], observed=bad[0][1]))])
    rep.add([r for r in rs if r.get("name") not in ("chunk", "constchunk")])
    rep.extra.update(exhaustive=True,
                     shape_space=[dict(what="23 shipped scalar types x all 2^w bit patterns", complete=True, patterns=sum(v["count"] for (t, c), v in agg.items() if c == CLAUSES[0])),
                                  dict(what="interpret_as_qtype: scalar, Tuple of <= 3 scalars, one nesting level, Qlist, Qmatrix shapes over a symbolic reading",
                                       complete="all values per shape; the set of shapes is a finite sample of an infinite type grammar")])
    rep.trusted = ["CPython 3.12 executing the real classes on every pattern", "z3 for the term identities of the symbolic readings"]
    rep.assumptions = ["A3 Qfixed values are dyadic rationals exactly representable as floats (checked: Fraction(value) equals the spec value on every pattern)",
                       "const_to_qtype on floats is covered under C01 (Constant skeletons), not here",
                       "the nested-type obligations quantify over all readings of one type shape; type shapes are sampled"]
    rep.explanation = "scalar codec clauses proved by exhaustion over every pattern of every shipped type; nested decoding proved per type shape for a symbolic reading"
    for r in rep.results[:3] + rep.results[-3:]:
        rep.samples.append({k: r.get(k) for k in ("name", "status", "backend", "patterns")})
    return rep


def _dispatch(job):
    fn, arg = job
    return fn(arg)


def replay(path):
    import json
    d = json.load(open(path))
    print(json.dumps(d.get("replay"), indent=1, default=str))
    rp = d.get("replay") or {}
    if "pattern_int" in rp:
        T = {t.__name__: t for t in _types()}[rp["type"]]
        r = check_pattern(T, rp["pattern_int"])
        bad = {c: w for c, w in r.items() if w}
        print("REPRODUCED" if bad else "not reproduced", bad)
        return 1 if bad else 0
    return 2
