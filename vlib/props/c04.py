"""C04 - boolean optimizer profiles preserve meaning.

Contracts (boolopt/sympytransformer.py, exp_transformers.py, bool_optimizer.py, CNF step of ast2logic/t_ast.py):
  T.visit(e) for T in remove_ITE, remove_Implies, transform_or2xor, transform_or2and, remove_obvious_expr:
        ensures den(visit(e)) = den(e)  and  free_symbols(visit(e)) subset of free_symbols(e)
        (shape postconditions - no ITE / Implies left, no Or of arity > 2 left anywhere - are DIAGNOSTIC here: C04 speaks about
         meaning only; they are the precondition C02 needs)
  custom_simplify_logic(e), simplify_logic(e, form='cnf'):  den preserved
  merge_expressions(L), apply_cse(L), BoolOptimizerProfile.apply(L) for defaultOptimizer, fastOptimizer and each single step:
        ensures the _ret* symbols of the result are exactly those of L, in order, each with the denotation it has in L read
                sequentially; every symbol used is an argument bit or defined earlier in the result (no free symbol introduced)

The rules are structural recursion over sympy trees: the real methods run natively on SKELETONS - real sympy trees over every node
kind with hole atoms (optionally negated / shared / constant) - and the result tree is compared with the skeleton on ALL assignments
of the holes (bit-parallel truth tables; complete).  Bounded in arity/depth (sympy's n-ary operators make the shape space infinite).
"""
import hashlib
import itertools
import random
import time

from .. import bounded, common, spec
from ..common import PROVED, REFUTED, UNDECIDED, Report, res, run_pool  # noqa

HOLES = ["a", "b", "c", "d"]


def leaf_alphabet():
    from sympy import Symbol
    from sympy.logic import Not, false, true
    syms = [Symbol(h) for h in HOLES[:3]]
    return syms + [Not(s) for s in syms] + [true, false]


def skeletons(tier):
    """real sympy trees: every node kind over the leaf alphabet (depth 1, arity <= 3), every node kind over a representative set
    of depth-1 terms (depth 2), plus seeded deeper trees"""
    from sympy import Symbol
    from sympy.logic import ITE, And, Implies, Not, Or, Xor
    L = leaf_alphabet()
    d1 = []
    for op in (And, Or, Xor):
        for ar in (2, 3):
            for args in itertools.product(L, repeat=ar):
                d1.append(op(*args, evaluate=False) if False else op(*args))
    for x in L:
        d1.append(Not(x))
    for args in itertools.product(L, repeat=3):
        d1.append(ITE(*args))
    for args in itertools.product(L, repeat=2):
        d1.append(Implies(*args))
    a, b, c, d = [Symbol(h) for h in HOLES]
    rep = [And(a, b), And(Not(a), Not(b)), And(a, Not(b)), And(a, b, c), And(Not(a), Not(b), Not(c)), Or(a, b), Or(a, b, c), Or(Not(a), b),
           Xor(a, b), Xor(a, b, c), Not(Xor(a, b)), Not(And(a, b)), Not(Not(a)), Not(a), a, b, c, ITE(a, b, c), ITE(a, Not(b), c),
           Implies(a, b), Implies(Not(a), c), And(b, a), And(c, d), Or(c, d), And(Not(b), Not(a)), Or(a, Not(a)), And(a, Not(a)), Or(And(a, b), c),
           And(Or(a, b), c), Or(a, b, c, d), And(a, b, c, d), Not(Or(a, b, c))]
    d2 = []
    for op in (And, Or, Xor):
        for x, y in itertools.product(rep, repeat=2):
            d2.append(op(x, y))
        for x, y, z in itertools.product(rep[:14], repeat=3):
            d2.append(op(x, y, z))
    for x in rep:
        d2.append(Not(x))
        for y in rep[:16]:
            d2.append(Implies(x, y))
            for z in rep[:8]:
                d2.append(ITE(x, y, z))
    out, seen = [], set()
    r = random.Random(12345)

    def rnd(depth):
        if depth == 0 or r.random() < 0.25:
            return r.choice(L[:6] + [d, Not(d)])
        k = r.random()
        if k < 0.25:
            return And(*[rnd(depth - 1) for _ in range(r.choice((2, 2, 3, 4)))])
        if k < 0.5:
            return Or(*[rnd(depth - 1) for _ in range(r.choice((2, 2, 3, 4)))])
        if k < 0.65:
            return Xor(*[rnd(depth - 1) for _ in range(r.choice((2, 3)))])
        if k < 0.78:
            return Not(rnd(depth - 1))
        if k < 0.9:
            return ITE(rnd(depth - 1), rnd(depth - 1), rnd(depth - 1))
        return Implies(rnd(depth - 1), rnd(depth - 1))
    deep = [rnd(3) for _ in range(1500 if tier == "quick" else 15000)] + [rnd(4) for _ in range(300 if tier == "quick" else 4000)]
    for e in d1 + d2 + deep:
        k = str(e)
        if k not in seen:
            seen.add(k)
            out.append(e)
    return out


def table(e, mask_tabs):
    tabs, mask = mask_tabs
    return spec.sympy_table(e, None, tabs, mask)


def transformers():
    from qlasskit.boolopt.exp_transformers import remove_Implies, remove_ITE, remove_obvious_expr, transform_or2and, transform_or2xor
    return [remove_ITE, remove_Implies, transform_or2xor, transform_or2and, remove_obvious_expr]


def job_skeletons(a):
    """one chunk of skeletons through every transformer, custom_simplify_logic and the CNF step"""
    lo, hi, tier = a
    from sympy import preorder_traversal
    from sympy.logic.boolalg import ITE, Implies, Or, simplify_logic
    from qlasskit.boolopt.bool_optimizer import custom_simplify_logic
    sk = skeletons(tier)[lo:hi]
    mt = spec.input_tables(HOLES)
    fails = {}
    counts = {}
    fired = {}
    diag = {}
    fns = [(T.__name__ + ".visit", (lambda T: (lambda e: T().visit(e)))(T)) for T in transformers()]
    fns.append(("custom_simplify_logic", custom_simplify_logic))
    fns.append(("simplify_logic[cnf]", lambda e: simplify_logic(e, form="cnf")))
    for e in sk:
        te = table(e, mt)
        for nm, f in fns:
            counts[nm] = counts.get(nm, 0) + 1
            try:
                o = f(e)
                ok = table(o, mt) == te and set(getattr(o, "free_symbols", set())) <= set(getattr(e, "free_symbols", set()))
                why = None if ok else dict(expression=str(e), result=str(o))
                if str(o) != str(e):
                    fired[nm] = fired.get(nm, 0) + 1
                # diagnostic shape postconditions
                if nm == "remove_ITE.visit" and any(isinstance(n, ITE) for n in preorder_traversal(o)):
                    diag["remove_ITE.post.no-ITE-left"] = diag.get("remove_ITE.post.no-ITE-left", str(e))
                if nm == "remove_Implies.visit" and any(isinstance(n, Implies) for n in preorder_traversal(o)):
                    diag["remove_Implies.post.no-Implies-left"] = diag.get("remove_Implies.post.no-Implies-left", str(e))
                if nm == "transform_or2and.visit" and any(isinstance(n, Or) and len(n.args) > 2 for n in preorder_traversal(o)):
                    diag["transform_or2and.post.no-Or-of-arity>2"] = diag.get("transform_or2and.post.no-Or-of-arity>2", str(e))
            except Exception as ex:  # noqa
                why = dict(expression=str(e), result=f"raises {type(ex).__name__}: {ex}"[:200])
            if why and nm not in fails:
                # exhibit one assignment
                try:
                    d = table(o, mt) ^ te
                    row = spec.first_row(d) if d else None
                    if row is not None:
                        why["assignment"] = dict(zip(HOLES, bounded.row_bits(row, len(HOLES))))
                except Exception:  # noqa
                    pass
                fails[nm] = why
    return [dict(name="chunk", status="x", strength="aux", backend="truth-table", secs=0, fails=fails, counts=counts, fired=fired, diag=diag)]


# ---- definition lists -------------------------------------------------------------------------------

def list_family(tier):
    """definition lists in PRE-optimizer form (ITE, Implies, n-ary operators, shared and re-defined intermediates, multi-bit returns,
    a user symbol whose name starts with _ret)"""
    r = random.Random(777)
    out = []

    def ex(vs, d):
        if d == 0 or r.random() < 0.3:
            v = r.choice(vs)
            return v if r.random() < 0.75 else f"Not({v})"
        k = r.random()
        if k < 0.22:
            return f"And({', '.join(ex(vs, d - 1) for _ in range(r.choice((2, 2, 3))))})"
        if k < 0.44:
            return f"Or({', '.join(ex(vs, d - 1) for _ in range(r.choice((2, 2, 3))))})"
        if k < 0.6:
            return f"Xor({ex(vs, d - 1)}, {ex(vs, d - 1)})"
        if k < 0.72:
            return f"Not({ex(vs, d - 1)})"
        if k < 0.88:
            return f"ITE({ex(vs, d - 1)}, {ex(vs, d - 1)}, {ex(vs, d - 1)})"
        return f"Implies({ex(vs, d - 1)}, {ex(vs, d - 1)})"
    n = 250 if tier == "quick" else 4000
    for i in range(n):
        nv = r.choice((2, 3, 4))
        vs = list("abcd"[:nv])
        defs, avail = [], list(vs)
        for j in range(r.choice((0, 1, 1, 2))):
            nm = r.choice((f"t{j}", f"x{j}", "t0"))          # "t0" twice = a re-defined intermediate
            defs.append((nm, ex(avail, r.choice((1, 2)))))
            if nm not in avail:
                avail.append(nm)
        nret = r.choice((1, 1, 2, 3))
        rn = ["_ret"] if nret == 1 else [f"_ret.{k}" for k in range(nret)]
        for k in range(nret):
            defs.append((rn[k], ex(avail, r.choice((1, 2, 3)))))
            # arbitrary well-formed lists may re-define an intermediate (or shadow an input) BETWEEN two return definitions:
            # an earlier return bit keeps the value it had when it was defined
            if k < nret - 1 and r.random() < 0.5:
                tgt = r.choice([a for a in avail if a not in vs] or avail)
                defs.append((tgt, ex(avail, r.choice((1, 2)))))
        out.append(dict(vars=vs, defs=defs, rets=rn))
    out += [
        dict(vars=["a", "b", "c"], defs=[("_ret", "Or(And(a, b, c), And(Not(a), Not(b), Not(c)))")], rets=["_ret"]),
        dict(vars=["a", "b"], defs=[("t0", "And(a, b)"), ("t0", "Not(t0)"), ("_ret", "Xor(t0, a)")], rets=["_ret"]),
        dict(vars=["a", "b"], defs=[("_ret.0", "ITE(a, b, Not(b))"), ("_ret.1", "Implies(a, b)")], rets=["_ret.0", "_ret.1"]),
        dict(vars=["a", "b", "c"], defs=[("t0", "Or(a, b, c)"), ("_ret", "Or(t0, And(a, b))")], rets=["_ret"]),
        dict(vars=["a"], defs=[("_ret", "a")], rets=["_ret"]),
        dict(vars=["a", "b", "c"], defs=[("t", "And(a, b)"), ("_ret.0", "Or(t, c)"), ("t", "Not(c)"), ("_ret.1", "Xor(t, a)")], rets=["_ret.0", "_ret.1"]),
        dict(vars=["a", "b"], defs=[("_ret.0", "And(a, b)"), ("a", "Not(a)"), ("_ret.1", "Or(a, b)")], rets=["_ret.0", "_ret.1"]),
        dict(vars=["a", "b"], defs=[("_ret", "true")], rets=["_ret"]),
    ]
    return out


def build(inst):
    from sympy import Symbol
    from sympy.logic import ITE, And, Implies, Not, Or, Xor, false, true
    ns = dict(And=And, Or=Or, Not=Not, Xor=Xor, ITE=ITE, Implies=Implies, true=true, false=false)
    for v in inst["vars"]:
        ns[v] = Symbol(v)
    exprs = []
    for nm, e in inst["defs"]:
        val = eval(e, {}, dict(ns))
        exprs.append((Symbol(nm), val))
        if nm.isidentifier():
            ns[nm] = Symbol(nm)
    return exprs


def seq_tables(exprs, in_names):
    """denotation of every _ret symbol reading the list sequentially; also reports use of an undefined symbol"""
    tabs, mask = spec.input_tables(in_names)
    rets, order = {}, []
    undefined = None
    for s, e in exprs:
        try:
            t = spec.sympy_table(e, None, tabs, mask)
        except KeyError as ex:
            t = None
            if s.name.startswith("_ret"):
                undefined = undefined or f"{s.name} uses undefined symbol {ex}"
        tabs[s.name] = t
        if s.name.startswith("_ret"):
            rets[s.name] = t
            if s.name not in order:
                order.append(s.name)
    return rets, order, undefined


def steps():
    from qlasskit.boolopt import defaultOptimizer, fastOptimizer
    from qlasskit.boolopt.bool_optimizer import BoolOptimizerProfile, apply_cse, merge_expressions
    out = [("defaultOptimizer.apply", defaultOptimizer.apply), ("fastOptimizer.apply", fastOptimizer.apply),
           ("merge_expressions", merge_expressions), ("apply_cse", apply_cse)]
    for T in transformers():
        out.append((f"BoolOptimizerProfile([{T.__name__}]).apply", BoolOptimizerProfile([T()]).apply))
    return out


def job_lists(a):
    lo, hi, tier, source = a
    if source == "generated":
        insts = list_family(tier)[lo:hi]
        items = [(repr(i), i["vars"], build(i)) for i in insts]
    else:
        items = []
        from .c01_l3 import family
        from qlasskit.ast2ast import ast2ast
        from qlasskit.ast2logic import translate_ast
        import ast as _ast
        progs = [s for o, s in family(tier, seed=0) if o != "outside"][lo:hi]
        for src in progs:
            if "Q." in src or "Parameter[" in src:
                continue
            try:
                fun = ast2ast(_ast.parse(src).body[0])
                nm, args, ret, exps = translate_ast(fun, [], [])
                names = [b for a_ in args for b in a_.bitvec]
                if len(names) <= 12:
                    items.append((src, names, list(exps)))
            except Exception:  # noqa
                continue
    fails, counts = {}, {}
    for key, names, exprs in items:
        r0, order0, undef0 = seq_tables(exprs, names)
        if undef0 or any(v is None for v in r0.values()):
            continue       # the input list itself is not well-formed: not an instance
        has_inter = any(not s.name.startswith("_ret") for s, _ in exprs)
        for nm, f in steps():
            if nm == "apply_cse":
                nm = "apply_cse(list with intermediates)" if has_inter else "apply_cse(list of return definitions only)"
            counts[nm] = counts.get(nm, 0) + 1
            try:
                out = f(list(exprs))
                r1, order1, undef1 = seq_tables(out, names)
                why = None
                if order1 != order0:
                    why = f"return symbols {order1} instead of {order0}"
                elif undef1:
                    why = f"free symbol introduced: {undef1}"
                else:
                    for k in order0:
                        if r1[k] != r0[k]:
                            row = spec.first_row(r1[k] ^ r0[k])
                            why = f"{k} differs at {dict(zip(names, bounded.row_bits(row, len(names))))}"
                            break
                if why and nm not in fails:
                    fails[nm] = dict(instance=key if len(key) < 600 else key[:600], definitions=[f"{s} = {e}" for s, e in exprs][:12],
                                     result=[f"{s} = {e}" for s, e in out][:12], observed=why)
            except Exception as ex:  # noqa
                if nm not in fails:
                    fails[nm] = dict(instance=key[:600], definitions=[f"{s} = {e}" for s, e in exprs][:12], observed=f"raises {type(ex).__name__}: {ex}"[:300])
    return [dict(name="lchunk", status="x", strength="aux", backend="truth-table", secs=0, fails=fails, counts=counts, source=source)]


# ---- structural induction STEP, proved per rule and top-level pattern (pyvc, modular over the contract of visit) ------------------

def induct_patterns():
    """(method name, constructor source over the hole names) - every node kind with arity 1..4 over opaque children, plus the patterns whose
    side conditions the rules test (equal / negated / symbol / compound children)."""
    H = ["h0", "h1", "h2", "h3"]
    kids = ["h0", "h1", "Not(h0)", "Not(h1)", "And(h2, h3)", "Or(h2, h3)", "Xor(h2, h3)", "Not(Or(h0, h1))", "Not(And(h0, h1))", "Not(Xor(h1, h2))"]
    pats = []
    for op, m in (("And", "visit_And"), ("Or", "visit_Or"), ("Xor", "visit_Xor")):
        for ar in (2, 3, 4):
            pats.append((m, f"{op}({', '.join(H[:ar])})"))
        for x in kids:
            for y in kids:
                if x != y:
                    pats.append((m, f"{op}({x}, {y})"))
        pats.append((m, f"{op}(And(h0, h1), Not(h0), h2)"))
    # the or2xor pattern and its near misses: Or(And(p, q), And(r, s)) with every equal / negated combination, and 3-literal conjunctions
    lits = ["h0", "h1", "Not(h0)", "Not(h1)", "h2"]
    for p_ in lits:
        for q_ in lits:
            for r_ in lits:
                for s_ in lits:
                    if p_ != q_ and r_ != s_:
                        pats.append(("visit_Or", f"Or(And({p_}, {q_}), And({r_}, {s_}))"))
    pats += [("visit_Or", "Or(And(h0, h1, h2), And(Not(h0), Not(h1), Not(h2)))"), ("visit_Or", "Or(And(h0, h1), And(Not(h0), Not(h1)), h2)"),
             ("visit_Or", "Or(And(h0, Or(h1, h2)), And(Not(h0), Not(Or(h1, h2))))")]
    for x in kids + ["Not(Not(h0))", "Not(And(h0, h1))", "true", "false"]:
        pats.append(("visit_Not", f"Not({x}, evaluate=False)"))
    for c in ("h0", "Not(h0)", "And(h0, h1)"):
        for t in ("h1", "Not(h1)", "Or(h2, h3)", "true"):
            for e in ("h2", "Not(h1)", "h1", "false"):
                pats.append(("visit_ITE", f"ITE({c}, {t}, {e}, evaluate=False)"))
                pats.append(("visit_Implies", f"Implies({c}, {t}, evaluate=False)"))
    seen, out = set(), []
    for p_ in pats:
        if p_ not in seen:
            seen.add(p_)
            out.append(p_)
    return out


def native_replay_induct(T, src):
    """Replay of a refuted induction step on the REAL code: the pattern over plain symbols, the real recursive visit, all assignments."""
    import sympy
    from sympy.logic import boolalg
    ns = dict(And=boolalg.And, Or=boolalg.Or, Not=boolalg.Not, Xor=boolalg.Xor, ITE=boolalg.ITE, Implies=boolalg.Implies, true=sympy.true, false=sympy.false)
    syms = [sympy.Symbol(f"h{i}") for i in range(4)]
    ns.update({f"h{i}": syms[i] for i in range(4)})
    try:
        e = eval(src, {}, ns)
        got = T().visit(e)
        for r in range(16):
            env = {syms[i]: bool((r >> i) & 1) for i in range(4)}
            a, b = bool(e.xreplace(env)), bool(sympy.sympify(got).xreplace(env))
            if a != b:
                return dict(replayed=True, replay=dict(transformer=T.__name__, expression=str(e), visit_returns=str(got), assignment={str(k): v for k, v in env.items()},
                                                      value_before=a, value_after=b))
        return dict(replayed=False, native=f"{T.__name__}().visit({e}) = {got} is equivalent on all 16 assignments")
    except Exception as ex:  # noqa
        return dict(replayed=False, native=f"native run raises {type(ex).__name__}: {ex}"[:200])


def job_induct(a):
    """One rule (transformer class x visit_<Kind>) on its patterns.  The recursive call self.visit(x) is REPLACED BY ITS CONTRACT (a fresh opaque
    formula with the denotation of x), so each discharged obligation is the induction step 'sub-terms correct => node correct' for ARBITRARY
    sub-terms: together they give den(visit(e)) = den(e) for trees of every depth (arity <= 4, top-level patterns as enumerated)."""
    import sympy
    import z3
    from sympy.logic import boolalg
    from qlasskit.boolopt import SympyTransformer
    from .. import pyvc
    tname, lo, hi, mode = a
    T = {t.__name__: t for t in transformers()}[tname] if tname != "SympyTransformer" else SympyTransformer
    ns = dict(And=boolalg.And, Or=boolalg.Or, Not=boolalg.Not, Xor=boolalg.Xor, ITE=boolalg.ITE, Implies=boolalg.Implies, true=sympy.true, false=sympy.false)
    for i in range(4):
        ns[f"h{i}"] = sympy.Symbol(f"h{i}") if mode == "symbol" else pyvc.Hole(sympy.Symbol(f"k{i}"))
    out = []
    fails = {}
    counts = {}
    if lo == 0:
        # the dispatcher itself, against the contracts of the visit_<Kind> methods: every node kind reaches a method whose contract preserves the
        # denotation, or is returned unchanged
        key = f"{tname}.visit[dispatch; sub-terms: {'symbols' if mode == 'symbol' else 'opaque trees'}]"
        for src in ("And(h0, h1)", "Or(h0, h1, h2)", "Not(h0)", "Xor(h0, h1)", "ITE(h0, h1, h2, evaluate=False)", "Implies(h0, h1, evaluate=False)", "h0", "true", "false",
                    "Not(And(h0, h1))", "And(Or(h0, h1), Not(h2))"):
            e = eval(src, {}, dict(ns))
            eng = pyvc.Engine(modular=True)
            eng.opaque_symbols = False

            def mk_kind_contract(k_):
                def kind_contract(vc, f, args, kwargs):
                    fresh = pyvc.SymExpr(z3.Bool(vc.fresh_name("kind")))
                    if type(args[0]) is ns[k_]:          # requires: the node is of the method's kind (else nothing is promised)
                        vc.assumed.append(fresh.z == pyvc.den(args[0]))
                    return fresh
                return kind_contract
            for k_ in ("And", "Or", "Not", "Xor", "ITE", "Implies"):
                eng.contracts[getattr(T, "visit_" + k_)] = mk_kind_contract(k_)
            counts[key] = counts.get(key, 0) + 1
            try:
                for p_ in eng.explore(lambda vc: (T().visit, [e], {})):
                    if p_.kind != "return":
                        fails.setdefault(key, dict(pattern=src, observed=f"raises {type(p_.value).__name__}: {p_.value}"[:200]))
                        continue
                    st, model, secs, backend = pyvc.solve(p_.hyps(), pyvc.den(p_.value) == pyvc.sympy_to_z3(e), 10000)
                    if st != PROVED:
                        f = dict(pattern=src, result=str(p_.value)[:200], solver_output=str(model)[:300], undecided=(st != REFUTED))
                        if st == REFUTED:
                            f.update(native_replay_induct(T, src))
                        fails.setdefault(key, f)
            except pyvc.Unsupported as ex:
                fails.setdefault(key, dict(pattern=src, observed=f"Unsupported: {ex}", undecided=True))
    for meth, src in induct_patterns()[lo:hi]:
        try:
            e = eval(src, {}, dict(ns))
        except Exception:  # noqa - sympy refuses the construction
            continue
        kind = meth[len("visit_"):]
        if type(e).__name__ != kind:
            continue          # sympy's own evaluation turned the pattern into another node kind: covered under that kind
        eng = pyvc.Engine(modular=True)
        eng.opaque_symbols = False

        def visit_contract(vc, f, args, kwargs):
            x = args[0]
            fresh = pyvc.SymExpr(z3.Bool(vc.fresh_name("visit")))
            vc.assumed.append(fresh.z == pyvc.den(x))
            return fresh
        eng.contracts[SympyTransformer.visit] = visit_contract
        key = f"{tname}.{meth}[sub-terms: {'symbols' if mode == 'symbol' else 'opaque trees'}]"
        counts[key] = counts.get(key, 0) + 1
        try:
            paths = eng.explore(lambda vc: (getattr(T(), meth), [e], {}))
        except pyvc.Unsupported as ex:
            fails.setdefault(key, dict(pattern=src, observed=f"Unsupported: {ex}", undecided=True))
            continue
        for p_ in paths:
            if p_.kind != "return":
                fails.setdefault(key, dict(pattern=src, observed=f"raises {type(p_.value).__name__}: {p_.value}"[:200]))
                continue
            try:
                got = pyvc.den(p_.value)
            except pyvc.Unsupported as ex:
                fails.setdefault(key, dict(pattern=src, observed=f"result is not a formula: {ex}"))
                continue
            st, model, secs, backend = pyvc.solve(p_.hyps(), got == pyvc.sympy_to_z3(e), 10000)
            if st != PROVED:
                f = dict(pattern=src, result=str(p_.value)[:200], solver_output=str(model)[:300], undecided=(st != REFUTED))
                if st == REFUTED:
                    f.update(native_replay_induct(T, src))
                fails.setdefault(key, f)
    return [dict(name="ichunk", status="x", strength="aux", backend="z3", secs=0, fails=fails, counts=counts)]


def _dispatch(j):
    f, a = j
    return f(a)


def run(tier, only=None):
    from qlasskit.boolopt import SympyTransformer
    from qlasskit.boolopt.bool_optimizer import BoolOptimizerProfile, apply_cse, custom_simplify_logic, merge_expressions
    rep = Report("C04", tier, "other", f"./check C04 --tier {tier}")
    nsk = len(skeletons(tier))
    step = max(200, nsk // 48)
    jobs = [(job_skeletons, (lo, min(nsk, lo + step), tier)) for lo in range(0, nsk, step)]
    nl = len(list_family(tier))
    for lo in range(0, nl, 40):
        jobs.append((job_lists, (lo, min(nl, lo + 40), tier, "generated")))
    from .c01_l3 import family
    nprog = len([1 for o, s in family(tier, seed=0) if o != "outside"])
    for lo in range(0, nprog, 25):
        jobs.append((job_lists, (lo, min(nprog, lo + 25), tier, "front-end")))
    npat = len(induct_patterns())
    for T in [t.__name__ for t in transformers()] + ["SympyTransformer"]:
        for lo in range(0, npat, 120):
            for mode in ("symbol", "hole"):
                jobs.append((job_induct, (T, lo, lo + 120, mode)))
    rs = run_pool(_dispatch, jobs)
    # proved-class: induction steps
    iagg, icnt = {}, {}
    for r in rs:
        if r.get("name") == "ichunk":
            for k, v in r["counts"].items():
                icnt[k] = icnt.get(k, 0) + v
            for k, v in r["fails"].items():
                iagg.setdefault(k, v)
    for k in sorted(icnt):
        name = f"C04.{k}.induction-step[den preserved given the contract of visit on the sub-terms]"
        if k in iagg:
            f = iagg[k]
            rep.add([res(name, UNDECIDED if f.get("undecided") else REFUTED, strength="proved-class", backend="z3", replayed=bool(f.get("replayed")), patterns=icnt[k],
                         replay=f.get("replay"), detail=str({k2: v for k2, v in f.items() if k2 != "replay"})[:600], solver_output=f.get("solver_output"))])
        else:
            rep.add([res(name, PROVED, strength="proved-class", backend="z3", patterns=icnt[k])])
    rs = [r for r in rs if r.get("name") != "ichunk"]
    agg, cnt, fired, diag = {}, {}, {}, {}
    for r in rs:
        if r.get("name") in ("chunk", "lchunk"):
            tag = "" if r["name"] == "chunk" else f"[{r['source']} lists]"
            for k, v in r["counts"].items():
                cnt[k + tag] = cnt.get(k + tag, 0) + v
            for k, v in r["fails"].items():
                agg.setdefault(k + tag, v)
            for k, v in r.get("fired", {}).items():
                fired[k] = fired.get(k, 0) + v
            for k, v in r.get("diag", {}).items():
                diag.setdefault(k, v)
    for k in sorted(cnt):
        name = f"C04.{k}.den-preserved"
        if k in agg:
            rep.add([res(name, REFUTED, strength="bounded", backend="truth-table", replayed=True, replay=agg[k], instances=cnt[k])])
        else:
            rep.add([res(name, PROVED, strength="bounded", backend="truth-table", instances=cnt[k], rewrites_fired=fired.get(k), nontrivial=True)])
    for k, v in diag.items():
        rep.add([res(f"C04.{k}", REFUTED, strength="diagnostic", backend="truth-table", replay=dict(expression=v))])
    rep.add([r for r in rs if r.get("name") not in ("chunk", "lchunk")])
    for T in transformers():
        rep.under_contract(T.visit_Or if hasattr(T, "visit_Or") and "visit_Or" in T.__dict__ else SympyTransformer.visit)
    rep.under_contract(SympyTransformer.visit, custom_simplify_logic, merge_expressions, apply_cse, BoolOptimizerProfile.apply)
    rep.rule = ("one evaluation = one (function, skeleton or definition list) pair decided on all assignments; counts per function are in the obligation records; "
                "non-trivial = the rewrite changed the expression at least once (measured: rewrites_fired)")
    rep.extra.update(skeletons=nsk, definition_lists=nl, front_end_programs=nprog,
                     bounded=dict(family="sympy trees over And/Or/Xor/Not/ITE/Implies: depth 1 exhaustive (arity <= 3, 8 leaves), depth 2 over 32 representative sub-terms, seeded depth 3-4; "
                                         "definition lists of <= 5 definitions over <= 4 bits incl. re-defined intermediates; translate_ast output of the C01-L3 program family",
                                  bound="arity <= 4, depth <= 4, <= 4 holes", all_values=True))
    rep.extra["evaluations_per_function"] = cnt
    rep.assumptions = ["oracle: the standard meaning of the sympy node kinds (A1)", "bounded in arity and depth: structural induction is carried out on skeletons, not proved for all trees",
                       "shape postconditions (no ITE/Implies/n-ary Or left) are diagnostic under C04 and deciding only through C02"]
    rep.explanation = ("denotation-preservation contracts of every rewrite step and of both profiles evaluated on skeleton trees and definition lists, each instance on ALL assignments "
                       "(bit-parallel); bounded in arity/depth, hence level 'other' and nothing counted as proved")
    rep.samples = [dict(name=r["name"], status=r["status"], instances=r.get("instances")) for r in rep.results[:8]]
    return rep


def replay(path):
    import sys
    from ..common import generic_replay
    return generic_replay(sys.modules[__name__], path)
