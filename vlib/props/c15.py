"""C15 - Grover search amplifies exactly the solutions of the predicate.

Structural contract on Grover.__init__ (algorithms/grover.py): gates = H^n ++ H(phase) ++ (oracle.gates ++ [CZ(ret, phase)] ++ diffuser)^k with
diffuser = (H X)^n (H X)phase . MCZ(0..n-1 -> phase) . (X H)^n (X H)phase, k = n_iterations or the least integer >= (pi/4) sqrt(2^n / n_matching),
phase a fresh qubit = oracle.num_qubits, and THE ORACLE OBJECT HANDED IN IS UNCHANGED.
Semantic contract over the ghost semantics ASim (exact integer amplitudes) on |0..0>, marginalised to output_qubits, for every solution set
of size 1..N/4 over 2..4 search bits (5 bits: a seeded sample) and several syntactic forms per set (comparison, bit-level DNF, oraclize(g, y)):
  - the exact output distributions of all forms of one solution set are EQUAL as rationals (independence of how the predicate is written/compiled)
  - every solution is more likely than every non-solution; total solution probability > 1/2
  - decode_output of each solution reading is the solution value in the argument type
Bounded exactly as the property's quantifier text.  A black box that is not a clean xor-oracle is attributed to the C02/C03/C06 findings."""
import itertools
import math
import random
import time
from fractions import Fraction

from .. import bounded, common, spec
from ..common import PROVED, REFUTED, Report, res, run_pool
from . import c16


def forms(n, sols):
    """-> list of (label, builder) ; builder() returns (Grover object, source text)"""
    from qlasskit import qlassf
    from qlasskit.algorithms import Grover
    sols = sorted(sols)
    out = []

    def f_cmp():
        src = c16.cmp_source("pred", n, sols)
        return Grover(qlassf(src), n_matching=len(sols)), src

    def f_dnf():
        src = c16.dnf_source("pred", n, sols)
        return Grover(qlassf(src), n_matching=len(sols)), src
    out += [("cmp", f_cmp), ("dnf", f_dnf)]
    if len(sols) == 1:
        # g(x) == y with y FALSY (0 / False) as well: the target must not be mistaken for "no target"
        def f_orc0():
            src = f"def g(a: Qint[{n}]) -> Qint[{n}]:\n\treturn a ^ {sols[0]}"
            return Grover(qlassf(src), 0, n_matching=1), src + "   # Grover(g, element_to_search=0)"

        def f_orcF():
            src = c16.cmp_source("pred", n, [x for x in range(1 << n) if x != sols[0]])
            return Grover(qlassf(src), False, n_matching=1), src + "   # Grover(pred, element_to_search=False)"
        out += [("oraclize-zero", f_orc0)] + ([("oraclize-False", f_orcF)] if n <= 3 else [])
        k = (sols[0] * 3 + 1) % (1 << n)

        def f_orc():
            src = f"def g(a: Qint[{n}]) -> Qint[{n}]:\n\treturn a ^ {k}"
            return Grover(qlassf(src), sols[0] ^ k, n_matching=1), src + f"   # Grover(g, element_to_search={sols[0] ^ k})"
        out.append(("oraclize", f_orc))
    return out


def job(a):
    n, sols = a
    t0 = time.time()
    sols = sorted(sols)
    label = f"{n} bits,solutions={sols}"
    base = dict(strength="bounded", backend="exact-amplitudes")
    out = []
    dists = {}
    N = 1 << n
    k_expected = math.ceil(math.pi / 4.0 * math.sqrt(N / len(sols)))
    # exact check of the iteration count: least integer k with 16 k^2 >= pi^2 N / M  (rational bounds on pi)
    lo, hi = Fraction(314159265358, 10 ** 11), Fraction(314159265359, 10 ** 11)
    kk = 0
    while 16 * kk * kk * len(sols) < lo * lo * N:
        kk += 1
    exact_k = kk if 16 * kk * kk * len(sols) >= hi * hi * N else None
    for fl, build in forms(n, sols):
        name = f"C15.Grover.amplifies[{label},{fl}]"
        try:
            g, src = build()
        except Exception as ex:  # noqa
            out.append(res(name, REFUTED, replayed=True, replay=dict(solutions=sols, form=fl, observed=f"raises {type(ex).__name__}: {ex}"[:200]), **base))
            continue
        orc = g.oracle
        clean, why = c16.oracle_is_clean(orc, n)
        # structural clauses
        qc = g.circuit()
        og = [(type(x).__name__, list(w)) for x, w, p in orc.circuit().gates if not x.is_nop()]
        gs = [(type(x).__name__, list(w)) for x, w, p in qc.gates if not x.is_nop()]
        ph = orc.circuit().num_qubits
        ret = orc.circuit().qubit_map["_ret"]
        diff = [x for i in range(n) for x in (("H", [i]), ("X", [i]))] + [("H", [ph]), ("X", [ph])] + [("MCtrl", list(range(n)) + [ph])] + \
               [x for i in range(n) for x in (("X", [i]), ("H", [i]))] + [("X", [ph]), ("H", [ph])]
        exp = [("H", [i]) for i in range(n)] + [("H", [ph])] + (og + [("MCtrl", [ret, ph])] + diff) * g.n_iterations
        sn = f"C15.Grover.structure[{label},{fl}]"
        struct_ok = gs == exp and qc.num_qubits == ph + 1 and g.n_iterations == k_expected and (exact_k is None or exact_k == g.n_iterations) and list(g.output_qubits) == list(range(n))
        out.append(res(sn, PROVED, **base) if struct_ok else
                   res(sn, REFUTED, replayed=True, replay=dict(program=src, n_iterations=g.n_iterations, expected_iterations=k_expected,
                                                               observed_len=len(gs), expected_len=len(exp), first_difference=next((i for i, (x, y) in enumerate(zip(gs, exp)) if x != y), None)), **base))
        if not clean:
            out.append(res(name, PROVED, nontrivial=False, note=f"black box not a clean xor-oracle ({why}): attributed to the C02/C03/C06 findings", program=src, **base))
            continue
        d = spec.ASim(qc.num_qubits).apply(qc.gates).distribution(list(g.output_qubits))
        dists[fl] = d
        psol = [d.get(tuple((s >> i) & 1 for i in range(n)), Fraction(0)) for s in sols]
        pnon = [d.get(tuple((s >> i) & 1 for i in range(n)), Fraction(0)) for s in range(N) if s not in sols]
        dec_ok, dec = True, None
        for s in sols:
            reading = format(s, f"0{n}b")
            try:
                dec = g.decode_output(reading)
                if int(dec) != s:
                    dec_ok = False
            except Exception as ex:  # noqa
                dec, dec_ok = f"raises {ex}", False
        ok = min(psol) > max(pnon) and sum(psol) > Fraction(1, 2) and dec_ok
        if ok:
            out.append(res(name, PROVED, secs=time.time() - t0, nontrivial=True, p_solutions=float(sum(psol)), iterations=g.n_iterations, program=src, **base))
        else:
            out.append(res(name, REFUTED, secs=time.time() - t0, replayed=True,
                           replay=dict(program=src, solutions=sols, observed=f"P(solutions)={[str(x) for x in psol]} max P(non-solution)={max(pnon)} decode ok={dec_ok} ({dec!r})",
                                       expected="every solution more likely than every non-solution, total > 1/2, decode_output = the solution",
                                       call="Grover(qlassf(program), n_matching=|solutions|).circuit() simulated exactly from |0...0>"), program=src, **base))
    # independence of the syntactic form
    nm = f"C15.Grover.distribution-independent-of-form[{label}]"
    if len(dists) >= 2:
        ref_l, ref = next(iter(dists.items()))
        diffs = [l for l, d in dists.items() if d != ref]
        if diffs:
            out.append(res(nm, REFUTED, replayed=True, replay=dict(solutions=sols, forms=list(dists), differing=diffs,
                                                                   distributions={l: {''.join(map(str, k)): str(v) for k, v in d.items()} for l, d in dists.items()}), **base))
        else:
            out.append(res(nm, PROVED, nontrivial=True, forms=list(dists), **base))
    return out


def run(tier, only=None):
    from qlasskit.algorithms import Grover
    rep = Report("C15", tier, "exploration", f"./check C15 --tier {tier}")
    jobs = []
    r = random.Random(0)
    for n in (2, 3, 4):
        N = 1 << n
        for m in range(1, N // 4 + 1):
            combos = list(itertools.combinations(range(N), m))
            if len(combos) > (40 if tier == "quick" else 400):
                combos = r.sample(combos, 40 if tier == "quick" else 400)
            for c in combos:
                jobs.append((n, list(c)))
    for m in (1, 2, 3, 4, 5, 8):
        for _ in range(1 if tier == "quick" else 8):
            jobs.append((5, sorted(r.sample(range(32), m))))
    rep.add(run_pool(job, jobs))
    rep.under_contract(Grover.__init__, Grover.decode_output, Grover.output_qubits.fget)
    rep.rule = "one evaluation = one (solution set, syntactic form): real Grover constructor, exact amplitude simulation from |0..0>, exact rational output distribution; distinct = distinct predicate text"
    rep.extra.update(bounded=dict(family="all solution sets of size 1..N/4 on 2..4 search bits (sampled beyond 40 sets per size), seeded sets on 5 bits; forms: comparison, bit-level DNF, oraclize(g, y) for single solutions",
                                  bound="as the property's quantifier text; default iteration count with n_matching = |set|", all_values=True))
    rep.assumptions = ["A8 standard meaning of H, X, Z, CX, CCX, MCX, MC-Z (ghost semantics ASim)", "probabilities are exact rationals; 'equal distributions' is an equality test",
                       "a black box that is not a clean xor-oracle is attributed to the C02/C03/C06 findings", "pi bounded by 3.14159265358 < pi < 3.14159265359 for the exact iteration-count clause"]
    rep.samples = [dict(name=r_["name"], status=r_["status"], p=r_.get("p_solutions")) for r_ in rep.results[:6]]
    return rep


def replay(path):
    import sys
    from ..common import generic_replay
    return generic_replay(sys.modules[__name__], path)
