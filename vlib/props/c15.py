"""C15 - Grover search amplifies exactly the solutions of the predicate.

Structural contract on Grover.__init__ (algorithms/grover.py): gates = H^n ++ H(phase) ++ (oracle.gates ++ [CZ(ret, phase)] ++ diffuser)^k with
diffuser = (H X)^n (H X)phase . MCZ(0..n-1 -> phase) . (X H)^n (X H)phase, k = n_iterations or the least integer >= (pi/4) sqrt(2^n / n_matching),
phase a fresh qubit = oracle.num_qubits, and THE ORACLE OBJECT HANDED IN IS UNCHANGED.
Semantic contract over the ghost semantics ASim (exact integer amplitudes) on |0..0>, marginalised to output_qubits, for every solution set
of size 1..N/4 over 2..4 search bits (5 bits: a seeded sample) and several syntactic forms per set (comparison, bit-level DNF, oraclize(g, y)):
  - the exact output distributions of all forms of one solution set are EQUAL as rationals (independence of how the predicate is written/compiled)
  - every solution is more likely than every non-solution; total solution probability > 1/2
  - decode_output of each solution reading is the solution value in the argument type
Bounded exactly as the property's quantifier text.  A black box that is not a clean xor-oracle is attributed to the C02/C03/C06 findings."""
import itertools
import math
import random
import time
from fractions import Fraction

from .. import bounded, common, spec
from ..common import PROVED, REFUTED, Report, res, run_pool
from . import c16


def forms(n, sols):
    """-> list of (label, builder) ; builder() returns (Grover object, source text)"""
    from qlasskit import qlassf
    from qlasskit.algorithms import Grover
    sols = sorted(sols)
    out = []

    def f_cmp():
        src = c16.cmp_source("pred", n, sols)
        return Grover(qlassf(src), n_matching=len(sols)), src

    def f_dnf():
        src = c16.dnf_source("pred", n, sols)
        return Grover(qlassf(src), n_matching=len(sols)), src
    out += [("cmp", f_cmp), ("dnf", f_dnf)]
    if len(sols) == 1:
        # g(x) == y with y FALSY (0 / False) as well: the target must not be mistaken for "no target"
        def f_orc0():
            src = f"def g(a: Qint[{n}]) -> Qint[{n}]:\n\treturn a ^ {sols[0]}"
            return Grover(qlassf(src), 0, n_matching=1), src + "   # Grover(g, element_to_search=0)"

        def f_orcF():
            src = c16.cmp_source("pred", n, [x for x in range(1 << n) if x != sols[0]])
            return Grover(qlassf(src), False, n_matching=1), src + "   # Grover(pred, element_to_search=False)"
        out += [("oraclize-zero", f_orc0)] + ([("oraclize-False", f_orcF)] if n <= 3 else [])
        k = (sols[0] * 3 + 1) % (1 << n)

        def f_orc():
            src = f"def g(a: Qint[{n}]) -> Qint[{n}]:\n\treturn a ^ {k}"
            return Grover(qlassf(src), sols[0] ^ k, n_matching=1), src + f"   # Grover(g, element_to_search={sols[0] ^ k})"
        out.append(("oraclize", f_orc))
    return out


def job(a):
    n, sols = a
    t0 = time.time()
    sols = sorted(sols)
    label = f"{n} bits,solutions={sols}"
    base = dict(strength="bounded", backend="exact-amplitudes")
    out = []
    dists = {}
    N = 1 << n
    k_expected = math.ceil(math.pi / 4.0 * math.sqrt(N / len(sols)))
    # exact check of the iteration count: least integer k with 16 k^2 >= pi^2 N / M  (rational bounds on pi)
    lo, hi = Fraction(314159265358, 10 ** 11), Fraction(314159265359, 10 ** 11)
    kk = 0
    while 16 * kk * kk * len(sols) < lo * lo * N:
        kk += 1
    exact_k = kk if 16 * kk * kk * len(sols) >= hi * hi * N else None
    for fl, build in forms(n, sols):
        name = f"C15.Grover.amplifies[{label},{fl}]"
        try:
            g, src = build()
        except Exception as ex:  # noqa
            out.append(res(name, REFUTED, replayed=True, replay=dict(solutions=sols, form=fl, observed=f"raises {type(ex).__name__}: {ex}"[:200]), **base))
            continue
        orc = g.oracle
        clean, why = c16.oracle_is_clean(orc, n)
        # structural clauses
        qc = g.circuit()
        og = [(type(x).__name__, list(w)) for x, w, p in orc.circuit().gates if not x.is_nop()]
        gs = [(type(x).__name__, list(w)) for x, w, p in qc.gates if not x.is_nop()]
        ph = orc.circuit().num_qubits
        ret = orc.circuit().qubit_map["_ret"]
        diff = [x for i in range(n) for x in (("H", [i]), ("X", [i]))] + [("H", [ph]), ("X", [ph])] + [("MCtrl", list(range(n)) + [ph])] + \
               [x for i in range(n) for x in (("X", [i]), ("H", [i]))] + [("X", [ph]), ("H", [ph])]
        exp = [("H", [i]) for i in range(n)] + [("H", [ph])] + (og + [("MCtrl", [ret, ph])] + diff) * g.n_iterations
        sn = f"C15.Grover.structure[{label},{fl}]"
        struct_ok = gs == exp and qc.num_qubits == ph + 1 and g.n_iterations == k_expected and (exact_k is None or exact_k == g.n_iterations) and list(g.output_qubits) == list(range(n))
        out.append(res(sn, PROVED, **base) if struct_ok else
                   res(sn, REFUTED, replayed=True, replay=dict(program=src, n_iterations=g.n_iterations, expected_iterations=k_expected,
                                                               observed_len=len(gs), expected_len=len(exp), first_difference=next((i for i, (x, y) in enumerate(zip(gs, exp)) if x != y), None)), **base))
        if not clean:
            out.append(res(name, PROVED, nontrivial=False, note=f"black box not a clean xor-oracle ({why}): attributed to the C02/C03/C06 findings", program=src, **base))
            continue
        d = spec.ASim(qc.num_qubits).apply(qc.gates).distribution(list(g.output_qubits))
        dists[fl] = d
        psol = [d.get(tuple((s >> i) & 1 for i in range(n)), Fraction(0)) for s in sols]
        pnon = [d.get(tuple((s >> i) & 1 for i in range(n)), Fraction(0)) for s in range(N) if s not in sols]
        dec_ok, dec = True, None
        for s in sols:
            reading = format(s, f"0{n}b")
            try:
                dec = g.decode_output(reading)
                if int(dec) != s:
                    dec_ok = False
            except Exception as ex:  # noqa
                dec, dec_ok = f"raises {ex}", False
        ok = min(psol) > max(pnon) and sum(psol) > Fraction(1, 2) and dec_ok
        if ok:
            out.append(res(name, PROVED, secs=time.time() - t0, nontrivial=True, p_solutions=float(sum(psol)), iterations=g.n_iterations, program=src, **base))
        else:
            out.append(res(name, REFUTED, secs=time.time() - t0, replayed=True,
                           replay=dict(program=src, solutions=sols, observed=f"P(solutions)={[str(x) for x in psol]} max P(non-solution)={max(pnon)} decode ok={dec_ok} ({dec!r})",
                                       expected="every solution more likely than every non-solution, total > 1/2, decode_output = the solution",
                                       call="Grover(qlassf(program), n_matching=|solutions|).circuit() simulated exactly from |0...0>"), program=src, **base))
    # independence of the syntactic form
    nm = f"C15.Grover.distribution-independent-of-form[{label}]"
    if len(dists) >= 2:
        ref_l, ref = next(iter(dists.items()))
        diffs = [l for l, d in dists.items() if d != ref]
        if diffs:
            out.append(res(nm, REFUTED, replayed=True, replay=dict(solutions=sols, forms=list(dists), differing=diffs,
                                                                   distributions={l: {''.join(map(str, k)): str(v) for k, v in d.items()} for l, d in dists.items()}), **base))
        else:
            out.append(res(nm, PROVED, nontrivial=True, forms=list(dists), **base))
    return out


def job_struct_opaque(a):
    """Structural contract of Grover.__init__ for EVERY oracle circuit: the predicate is a QlassF whose circuit holds OPAQUE gate tokens (any
    inspection raises), every length 0..L with every wire assignment, result qubit r anywhere above the n search qubits, every
    (n_matching, n_iterations) of the list.
      ensures  circuit = H(0..n-1) H(p) ( <oracle gates: equal tokens in order, same wires> CZ(r -> p) <diffuser on 0..n-1, p> )^k,   p = the added qubit,
               k = n_iterations if given, else the least integer >= pi/4 sqrt(2^n / n_matching) (checked with rational bounds on pi);
               num_qubits = oracle's + 1; output_qubits = [0..n-1]; the predicate's circuit is unchanged and shares no gate list with the result."""
    n, extra, L = a
    from qlasskit.algorithms import Grover
    from qlasskit.ast2logic.typing import Arg
    from qlasskit.qlassfun import QlassF
    from qlasskit.types import Qint
    from . import c14
    from .. import pyvc
    m = n + extra
    name = f"C15.Grover.constructor.structure[opaque oracle, {n} search qubits, {m} qubits, <= {L} gates]"
    base = dict(strength="proved-class", backend="pyvc-opaque", function="qlasskit.algorithms.Grover.__init__")
    aty = bool if n == 1 else Qint[n]
    cases = 0
    lo, hi = Fraction(314159265358, 10 ** 11), Fraction(314159265359, 10 ** 11)
    for r in range(n, m):
        for length in range(0, L + 1):
            for ws in c14.wire_lists(m, length, 2):
                for n_match, n_it in ((1, None), (2, None), (1, 0), (1, 1), (1, 3), (3, None)):
                    if n_match >= (1 << n):
                        continue
                    oc = c14.mk_circuit(m, ws)
                    oc.qubit_map.clear()
                    for i in range(n):
                        oc.qubit_map[f"a.{i}" if n > 1 else "a"] = i
                    oc.qubit_map["_ret"] = r
                    qf = QlassF("pred", None, [Arg("a", aty, [f"a.{i}" for i in range(n)] if n > 1 else ["a"])], Arg("_ret", bool, ["_ret"]), [])
                    qf._qcircuit = oc
                    snap = c14.snapshot(oc)
                    try:
                        p_ = c14.run_hooked(Grover, qf, None, n_it, n_match)
                    except pyvc.Unsupported as ex:
                        return [res(name, common.UNDECIDED, detail=f"Unsupported: {ex}", **base)]
                    cases += 1
                    if n_it is None:
                        kk = 0
                        while 16 * kk * kk * n_match < lo * lo * (1 << n):
                            kk += 1
                        if not 16 * kk * kk * n_match >= hi * hi * (1 << n):
                            continue          # pi bounds too coarse to decide this count: skip (never happens for the listed cases)
                    else:
                        kk = n_it
                    ok = p_.kind == "return"
                    det = dict(observed=f"raises {p_.value!r}"[:200]) if not ok else None
                    if ok:
                        g = p_.value
                        qc = g.circuit()
                        ph = m

                        def view(x, w):
                            return (c14.tag(x) if isinstance(x, c14.Token) else type(x).__name__, list(w))
                        gs = [view(x, w) for x, w, _ in qc.gates if isinstance(x, c14.Token) or not x.is_nop()]
                        og = [(t, list(w)) for t, w, _ in snap[0]]
                        diff = [x for i in range(n) for x in (("H", [i]), ("X", [i]))] + [("H", [ph]), ("X", [ph])] + [("MCtrl", list(range(n)) + [ph])] + \
                               [x for i in range(n) for x in (("X", [i]), ("H", [i]))] + [("X", [ph]), ("H", [ph])]
                        exp = [("H", [i]) for i in range(n)] + [("H", [ph])] + (og + [("MCtrl", [r, ph])] + diff) * kk
                        ok = (gs == exp and qc.num_qubits == m + 1 and g.n_iterations == kk and list(g.output_qubits) == list(range(n)) and c14.snapshot(oc) == snap
                              and not ({id(w) for _, w, _ in qc.gates} & {id(w) for _, w, _ in oc.gates}) and qc.gates is not oc.gates)
                        det = dict(n_iterations=g.n_iterations, expected_iterations=kk, observed=gs[:10], expected=exp[:10], observed_len=len(gs), expected_len=len(exp),
                                   oracle_unchanged=c14.snapshot(oc) == snap)
                    if not ok:
                        return [res(name, REFUTED, replayed=True,
                                    replay=dict(call=f"Grover(pred, None, n_iterations={n_it}, n_matching={n_match}) with pred.circuit() = opaque gates on wires {[list(w) for w in ws]}, _ret on qubit {r}", **det), **base)]
    return [res(name, PROVED, cases=cases, **base)]


def _dispatch(j):
    f, a = j
    return f(a)


def run(tier, only=None):
    from qlasskit.algorithms import Grover
    rep = Report("C15", tier, "exploration", f"./check C15 --tier {tier}")
    jobs = []
    r = random.Random(0)
    for n in (2, 3, 4):
        N = 1 << n
        for m in range(1, N // 4 + 1):
            combos = list(itertools.combinations(range(N), m))
            if len(combos) > (40 if tier == "quick" else 400):
                combos = r.sample(combos, 40 if tier == "quick" else 400)
            for c in combos:
                jobs.append((n, list(c)))
    for m in (1, 2, 3, 4, 5, 8):
        for _ in range(1 if tier == "quick" else 8):
            jobs.append((5, sorted(r.sample(range(32), m))))
    jobs = [(job, j) for j in jobs]
    for n in (1, 2, 3, 4):
        for extra in (1, 2):
            jobs.append((job_struct_opaque, (n, extra, 2 if n <= 2 else 1)))
    rep.add(run_pool(_dispatch, jobs))
    rep.under_contract(Grover.__init__, Grover.decode_output, Grover.output_qubits.fget)
    rep.rule = "one evaluation = one (solution set, syntactic form): real Grover constructor, exact amplitude simulation from |0..0>, exact rational output distribution; distinct = distinct predicate text"
    rep.extra.update(bounded=dict(family="all solution sets of size 1..N/4 on 2..4 search bits (sampled beyond 40 sets per size), seeded sets on 5 bits; forms: comparison, bit-level DNF, oraclize(g, y) for single solutions",
                                  bound="as the property's quantifier text; default iteration count with n_matching = |set|", all_values=True))
    rep.assumptions = ["A8 standard meaning of H, X, Z, CX, CCX, MCX, MC-Z (ghost semantics ASim)", "probabilities are exact rationals; 'equal distributions' is an equality test",
                       "a black box that is not a clean xor-oracle is attributed to the C02/C03/C06 findings", "pi bounded by 3.14159265358 < pi < 3.14159265359 for the exact iteration-count clause"]
    rep.samples = [dict(name=r_["name"], status=r_["status"], p=r_.get("p_solutions")) for r_ in rep.results[:6]]
    return rep


def replay(path):
    import sys
    from ..common import generic_replay
    return generic_replay(sys.modules[__name__], path)
