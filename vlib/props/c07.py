"""C07 - calling one compiled function from another is function composition.

Contracts (ast2logic/env.py, t_expression.py [Call of a known function], t_statement.py [FunctionDef], qlassfun.py, algorithms/qalgorithm.py):
  Env.bind_function(deff) + translate_expression(Call)   ensures the caller's return bits, on every input, equal the caller's Python
       meaning with the callee applied to the ACTUAL argument values (formal bit k <- actual bit k, simultaneously); no callee-prefixed
       symbol stays free; raises on arity mismatch
  QlassF.to_logicfun()     ensures the result shares no mutable object with self (bind_function renames the Arg objects it is given in place)
  oraclize(qf, element)    ensures the oracle denotes  qf(x) == element  for all x
  frame                    the callee object (name, args, expressions) is unchanged by being used as a definition / inline / oraclized

bind_function and the Call case work on symbol NAMES and sympy subs: outside pyvc's opaque-formula reach -> BOUNDED family of
(callee, caller) pairs, every pair decided on all inputs (truth tables); oracle = pysem with the callee's pysem substituted."""
import hashlib
import itertools
import time

from .. import bounded, common, pysem, spec
from ..common import PROVED, REFUTED, UNDECIDED, Report, res, run_pool

CALLEES = {
    # name -> (source, arg annotation list, return annotation)
    "neg": ("def neg(x: bool) -> bool:\n\treturn not x", ["bool"], "bool"),
    "both": ("def both(x: bool, y: bool) -> bool:\n\treturn x and not y", ["bool", "bool"], "bool"),
    "inc": ("def inc(x: Qint[2]) -> Qint[2]:\n\treturn x + 1", ["Qint[2]"], "Qint[2]"),
    "isz": ("def isz(x: Qint[2]) -> bool:\n\treturn x == 0", ["Qint[2]"], "bool"),
    "addm": ("def addm(x: Qint[2], y: Qint[2]) -> Qint[2]:\n\treturn x - y", ["Qint[2]", "Qint[2]"], "Qint[2]"),
    "gtb": ("def gtb(a: Qint[2], b: Qint[2]) -> bool:\n\treturn a > b", ["Qint[2]", "Qint[2]"], "bool"),
    "tsel": ("def tsel(t: Tuple[bool, bool]) -> bool:\n\treturn t[0] and not t[1]", ["Tuple[bool, bool]"], "bool"),
    "tint": ("def tint(t: Tuple[Qint[2], bool]) -> Qint[2]:\n\treturn t[0] if t[1] else 0", ["Tuple[Qint[2], bool]"], "Qint[2]"),
    "pairf": ("def pairf(x: bool, y: bool) -> Tuple[bool, bool]:\n\treturn (y, x != y)", ["bool", "bool"], "Tuple[bool, bool]"),
    "f": ("def f(f_x: bool, x: bool) -> bool:\n\treturn f_x and not x", ["bool", "bool"], "bool"),          # names made to collide with prefixes
    # a callee that reassigns its own parameters and reads intermediates afterwards (compression to return bits must be simultaneous)
    "reas": ("def reas(p: bool, q: bool) -> bool:\n\tt = p ^ q\n\tp = p and q\n\tq = t or p\n\treturn t ^ p ^ q", ["bool", "bool"], "bool"),
    "reasi": ("def reasi(x: Qint[2], y: Qint[2]) -> Qint[2]:\n\tt = x + y\n\tx = y\n\ty = t\n\treturn x + y", ["Qint[2]", "Qint[2]"], "Qint[2]"),
    # wide formal (actuals may be narrower), tuple results with multi-bit / nested elements
    "inc4": ("def inc4(x: Qint[4]) -> Qint[4]:\n\treturn x + 1", ["Qint[4]"], "Qint[4]"),
    "mix": ("def mix(x: Qint[2], y: bool) -> Tuple[Qint[2], bool]:\n\treturn (x + 1, y)", ["Qint[2]", "bool"], "Tuple[Qint[2], bool]"),
    "nestt": ("def nestt(x: bool, y: bool) -> Tuple[Tuple[bool, bool], bool]:\n\treturn ((x, y), x ^ y)", ["bool", "bool"], "Tuple[Tuple[bool, bool], bool]"),
    "swp": ("def swp(t: Qlist[Qint[2], 2]) -> Qlist[Qint[2], 2]:\n\treturn [t[1], t[0]]", ["Qlist[Qint[2], 2]"], "Qlist[Qint[2], 2]"),
    "tfirst": ("def tfirst(t: Tuple[Qint[4], bool]) -> Qint[4]:\n\treturn t[0] if t[1] else 0", ["Tuple[Qint[4], bool]"], "Qint[4]"),
    "add3w": ("def add3w(x: Qint[4]) -> Qint[4]:\n\treturn x + 3", ["Qint[4]"], "Qint[4]"),
    "deep": ("def deep(x: bool, n: Qint[2]) -> Tuple[bool, Tuple[bool, Qint[2]]]:\n\treturn (not x, (x, n + 1))", ["bool", "Qint[2]"], "Tuple[bool, Tuple[bool, Qint[2]]]"),
    "deep2": ("def deep2(n: Qint[2], x: bool) -> Tuple[Tuple[Qint[2], bool], Tuple[bool, Qint[2]]]:\n\treturn ((n, x), (not x, n + 1))", ["Qint[2]", "bool"], "Tuple[Tuple[Qint[2], bool], Tuple[bool, Qint[2]]]"),
    # callee LOCALS named like the machinery's own symbols (_ret..., the prefixed names of formals, temporaries)
    "hadd": ("def hadd(a: bool, b: bool) -> Tuple[bool, bool]:\n\t_ret_carry = a and b\n\treturn (a ^ b, _ret_carry)", ["bool", "bool"], "Tuple[bool, bool]"),
    "lret": ("def lret(x: Qint[2], y: bool) -> Qint[2]:\n\t_retx = x + 1\n\tlret_x = _retx + 1\n\treturn lret_x if y else _retx", ["Qint[2]", "bool"], "Qint[2]"),
    "tmid": ("def tmid(t: Tuple[bool, Qint[4], bool]) -> Qint[4]:\n\treturn t[1] if (t[0] or t[2]) else 1", ["Tuple[bool, Qint[4], bool]"], "Qint[4]"),
}

CALLERS = [
    # (callees used, caller source)
    (["neg"], "def c(a: bool) -> bool:\n\treturn neg(a)"),
    (["neg"], "def c(a: bool, b: bool) -> bool:\n\treturn neg(a) and neg(b)"),
    (["neg"], "def c(x: bool) -> bool:\n\treturn neg(neg(x))"),
    (["neg"], "def c(neg_x: bool, x: bool) -> bool:\n\treturn neg(x) or neg_x"),
    (["both"], "def c(a: bool, b: bool) -> bool:\n\treturn both(a, b)"),
    (["both"], "def c(a: bool, b: bool) -> bool:\n\treturn both(b, a)"),
    (["both"], "def c(a: bool, b: bool) -> bool:\n\treturn both(a, a)"),
    (["both"], "def c(x: bool, y: bool) -> bool:\n\treturn both(y, x)"),
    (["both"], "def c(y: bool, x: bool) -> bool:\n\treturn both(y, x) ^ both(x, y)"),
    (["both"], "def c(a: bool, b: bool, d: bool) -> bool:\n\treturn both(a and b, d or a)"),
    (["both"], "def c(a: bool) -> bool:\n\treturn both(a, True)"),
    (["both"], "def c(t: Tuple[bool, bool]) -> bool:\n\treturn both(t[1], t[0])"),
    (["both"], "def c(t: Tuple[bool, bool, bool]) -> bool:\n\treturn both(t[2], t[0])"),
    (["inc"], "def c(a: Qint[2]) -> Qint[2]:\n\treturn inc(a)"),
    (["inc"], "def c(a: Qint[2]) -> Qint[2]:\n\treturn inc(inc(a))"),
    (["inc"], "def c(a: Qint[2], b: Qint[2]) -> Qint[2]:\n\treturn inc(a) + inc(b)"),
    (["inc"], "def c(x: Qint[2]) -> Qint[2]:\n\tb = inc(x)\n\treturn inc(b)"),
    (["isz", "inc"], "def c(a: Qint[2]) -> bool:\n\treturn isz(inc(a))"),
    (["addm"], "def c(a: Qint[2], b: Qint[2]) -> Qint[2]:\n\treturn addm(a, b)"),
    (["addm"], "def c(a: Qint[2], b: Qint[2]) -> Qint[2]:\n\treturn addm(b, a)"),
    (["addm"], "def c(y: Qint[2], x: Qint[2]) -> Qint[2]:\n\treturn addm(y, x)"),
    (["addm"], "def c(a: Qint[2]) -> Qint[2]:\n\treturn addm(a, a)"),
    (["addm"], "def c(a: Qint[2]) -> Qint[2]:\n\treturn addm(3, a)"),
    (["addm"], "def c(t: Tuple[Qint[2], Qint[2]]) -> Qint[2]:\n\treturn addm(t[1], t[0])"),
    (["addm"], "def c(t: Tuple[Qint[2], Qint[2]]) -> Qint[2]:\n\treturn addm(t[0], t[1])"),
    (["gtb"], "def c(b: Qint[2], a: Qint[2]) -> bool:\n\treturn gtb(b, a)"),
    (["gtb"], "def c(a: Qint[2], b: Qint[2]) -> bool:\n\treturn gtb(b, a)"),
    (["gtb"], "def c(t: Tuple[Qint[2], Qint[2]], d: Qint[2]) -> bool:\n\treturn gtb(t[1], d)"),
    (["isz"], "def c(t: Tuple[Qint[2], Qint[2]]) -> bool:\n\treturn isz(t[1])"),
    (["isz"], "def c(t: Tuple[bool, Qint[2]]) -> bool:\n\treturn isz(t[1]) and t[0]"),
    (["tsel"], "def c(t: Tuple[bool, bool]) -> bool:\n\treturn tsel(t)"),
    (["tsel"], "def c(a: bool, b: bool) -> bool:\n\treturn tsel((b, a))"),
    (["tint"], "def c(t: Tuple[Qint[2], bool]) -> Qint[2]:\n\treturn tint(t)"),
    (["pairf"], "def c(a: bool, b: bool) -> Tuple[bool, bool]:\n\treturn pairf(a, b)"),
    (["pairf"], "def c(a: bool, b: bool) -> Tuple[bool, bool]:\n\treturn pairf(b, a)"),
    (["f"], "def c(x: bool, f_x: bool) -> bool:\n\treturn f(x, f_x)"),
    (["f"], "def c(f_x: bool, x: bool) -> bool:\n\treturn f(x, f_x)"),
    # caller variables named like the callee's PREFIXED formals, used as actuals for another formal
    (["both"], "def c(both_y: bool, z: bool) -> bool:\n\treturn both(both_y, z)"),
    (["both"], "def c(both_x: bool, both_y: bool) -> bool:\n\treturn both(both_y, both_x)"),
    (["both"], "def c(a: bool, z: bool) -> bool:\n\tboth_y = not a\n\treturn both(both_y, z)"),
    (["addm"], "def c(addm_y: Qint[2], z: Qint[2]) -> Qint[2]:\n\treturn addm(addm_y, z)"),
    (["gtb"], "def c(gtb_b: Qint[2], gtb_a: Qint[2]) -> bool:\n\treturn gtb(gtb_b, gtb_a)"),
    (["neg", "both"], "def c(a: bool, b: bool) -> bool:\n\treturn both(neg(a), neg(b))"),
    (["neg", "both"], "def c(a: bool, b: bool) -> bool:\n\tx = neg(a)\n\ty = both(x, b)\n\treturn neg(y)"),
    (["reas"], "def c(a: bool, b: bool) -> bool:\n\treturn reas(a, b)"),
    (["reas"], "def c(a: bool, b: bool) -> bool:\n\treturn reas(b, a) ^ reas(a, a)"),
    (["reas"], "def c(p: bool, q: bool) -> bool:\n\treturn reas(q, p)"),
    (["reasi"], "def c(a: Qint[2], b: Qint[2]) -> Qint[2]:\n\treturn reasi(a, b)"),
    (["reasi"], "def c(y: Qint[2], x: Qint[2]) -> Qint[2]:\n\treturn reasi(y, x)"),
    (["inc4"], "def c(a: Qint[2]) -> Qint[4]:\n\treturn inc4(a)"),
    (["inc4"], "def c(a: bool) -> Qint[4]:\n\treturn inc4(3) if a else inc4(1)"),
    (["inc4"], "def c(a: Qint[4]) -> Qint[4]:\n\treturn inc4(a)"),
    (["inc"], "def c(a: Qint[4]) -> Qint[2]:\n\treturn inc(a)"),          # wider actual: rejected, or Python's value
    (["mix"], "def c(a: Qint[2], b: bool) -> bool:\n\tr = mix(a, b)\n\treturn r[1]"),
    (["mix"], "def c(a: Qint[2], b: bool) -> Qint[2]:\n\tr = mix(a, b)\n\treturn r[0]"),
    (["mix"], "def c(a: Qint[2], b: bool) -> Tuple[Qint[2], bool]:\n\treturn mix(a, b)"),
    (["mix"], "def c(a: Qint[2], b: bool) -> Qint[2]:\n\tr = mix(a, b)\n\treturn r[0] + 1 if r[1] else r[0]"),
    (["nestt"], "def c(a: bool, b: bool) -> bool:\n\tr = nestt(a, b)\n\treturn r[0][1]"),
    (["nestt"], "def c(a: bool, b: bool) -> bool:\n\tr = nestt(a, b)\n\treturn r[1]"),
    (["nestt"], "def c(a: bool, b: bool) -> bool:\n\tr = nestt(b, a)\n\treturn r[0][0] and r[1]"),
    (["swp"], "def c(a: Qint[2], b: Qint[2]) -> Qint[2]:\n\tr = swp([a, b])\n\treturn r[0]"),
    (["swp"], "def c(a: Qint[2], b: Qint[2]) -> bool:\n\tr = swp([a, b])\n\treturn r[1] == a"),
    # the SAME call text several times while the argument variable changes (value, and width) in between
    (["inc4"], "def c(a: bool) -> Qint[4]:\n\tacc = 1\n\tacc = inc4(acc)\n\tacc = inc4(acc)\n\tacc = inc4(acc)\n\treturn acc"),
    (["inc4"], "def c(a: Qint[2]) -> Qint[4]:\n\tacc = a\n\tfor i in range(3):\n\t\tacc = inc4(acc)\n\treturn acc"),
    (["add3w"], "def c(a: Qint[4]) -> Qint[4]:\n\tacc = 1\n\tfor i in range(3):\n\t\tacc = add3w(acc)\n\treturn acc + a"),
    (["add3w"], "def c(a: Qint[2]) -> Qint[4]:\n\tacc = a\n\tacc = add3w(acc)\n\tacc = add3w(acc)\n\treturn acc"),
    (["inc"], "def c(a: Qint[2], b: Qint[2]) -> Qint[2]:\n\tx = a\n\tr = inc(x)\n\tx = b\n\treturn r + inc(x)"),
    (["neg"], "def c(a: bool, b: bool) -> bool:\n\tx = a\n\tr = neg(x)\n\tx = b\n\treturn r and neg(x)"),
    (["hadd"], "def c(x: bool, y: bool) -> Tuple[bool, bool]:\n\treturn hadd(x, y)"),
    (["hadd"], "def c(x: bool, y: bool) -> bool:\n\th = hadd(y, x)\n\treturn h[0] and not h[1]"),
    (["hadd"], "def c(x: bool, y: bool, z: bool) -> Tuple[bool, bool]:\n\th = hadd(x, y)\n\tk = hadd(h[0], z)\n\treturn (k[0], h[1] or k[1])"),
    (["lret"], "def c(a: Qint[2], b: bool) -> Qint[2]:\n\treturn lret(a, b)"),
    (["lret"], "def c(x: Qint[2], _retx: bool) -> Qint[2]:\n\treturn lret(x, _retx)"),
    # tuple results nested two levels, with a multi-bit element inside the inner tuple
    (["deep"], "def c(a: bool, n: Qint[2]) -> Qint[2]:\n\tr = deep(a, n)\n\treturn r[1][1]"),
    (["deep"], "def c(a: bool, n: Qint[2]) -> bool:\n\tr = deep(a, n)\n\treturn r[1][0] and not r[0]"),
    (["deep2"], "def c(a: bool, n: Qint[2]) -> Qint[2]:\n\tr = deep2(n, a)\n\treturn r[1][1] + r[0][0]"),
    (["deep2"], "def c(a: bool, n: Qint[2]) -> bool:\n\tr = deep2(n, a)\n\treturn r[0][1] ^ r[1][0]"),
    # tuple actuals with an element NARROWER than the formal's element: rejected, or Python's value (padding belongs to the element, not the tuple's end)
    (["tfirst"], "def c(a: bool) -> Qint[4]:\n\treturn tfirst((2, a))"),
    (["tfirst"], "def c(a: bool, n: Qint[2]) -> Qint[4]:\n\treturn tfirst((n, a))"),
    (["tfirst"], "def c(a: bool, n: Qint[4]) -> Qint[4]:\n\treturn tfirst((n, a))"),
    (["tmid"], "def c(a: bool, b: bool, n: Qint[2]) -> Qint[4]:\n\treturn tmid((a, n, b))"),
    (["tmid"], "def c(a: bool, b: bool) -> Qint[4]:\n\treturn tmid((a, 3, b))"),
    (["both"], "def c(a: bool, b: bool) -> bool:\n\treturn both(a)"),          # arity mismatch: must raise
]

# a function NAME defined twice in one caller (Python: the later definition wins): (definitions passed with defs=, caller source with inline defs)
REDEFINITIONS = [
    ([], "def c(a: bool, b: bool) -> bool:\n\tdef g(x: bool, y: bool) -> bool:\n\t\treturn x and y\n\tdef g(x: bool, y: bool) -> bool:\n\t\treturn x or not y\n\treturn g(a, b)"),
    ([], "def c(a: bool, b: bool) -> bool:\n\tdef g(x: bool, y: bool) -> bool:\n\t\treturn x and y\n\tr = g(a, b)\n\tdef g(x: bool, y: bool) -> bool:\n\t\treturn x ^ y\n\treturn g(r, b)"),
    (["both"], "def c(a: bool, b: bool) -> bool:\n\tdef both(x: bool, y: bool) -> bool:\n\t\treturn x or y\n\treturn both(a, b)"),
    (["inc"], "def c(a: Qint[2]) -> Qint[2]:\n\tdef inc(x: Qint[2]) -> Qint[2]:\n\t\treturn x + 2\n\treturn inc(a)"),
    (["neg", "neg"], "def c(a: bool) -> bool:\n\treturn neg(a)"),          # the same definition handed in twice
]


def fingerprint(qf):
    return (qf.name, [(a.name, str(a.ttype), tuple(a.bitvec)) for a in qf.args], (qf.returns.name, tuple(qf.returns.bitvec)),
            [(str(s), str(e)) for s, e in qf.expressions])


def reference(caller_src, callees):
    ns = {}
    for nm in callees:
        ns[nm] = pysem.compile_reference(CALLEES[nm][0], dict(ns))
    return ns


def inline_source(caller_src, callees):
    head, body = caller_src.split("\n", 1)
    inner = ""
    for nm in callees:
        inner += "".join("\t" + l + "\n" for l in CALLEES[nm][0].split("\n"))
    return head + "\n" + inner + body


def job(a):
    idx, mode, profile = a
    callees, src = CALLERS[idx]
    from qlasskit import qlassf
    t0 = time.time()
    key = hashlib.sha1(src.encode()).hexdigest()[:8]
    name = f"C07.call-is-composition[{mode},{profile},{'+'.join(callees)},{key}]"
    base = dict(strength="bounded", backend="truth-table", instance_key=f"{mode}:{src}", caller=src, callees={c: CALLEES[c][0] for c in callees}, mode=mode)
    prof = bounded.profiles()[profile]
    out = []
    try:
        cqfs = [qlassf(CALLEES[c][0], to_compile=False, bool_optimizer=prof) for c in callees]
        before = [fingerprint(q) for q in cqfs]
        if mode == "defs":
            qf = qlassf(src, defs=cqfs, to_compile=False, bool_optimizer=prof)
            full_src = src
        else:
            full_src = inline_source(src, callees)
            qf = qlassf(full_src, to_compile=False, bool_optimizer=prof)
        after = [fingerprint(q) for q in cqfs]
    except Exception as ex:  # noqa
        rejected_ok = "both(a)" in src
        return [res(name, PROVED, secs=time.time() - t0, nontrivial=rejected_ok, note=f"rejected: {type(ex).__name__}: {ex}"[:200], outcome="rejected", **base)]
    if "both(a)" in src:
        return [res(name, REFUTED, replayed=True, replay=dict(caller=src, observed="a call with the wrong number of arguments was accepted", expected="an exception"), **base)]
    if before != after:
        out.append(res(name.replace("call-is-composition", "callee-unchanged"), REFUTED, replayed=True,
                       replay=dict(caller=src, callee_before=str(before)[:600], callee_after=str(after)[:600]), **base))
    else:
        out.append(res(name.replace("call-is-composition", "callee-unchanged"), PROVED, **base))
    et = bounded.expr_tables(qf, 12)
    names, tabs, mask = et
    rets = list(qf.returns.bitvec)
    undefined = [r for r in rets if tabs.get(r) is None]
    if undefined:
        free = sorted({str(s) for _, e in qf.expressions for s in getattr(e, "free_symbols", set())} - set(names) - {str(s) for s, _ in qf.expressions})
        out.append(res(name, REFUTED, secs=time.time() - t0, replayed=True,
                       replay=dict(caller=src, callees=base["callees"], observed=f"return bits {undefined} depend on symbols nothing defines: {free}",
                                   expected="no callee-prefixed symbol stays free", expressions=[f"{s} = {e}" for s, e in qf.expressions][:10]), **base))
        return out
    # reference: the caller's source run with the callees' reference functions in scope
    ns = reference(src, callees)
    fn = pysem.compile_reference(src, ns)
    arg_types = [x.ttype for x in qf.args]
    n = len(names)
    bad = None
    care = 0
    for r in range(1 << n):
        row = [(r >> i) & 1 == 1 for i in range(n)]
        o = pysem.evaluate(fn, arg_types, qf.returns.ttype, row)
        if o[0] != "value" or o[2]:
            continue
        care += 1
        got = [(tabs[x] >> r) & 1 == 1 for x in rets]
        if got != o[1]:
            bad = dict(input_bits=dict(zip(names, [int(b) for b in row])), observed_return_bits=[int(b) for b in got], expected_return_bits=[int(b) for b in o[1]])
            break
    if bad:
        out.append(res(name, REFUTED, secs=time.time() - t0, replayed=True,
                       replay=dict(caller=full_src, callees=base["callees"], profile=profile, expressions=[f"{s} = {e}" for s, e in qf.expressions][:10], **bad), **base))
    else:
        out.append(res(name, PROVED, secs=time.time() - t0, rows=1 << n, care_rows=care, nontrivial=care > 0, **base))
    return out


def job_oraclize(a):
    cal, element = a
    from qlasskit import qlassf
    from qlasskit.algorithms.qalgorithm import oraclize
    src = CALLEES[cal][0]
    name = f"C07.oraclize.denotes-equality[{cal},{element}]"
    base = dict(strength="bounded", backend="truth-table", instance_key=f"oraclize:{cal}:{element}")
    qf = qlassf(src, to_compile=False)
    before = fingerprint(qf)
    out = []
    try:
        orc = oraclize(qf, element)
    except Exception as ex:  # noqa
        # a constant oracle is reported by an exception: allowed only if qf(x) == element is constant
        fn = pysem.compile_reference(src)
        vals = set()
        n = sum(len(x) for x in qf.args)
        for r in range(1 << n):
            o = pysem.evaluate(fn, [x.ttype for x in qf.args], qf.returns.ttype, [(r >> i) & 1 == 1 for i in range(n)])
            vals.add(tuple(o[1]) if o[0] == "value" else None)
        const = len({v == tuple(pysem.to_bits(qf.returns.ttype, pysem.s_lit(element) if not isinstance(element, bool) else element)) for v in vals}) == 1
        if type(ex).__name__ == "ConstantOracleException" and const:
            return [res(name, PROVED, nontrivial=False, note="constant oracle reported", **base)]
        return [res(name, REFUTED, replayed=True, replay=dict(callee=src, element=element, observed=f"raises {type(ex).__name__}: {ex}"[:200]), **base)]
    after = fingerprint(qf)
    nm2 = name.replace("denotes-equality", "argument-unchanged")
    out.append(res(nm2, PROVED, **base) if before == after else
               res(nm2, REFUTED, replayed=True, replay=dict(callee=src, before=str(before)[:400], after=str(after)[:400]), **base))
    names, tabs, mask = bounded.expr_tables(orc, 12)
    fn = pysem.compile_reference(src)
    n = len(names)
    want_bits = pysem.to_bits(qf.returns.ttype, pysem.s_lit(element) if not isinstance(element, bool) else element)
    bad = None
    for r in range(1 << n):
        row = [(r >> i) & 1 == 1 for i in range(n)]
        o = pysem.evaluate(fn, [x.ttype for x in qf.args], qf.returns.ttype, row)
        if o[0] != "value" or o[2]:
            continue
        exp = (o[1] == want_bits)
        got = (tabs[orc.returns.bitvec[0]] >> r) & 1 == 1
        if got != exp:
            bad = dict(input_bits=dict(zip(names, [int(b) for b in row])), observed=got, expected=exp)
            break
    out.append(res(name, PROVED, nontrivial=True, **base) if not bad else
               res(name, REFUTED, replayed=True, replay=dict(callee=src, element=element, **bad), **base))
    return out


def job_logicfun(_):
    """to_logicfun(): fresh - bind_function renames what it is given"""
    from qlasskit import qlassf
    qf = qlassf(CALLEES["addm"][0], to_compile=False)
    lf = qf.to_logicfun()
    ids_self = {id(qf.args), id(qf.expressions), id(qf.returns)} | {id(a) for a in qf.args} | {id(a.bitvec) for a in qf.args}
    ids_lf = {id(lf[1]), id(lf[3]), id(lf[2])} | {id(a) for a in lf[1]} | {id(a.bitvec) for a in lf[1]}
    name = "C07.to_logicfun.fresh"
    if ids_self & ids_lf:
        return [res(name, REFUTED, strength="bounded", backend="native", replayed=True, replay=dict(observed="to_logicfun shares Arg / list objects with the QlassF"))]
    return [res(name, PROVED, strength="bounded", backend="native")]


UF_FORMALS = {
    "p,q": [("p", 1), ("q", 1)],
    "x2": [("x", 2)],
    "x2,y": [("x", 2), ("y", 1)],
    "p": [("p", 1)],
}
# body shapes: list of (defined symbol, symbols it may depend on); "F" = all formal bits.  The LAST `nret` definitions are the return bits.
UF_BODIES = {
    "direct": ([("_ret", ["F"])], 1),
    "intermediate": ([("t", ["F"]), ("_ret", ["t", "F"])], 1),
    "two intermediates": ([("t", ["F"]), ("u", ["t"]), ("_ret", ["u", "t", "F"])], 1),
    "reassigns its formals": ([("t", ["F"]), ("@0", ["F"]), ("@last", ["t", "@0"]), ("_ret", ["t", "F"])], 1),
    "two return bits": ([("t", ["F"]), ("_ret.0", ["F"]), ("_ret.1", ["t", "F"])], 2),
}
UF_ACTUALS = ["fresh", "same twice", "formal names swapped", "prefixed names", "constant last", "expression"]


def job_uf(a):
    """bind_function + the call site for ARBITRARY callee bodies: the callee is a LogicFun whose definitions are UNINTERPRETED boolean functions
    (pyvc.ufun) of the formal bits and of earlier intermediates (incl. a callee that re-defines its own formals); the real Env.bind_function and the
    real translate_expression(Call) run on it, and z3 proves - for every interpretation of the functions, i.e. for every callee body with that
    dependency shape - that the caller's result bits are the callee's definitions evaluated in order on the ACTUAL arguments, with no free symbol."""
    import ast as _ast
    import z3
    from sympy import Symbol
    from qlasskit.ast2logic import translate_expression
    from qlasskit.ast2logic.env import Env
    from qlasskit.ast2logic.typing import Arg
    from qlasskit.types import Qint2
    from .. import pyvc
    fk, bk, ak = a
    t0 = time.time()
    name = f"C07.uninterpreted-callee.composition[formals {fk}; body: {bk}; actuals: {ak}]"
    base = dict(strength="proved-class", backend="z3", function="qlasskit.ast2logic.env.Env.bind_function + translate_expression(Call)")
    formals = UF_FORMALS[fk]
    body, nret = UF_BODIES[bk]
    fbits = []
    args = []
    for nm, w in formals:
        bits = [nm] if w == 1 else [f"{nm}.{i}" for i in range(w)]
        fbits += bits
        args.append(Arg(nm, bool if w == 1 else Qint2, bits))
    # the callee's definition list
    defs, k = [], 0
    for sname, deps in body:
        if sname == "@0":
            sname = fbits[0]
        elif sname == "@last":
            sname = fbits[-1]
        dd = []
        for d in deps:
            dd += fbits if d == "F" else [fbits[0] if d == "@0" else d]
        defs.append((Symbol(sname), pyvc.ufun(f"F{k}")(*[Symbol(x) for x in dd])))
        k += 1
    rbits = [str(s) for s, _ in defs[-nret:]]
    ret_arg = Arg("_ret", bool if nret == 1 else Qint2, rbits)
    # the caller's environment and the actual arguments
    env = Env()
    actual_src, actual_z = [], []

    def bind_var(nm, w):
        bits = [nm] if w == 1 else [f"{nm}.{i}" for i in range(w)]
        if not any(b.name == nm for b in env.bindings):
            env.bind(Arg(nm, bool if w == 1 else Qint2, bits))
        return [z3.Bool(b) for b in bits]
    fresh = iter(["v1", "v2", "v3", "v4"])
    for i, (nm, w) in enumerate(formals):
        if ak == "fresh":
            v = next(fresh)
        elif ak == "same twice":
            v = f"s{w}"
        elif ak == "formal names swapped":
            others = [n2 for n2, w2 in formals if w2 == w and n2 != nm]
            v = others[0] if others else nm
        elif ak == "prefixed names":
            nxt = formals[(i + 1) % len(formals)]
            v = f"g_{nxt[0]}" if nxt[1] == w else f"g_{nm}"
        elif ak == "constant last" and i == len(formals) - 1 and w == 1:
            actual_src.append("True")
            actual_z.append([z3.BoolVal(True)])
            continue
        elif ak == "expression" and w == 1:
            bind_var("e1", 1)
            bind_var("e2", 1)
            actual_src.append("(e1 and not e2)" if i % 2 == 0 else "(e1 ^ e2)")
            actual_z.append([z3.And(z3.Bool("e1"), z3.Not(z3.Bool("e2")))] if i % 2 == 0 else [z3.Xor(z3.Bool("e1"), z3.Bool("e2"))])
            continue
        else:
            v = next(fresh)
        actual_z.append(bind_var(v, w))
        actual_src.append(v)
    caller_syms = {b for x in env.bindings for b in x.bitvec}
    lf = ("g", args, ret_arg, list(defs))
    call = _ast.parse(f"g({', '.join(actual_src)})", mode="eval").body
    try:
        env.bind_function(lf)
        ty, val = translate_expression(call, env)
    except Exception as ex:  # noqa
        return [res(name, REFUTED, replayed=False, detail=f"raises {type(ex).__name__}: {ex}"[:300], solver_output="raises", secs=time.time() - t0, **base)]
    got = val if isinstance(val, list) else [val]
    # specification: the callee's definitions evaluated in order on the actual arguments
    cur = {}
    ai = 0
    for (nm, w), zs in zip(formals, actual_z):
        bits = [nm] if w == 1 else [f"{nm}.{i}" for i in range(w)]
        for b, z in zip(bits, zs):
            cur[b] = z
    for (s_, e_) in defs:
        f = z3.Function(type(e_).__name__, *([z3.BoolSort()] * (len(e_.args) + 1)))
        cur[str(s_)] = f(*[cur[str(x)] for x in e_.args])
    want = [cur[r] for r in rbits]
    if len(got) != len(want):
        return [res(name, REFUTED, replayed=False, detail=f"{len(got)} result bits for {len(want)} return bits", solver_output="structural", **base)]
    free = sorted({str(x) for e in got for x in getattr(e, "free_symbols", set())} - caller_syms)
    if free:
        return [res(name, REFUTED, replayed=False, detail=f"symbols nothing defines stay free in the caller: {free}; result: {[str(e) for e in got]}"[:400], solver_output="structural", **base)]
    goal = z3.And(*[pyvc.den(g_) == w_ for g_, w_ in zip(got, want)])
    st, model, secs, backend = pyvc.solve([], goal, 10000)
    if st == PROVED:
        # vacuity canary: the same result against the definitions applied to SWAPPED / different actuals must not be provable when that differs
        return [res(name, PROVED, secs=time.time() - t0, **base)]
    return [res(name, REFUTED if st == REFUTED else UNDECIDED, replayed=False, secs=time.time() - t0, solver_output=str(model)[:400],
                detail=f"call g({', '.join(actual_src)}) -> {[str(e) for e in got]}; callee definitions {[(str(s_), str(e_)) for s_, e_ in defs]}"[:600], **base)]


def job_redefinition(a):
    """a name bound twice (two inline defs / defs= plus an inline def / the same definition twice in defs=): rejected, or the LATEST definition's meaning"""
    idx, profile = a
    callees, src = REDEFINITIONS[idx]
    from qlasskit import qlassf
    key = hashlib.sha1(src.encode()).hexdigest()[:8]
    name = f"C07.redefinition.latest-wins-or-rejected[{profile},{'+'.join(callees) or 'inline'},{key}]"
    base = dict(strength="bounded", backend="truth-table", instance_key=f"redef:{src}", caller=src)
    prof = bounded.profiles()[profile]
    try:
        cqfs = [qlassf(CALLEES[c][0], to_compile=False, bool_optimizer=prof) for c in callees]
        qf = qlassf(src, defs=cqfs, to_compile=False, bool_optimizer=prof)
    except Exception as ex:  # noqa
        return [res(name, PROVED, nontrivial=False, note=f"rejected: {type(ex).__name__}", outcome="rejected", **base)]
    names, tabs, mask = bounded.expr_tables(qf, 12)
    rets = list(qf.returns.bitvec)
    if any(tabs.get(r) is None for r in rets):
        return [res(name, REFUTED, replayed=True, replay=dict(caller=src, observed="return bits depend on symbols nothing defines"), **base)]
    ns = reference(src, callees)
    fn = pysem.compile_reference(src, ns)
    n = len(names)
    for r in range(1 << n):
        row = [(r >> i) & 1 == 1 for i in range(n)]
        o = pysem.evaluate(fn, [x.ttype for x in qf.args], qf.returns.ttype, row)
        if o[0] != "value" or o[2]:
            continue
        got = [(tabs[x] >> r) & 1 == 1 for x in rets]
        if got != o[1]:
            return [res(name, REFUTED, replayed=True, replay=dict(caller=src, callees_passed_with_defs=callees, input_bits=dict(zip(names, [int(b) for b in row])),
                                                                observed_return_bits=[int(b) for b in got], expected_return_bits=[int(b) for b in o[1]],
                                                                expected="the meaning of the LATEST definition of the name (Python), or a rejection"), **base)]
    return [res(name, PROVED, nontrivial=True, **base)]


def job_reuse(a):
    """The SAME definition object handed to several callers, one after the other (QlassF objects through qlassf(defs=...), the same LogicFun
    tuple through QlassF.from_function(defs=...), and the same function oraclized twice): every caller gets what a fresh definition gives."""
    kind, profile = a
    from qlasskit import qlassf
    from qlasskit.qlassfun import QlassF
    prof = bounded.profiles()[profile]
    name = f"C07.definition-reused[{kind},{profile}]"
    base = dict(strength="bounded", backend="fingerprint", instance_key=f"reuse:{kind}")
    callers = ["def c1(a: Qint[2], b: Qint[2]) -> Qint[2]:\n\treturn addm(a, b)", "def c2(y: Qint[2], x: Qint[2]) -> Qint[2]:\n\treturn addm(y, x) + 1",
               "def c3(a: Qint[2]) -> Qint[2]:\n\treturn addm(a, a)"]
    mk = lambda: qlassf(CALLEES["addm"][0], to_compile=False, bool_optimizer=prof)  # noqa: E731
    try:
        if kind == "qlassf-defs":
            shared = mk()
            got = [fingerprint(qlassf(c, defs=[shared], to_compile=False, bool_optimizer=prof)) for c in callers]
            exp = [fingerprint(qlassf(c, defs=[mk()], to_compile=False, bool_optimizer=prof)) for c in callers]
        elif kind == "logicfun-tuple":
            lf = mk().to_logicfun()
            got = [fingerprint(QlassF.from_function(c, defs=[lf], to_compile=False, bool_optimizer=prof)) for c in callers]
            exp = [fingerprint(QlassF.from_function(c, defs=[mk().to_logicfun()], to_compile=False, bool_optimizer=prof)) for c in callers]
        else:
            from qlasskit.algorithms.qalgorithm import oraclize
            shared = qlassf(CALLEES["inc"][0], to_compile=False, bool_optimizer=prof)
            got = [fingerprint(oraclize(shared, e)) for e in (1, 2, 1)]
            exp = [fingerprint(oraclize(qlassf(CALLEES["inc"][0], to_compile=False, bool_optimizer=prof), e)) for e in (1, 2, 1)]
    except Exception as ex:  # noqa
        return [res(name, REFUTED, replayed=True, replay=dict(kind=kind, observed=f"raises {type(ex).__name__}: {ex}"[:300], expected="every use succeeds"), **base)]
    bad = [i for i in range(len(got)) if got[i] != exp[i]]
    if bad:
        i = bad[0]
        return [res(name, REFUTED, replayed=True, replay=dict(kind=kind, use_number=i + 1, observed=str(got[i])[:500], with_a_fresh_definition=str(exp[i])[:500]), **base)]
    return [res(name, PROVED, uses=len(got), **base)]


def _dispatch(j):
    f, a = j
    return f(a)


def run(tier, only=None):
    from qlasskit.algorithms.qalgorithm import oraclize
    from qlasskit.ast2logic import translate_expression, translate_statement
    from qlasskit.ast2logic.env import Env
    from qlasskit.qlassfun import QlassF
    rep = Report("C07", tier, "exploration", f"./check C07 --tier {tier}")
    jobs = []
    for i in range(len(CALLERS)):
        for mode in ("defs", "inline"):
            for profile in ("default", "fast"):
                jobs.append((job, (i, mode, profile)))
    for cal, els in (("inc", (0, 1, 2, 3)), ("isz", (True, False)), ("neg", (True,)), ("addm", ()), ("tint", (0, 2))):
        for e in els:
            jobs.append((job_oraclize, (cal, e)))
    jobs.append((job_logicfun, None))
    for fk in UF_FORMALS:
        for bk in UF_BODIES:
            for ak in UF_ACTUALS:
                jobs.append((job_uf, (fk, bk, ak)))
    for i in range(len(REDEFINITIONS)):
        for profile in ("default", "fast"):
            jobs.append((job_redefinition, (i, profile)))
    for kind in ("qlassf-defs", "logicfun-tuple", "oraclize-twice"):
        for profile in ("default", "fast"):
            jobs.append((job_reuse, (kind, profile)))
    rep.add(run_pool(_dispatch, jobs))
    rep.under_contract(Env.bind_function, translate_expression, translate_statement, QlassF.to_logicfun, oraclize)
    rep.rule = "one evaluation = one (callee set, caller, passing mode, optimizer profile) decided on all inputs; distinct = distinct caller text x mode; non-trivial = the reference is defined on at least one row"
    rep.extra.update(bounded=dict(family=f"{len(CALLERS)} callers over {len(CALLEES)} callees: variables, tuple elements (bool and integer typed), the same variable twice, arguments swapped w.r.t. equally named formals, "
                                         "constants, nested / sequential / several calls, names chosen to collide with the callee prefix; passed as defs= and defined inline; both profiles; oraclize",
                                  bound="the listed pairs", all_values=True))
    rep.assumptions = ["oracle: pysem of the caller with the callees' pysem in scope (C01's reference semantics)", "bounded family of pairs"]
    rep.samples = [dict(name=r["name"], status=r["status"]) for r in rep.results[:6]]
    return rep


def replay(path):
    import sys
    from ..common import generic_replay
    return generic_replay(sys.modules[__name__], path)
