"""C06 - see c02.py (one contract family on InternalCompiler.compile)."""
from . import c02


def run(tier, only=None):
    return c02.run_for("C06", tier, only)


replay = c02.replay
