"""C01 layer L3 - the whole front end (ast2ast, translator, optimizer profile, CNF step) against the
reference semantics `pysem`, per program, on ALL argument values.  BOUNDED family: never counted as proved."""
import hashlib
import time

from .. import bounded, common, spec
from ..common import PROVED, REFUTED, UNDECIDED, res


def key(src):
    return hashlib.sha1(src.encode()).hexdigest()[:10]


def family(tier, seed=None, front=False):
    """front=True adds bounded.FRONT_ONLY (programs for the front-end checks only: the synthesiser checks C02/C03/C06 key their findings by instance)"""
    fam = [("tests", s) for s in bounded.harvest_tests()] + [("curated", s) for s in bounded.CURATED] + ([("curated", s) for s in bounded.FRONT_ONLY] if front else []) + \
          [("outside", s) for s in bounded.OUTSIDE] + [("generated", s) for s in bounded.generated(tier, common.SEED if seed is None else seed)]
    seen, out = set(), []
    for o, s in fam:
        if s not in seen:
            seen.add(s)
            out.append((o, s))
    return out


def job(a):
    try:
        with bounded.time_budget(bounded.INSTANCE_BUDGET_S):
            return _job(a)
    except bounded.Budget as ex:
        origin, src, profile = a
        return [res(f"C01.L3.from_function[{profile},{origin},{key(src)}]", PROVED, strength="bounded", backend="truth-table", nontrivial=False, outcome="skipped",
                    note=f"instance exceeded its time budget ({ex}): not evaluated, not a verdict", instance_key=src, program=src, profile=profile)]


def _job(a):
    origin, src, profile = a
    t0 = time.time()
    name = f"C01.L3.from_function[{profile},{origin},{key(src)}]"
    base = dict(strength="bounded", backend="truth-table", instance_key=src, program=src, profile=profile)
    if "Q." in src or "Parameter[" in src:
        return [res(name, PROVED, secs=0, nontrivial=False, note="hybrid-gate / parameterised program: outside the classical subset C01 quantifies over", **base)]
    mon = bounded.L1Monitor()
    try:
        with mon:
            qf = bounded.front_end(src, profile)
    except Exception as ex:  # rejected: always allowed by C01
        return [res(name, PROVED, secs=time.time() - t0, nontrivial=False, note=f"rejected: {type(ex).__name__}", outcome="rejected", **base)]
    if not hasattr(qf, "expressions") or not hasattr(qf, "args"):
        return [res(name, PROVED, secs=time.time() - t0, nontrivial=False, note="unbound", **base)]
    et = bounded.expr_tables(qf, 12)
    if et is None:
        return [res(name, PROVED, secs=time.time() - t0, nontrivial=False, note="more than 12 argument bits: not evaluated", outcome="skipped", **base)]
    names, tabs, mask = et
    try:
        ref = bounded.pysem_tables(src, qf, 12)
    except SyntaxError as ex:
        return [res(name, UNDECIDED, secs=time.time() - t0, detail=f"reference could not parse: {ex}", **base)]
    except Exception as ex:  # noqa
        return [res(name, PROVED, secs=time.time() - t0, nontrivial=False, outcome="accepted-reference-rejects",
                    note=f"reference semantics rejects the program statically ({type(ex).__name__}: {ex}); diagnostic only", **base)]
    if "shape_mismatch" in ref:
        r = res(name, REFUTED, secs=time.time() - t0, replayed=True, replay=dict(program=src, observed=ref["shape_mismatch"]), **base)
        return [_blame(r, mon)]
    out = []
    # every return bit must be defined
    missing = [b for b in qf.returns.bitvec if tabs.get(b) is None]
    if missing:
        mon.hits.insert(0, "F-C05-return-tuple-variable") if _returns_tuple_var(src) else None
        r = res(name, REFUTED, secs=time.time() - t0, replayed=True,
                replay=dict(program=src, profile=profile, observed=f"return bits {missing} are not defined by the expressions", expected="every return bit defined"), **base)
        return [_blame(r, mon)]
    care = ref["care"]
    bad_row = None
    for k, b in enumerate(qf.returns.bitvec):
        diff = (tabs[b] ^ ref["ret"][k]) & ref["carebit"][k]
        if diff:
            bad_row = spec.first_row(diff)
            break
    if bad_row is not None:
        n = len(names)
        row = bounded.row_bits(bad_row, n)
        got = [(tabs[b] >> bad_row) & 1 for b in qf.returns.bitvec]
        exp = [((ref["ret"][k] >> bad_row) & 1) if (ref["carebit"][k] >> bad_row) & 1 else "unconstrained" for k in range(len(qf.returns.bitvec))]
        r = res(name, REFUTED, secs=time.time() - t0, replayed=True,
                replay=dict(program=src, profile=profile, input_bits=dict(zip(names, row)), observed_return_bits=got, expected_return_bits=exp,
                            call="qlassf(program, to_compile=False, bool_optimizer=profile).expressions evaluated at the input"), **base)
        return [_blame(r, mon)]
    nontrivial = care != 0 and any(tabs[b] not in (0, mask) for b in qf.returns.bitvec)
    note = None
    if care == 0:
        note = f"reference defined on no row (rejects={ref['rejects']}, overflow={ref['overflow']}, why={ref['why']}): accepted outside the subset - diagnostic"
    r = res(name, PROVED, secs=time.time() - t0, nontrivial=nontrivial, rows=ref["rows"], care_rows=bin(care).count("1"), modular_rows=ref.get("modular_rows"), note=note,
            outcome="accepted" if care else "accepted-reference-rejects", **base)
    out.append(r)
    # truth_table() must report the same rows (small programs)
    if len(names) <= 7 and care:
        tt_name = name.replace("from_function", "truth_table")
        try:
            tt = qf.truth_table()
            ok, badr = True, None
            nin = len(names)
            for line in tt:
                ins = [bool(x) for x in line[:nin]]
                r_idx = sum((1 << i) for i, v in enumerate(ins) if v)
                outs = [bool(x) for x in line[nin:]]
                expo = [bool((tabs[b] >> r_idx) & 1) for b in qf.returns.bitvec]
                if outs != expo:
                    ok, badr = False, (ins, outs, expo)
                    break
            if len(tt) != (1 << nin):
                ok, badr = False, f"{len(tt)} rows"
            if ok:
                out.append(res(tt_name, PROVED, secs=0, **base))
            else:
                out.append(_blame(res(tt_name, REFUTED, secs=0, replayed=True, replay=dict(program=src, profile=profile, observed=str(badr),
                                      expected="each reported row = expressions evaluated on that row"), **base), mon))
        except Exception as ex:  # noqa
            out.append(res(tt_name, REFUTED, secs=0, replayed=True, replay=dict(program=src, observed=f"truth_table raises {type(ex).__name__}: {ex}"), **base))
    return out


def _returns_tuple_var(src):
    """`return <name>` where <name> is a tuple/list-typed argument (the shape of finding F-C05-return-tuple-variable)"""
    import ast
    fd = ast.parse(src).body[0]
    tuple_args = {a.arg for a in fd.args.args if isinstance(a.annotation, ast.Subscript) and getattr(a.annotation.value, "id", "") in ("Tuple", "Qlist", "Qmatrix", "List")}
    return any(isinstance(n, ast.Return) and isinstance(n.value, ast.Name) and n.value.id in tuple_args for n in ast.walk(fd))


def _blame(r, mon):
    if mon.hits:
        r["blame"] = mon.hits[0]
        r["covered_by"] = mon.hits[0]
    return r


def jobs(tier, only=None):
    js = []
    for origin, src in family(tier, front=True):
        for profile in ("default", "fast"):
            js.append((origin, src, profile))
    return js
