"""C01, layer A - contracts on the source-to-source passes (qlasskit/ast2ast) whose output is still plain Python.

ConstantFolder (constantfolder.py): the library folds constant sub-expressions BEFORE translation, so what it computes at compile time must be
what Python computes at run time:

  contract  visit_<Kind>(node) with constant children  ==  ast.Constant(<Python value of node>)      (same value AND same type)
            visit_If / visit_IfExp with a constant test ==  the branch Python takes
            any other node: returned with the same Python meaning (checked by evaluating both)

  * PROVED-CLASS (pyvc + z3, all integers): the real visit_Compare / visit_BinOp / visit_UnaryOp / visit_If / visit_IfExp are executed on nodes
    whose constants are SYMBOLIC mathematical integers; the obligation is `folded value == a <op> b` for ALL integers a, b (Python ints are
    unbounded: no machine-arithmetic assumption).  Covers ==, !=, <, <=, >, >=, +, -, * by a literal, unary -, +, not, and the branch selection.
    Every discharged obligation is accompanied by a vacuity canary: the same run against a WRONG operator must be refuted.
  * BOUNDED (exhaustive on a grid, CPython is the oracle): every operator of the three tables, the folded builtins, subscripts of literal lists,
    chained comparisons, nested expressions: ConstantFolder().visit(parse(e)) is evaluated and compared with eval(e) for constants in -3..9.
"""
import ast
import itertools
import time

from ..common import PROVED, REFUTED, UNDECIDED, res

CMP = {"Eq": "==", "NotEq": "!=", "Lt": "<", "LtE": "<=", "Gt": ">", "GtE": ">="}
BIN = {"Add": "+", "Sub": "-"}
UN = {"USub": "-", "UAdd": "+", "Not": "not "}


def _z3op(op, a, b=None):
    return {"Eq": lambda: a == b, "NotEq": lambda: a != b, "Lt": lambda: a < b, "LtE": lambda: a <= b, "Gt": lambda: a > b, "GtE": lambda: a >= b,
            "Add": lambda: a + b, "Sub": lambda: a - b, "Mult": lambda: a * b, "USub": lambda: -a, "UAdd": lambda: a, "Not": lambda: a == 0}[op]()


def symbolic_jobs():
    out = [("cmp", k) for k in CMP] + [("bin", k) for k in BIN] + [("mulc", c) for c in (-2, 0, 1, 3, 7)] + [("un", k) for k in UN]
    out += [("if", None), ("ifexp", None)]
    return out


def _same_z(pyvc, z3, got, exp):
    """z3 formula: the folded value `got` (SymZ / SymBool / Python constant) equals the expected term `exp`, with the same type"""
    if isinstance(got, pyvc.SymZ):
        return None if z3.is_bool(exp) else got.z == exp
    if isinstance(got, pyvc.SymBool):
        return got.z == exp if z3.is_bool(exp) else None
    if isinstance(got, bool):
        return exp == z3.BoolVal(got) if z3.is_bool(exp) else None
    if isinstance(got, int):
        return None if z3.is_bool(exp) else exp == z3.IntVal(got)
    return None


def job_symbolic(arg):
    import z3
    from qlasskit.ast2ast.constantfolder import ConstantFolder
    from .. import pyvc
    kind, op = arg
    t0 = time.time()
    a, b = z3.Int("a"), z3.Int("b")
    A, B = pyvc.SymZ(a), pyvc.SymZ(b)
    marker_t, marker_e = ast.Name(id="THEN", ctx=ast.Load()), ast.Name(id="ELSE", ctx=ast.Load())
    if kind == "cmp":
        node = lambda: ast.Compare(left=ast.Constant(A), ops=[getattr(ast, op)()], comparators=[ast.Constant(B)])  # noqa: E731
        meth, spec, wrong, shown = ConstantFolder.visit_Compare, _z3op(op, a, b), _z3op({"Eq": "NotEq", "NotEq": "Eq", "Lt": "LtE", "LtE": "Lt", "Gt": "GtE", "GtE": "Gt"}[op], a, b), f"a {CMP[op]} b"
    elif kind == "bin":
        node = lambda: ast.BinOp(left=ast.Constant(A), op=getattr(ast, op)(), right=ast.Constant(B))  # noqa: E731
        meth, spec, wrong, shown = ConstantFolder.visit_BinOp, _z3op(op, a, b), _z3op("Sub" if op == "Add" else "Add", a, b), f"a {BIN[op]} b"
    elif kind == "mulc":
        node = lambda: ast.BinOp(left=ast.Constant(A), op=ast.Mult(), right=ast.Constant(op))  # noqa: E731
        meth, spec, wrong, shown = ConstantFolder.visit_BinOp, a * op, a * op + 1, f"a * {op}"
    elif kind == "un":
        node = lambda: ast.UnaryOp(op=getattr(ast, op)(), operand=ast.Constant(A))  # noqa: E731
        meth, spec, wrong, shown = ConstantFolder.visit_UnaryOp, _z3op(op, a), (a != 0 if op == "Not" else _z3op(op, a) + 1), f"{UN[op]}a"
    elif kind == "if":
        node = lambda: ast.If(test=ast.Constant(A), body=[marker_t], orelse=[marker_e])  # noqa: E731
        meth, spec, wrong, shown = ConstantFolder.visit_If, None, None, "if a: THEN else: ELSE"
    else:
        node = lambda: ast.IfExp(test=ast.Constant(A), body=marker_t, orelse=marker_e)  # noqa: E731
        meth, spec, wrong, shown = ConstantFolder.visit_IfExp, None, None, "THEN if a else ELSE"
    name = f"C01.A.ConstantFolder.{meth.__name__}.value[{shown}; all integers]"
    base = dict(strength="proved-class", backend="z3", function="qlasskit.ast2ast.constantfolder.ConstantFolder." + meth.__name__)
    eng = pyvc.Engine()
    try:
        paths = eng.explore(lambda vc: (meth, [ConstantFolder(), node()], {}))
    except pyvc.Unsupported as ex:
        return [res(name, UNDECIDED, detail=f"Unsupported: {ex}", **base)]
    verdict, canary_refuted, model_txt, npaths = PROVED, False, None, 0
    for p_ in paths:
        npaths += 1
        if p_.kind != "return":
            return [res(name, REFUTED, replayed=False, detail=f"raises {p_.value!r}"[:300], solver_output=f"path raises {p_.value!r}"[:300], **base)]
        v = p_.value
        if kind in ("if", "ifexp"):
            took_then = (v == [marker_t]) if kind == "if" else (v is marker_t)
            took_else = (v == [marker_e]) if kind == "if" else (v is marker_e)
            if not (took_then or took_else):
                return [res(name, REFUTED, replayed=False, detail=f"returns {ast.dump(v) if isinstance(v, ast.AST) else v!r}"[:300], solver_output="neither branch returned", **base)]
            goal = (a != 0) if took_then else (a == 0)
            bad_goal = (a == 0) if took_then else (a != 0)
        else:
            if not isinstance(v, ast.Constant):
                return [res(name, REFUTED, replayed=False, detail=f"not folded: {ast.dump(v)}"[:300], solver_output="result is not ast.Constant", **base)]
            goal = _same_z(pyvc, z3, v.value, spec)
            bad_goal = _same_z(pyvc, z3, v.value, wrong)
            if goal is None:
                return [res(name, REFUTED, replayed=False, detail=f"folded value {v.value!r} has the wrong type", solver_output="type mismatch", **base)]
        st, model, secs, backend = pyvc.solve(p_.hyps(), goal, 10000)
        if st != PROVED:
            verdict = st
            model_txt = str(model)[:300]
            cm = {str(d): model[d].as_long() for d in model.decls()} if model is not None else {}
            break
        st2, _, _, _ = pyvc.solve(p_.hyps(), bad_goal, 10000)
        canary_refuted = canary_refuted or st2 == REFUTED
    if verdict == PROVED:
        if not canary_refuted or not npaths:
            return [res(name, "engine-error", detail="vacuity canary: the obligation against a WRONG operator was not refuted", **base)]
        return [res(name, PROVED, secs=time.time() - t0, paths=npaths, canary="wrong operator refuted", **base)]
    if verdict != REFUTED:
        return [res(name, UNDECIDED, detail=model_txt, **base)]
    # replay the counter-model on the real, uninstrumented class
    av, bv = cm.get("a", 0), cm.get("b", 0)
    src = {"cmp": f"({av}) {CMP.get(op, '')} ({bv})", "bin": f"({av}) {BIN.get(op, '')} ({bv})", "mulc": f"({av}) * ({op})", "un": f"{UN.get(op, '')}({av})",
           "if": None, "ifexp": f"(1 if ({av}) else 2)"}[kind]
    replayed, rp = False, dict(a=av, b=bv, expression=src)
    if src:
        tree = ast.parse(src, mode="eval")
        folded = ConstantFolder().visit(tree)
        ast.fix_missing_locations(folded)
        got = eval(compile(folded, "<folded>", "eval"))
        exp = eval(src)
        replayed = not (got == exp and type(got) is type(exp))
        rp.update(folded=ast.unparse(folded), observed=repr(got), expected=repr(exp))
    else:
        tree = ast.parse(f"if {av}:\n\tr = 1\nelse:\n\tr = 2")
        folded = ConstantFolder().visit(tree)
        ast.fix_missing_locations(folded)
        ns = {}
        exec(compile(folded, "<folded>", "exec"), ns)
        exp = 1 if av else 2
        replayed = ns.get("r") != exp
        rp.update(folded=ast.unparse(folded), observed=repr(ns.get("r")), expected=repr(exp))
    if not replayed:
        return [res(name, UNDECIDED, detail=f"counter-model {cm} does not replay on the real code", **base)]
    return [res(name, REFUTED, replayed=True, replay=rp, solver_output=model_txt, **base)]


# ---- bounded: exhaustive grid, CPython oracle -----------------------------------------------------------------------------------------

GRID = list(range(-3, 10))


def grid_jobs():
    return ["Add", "Sub", "Mult", "Div", "FloorDiv", "Mod", "Pow", "LShift", "RShift", "BitOr", "BitXor", "BitAnd", "compare", "unary", "calls", "subscript", "nested", "branches"]


def _templates(group):
    binsym = {"Add": "+", "Sub": "-", "Mult": "*", "Div": "/", "FloorDiv": "//", "Mod": "%", "Pow": "**", "LShift": "<<", "RShift": ">>", "BitOr": "|", "BitXor": "^", "BitAnd": "&"}
    if group in binsym:
        vals = GRID if group not in ("Pow", "LShift") else range(-3, 7)
        for a_, b_ in itertools.product(vals, vals):
            yield f"({a_}) {binsym[group]} ({b_})", {}
    elif group == "compare":
        for opx in ("==", "!=", "<", "<=", ">", ">=", "is", "is not"):
            for a_, b_ in itertools.product(range(-2, 5), repeat=2):
                yield f"({a_}) {opx} ({b_})", {}
        for a_ in range(0, 4):
            for lst in ("[0, 2]", "(1, 3)", "[]"):
                yield f"{a_} in {lst}", {}
                yield f"{a_} not in {lst}", {}
        for a_, b_, c_ in itertools.product(range(0, 3), repeat=3):
            yield f"{a_} < {b_} <= {c_}", {}
        for t_ in ("True == 1", "True != False", "True < 2", "False >= False", "'a' == 'a'", "'a' < 'b'"):
            yield t_, {}
    elif group == "unary":
        for a_ in list(GRID) + ["True", "False"]:
            for u in ("-", "+", "~", "not "):
                yield f"{u}({a_})", {}
                yield f"{u}{u}({a_})", {}
    elif group == "calls":
        for vals in itertools.product(range(-2, 4), repeat=3):
            lst = ", ".join(map(str, vals))
            for f in ("min", "max", "sum", "len", "any", "all"):
                yield f"{f}([{lst}])", {}
                yield f"{f}(({lst}))", {}
            yield f"abs({vals[0]})", {}
            yield f"min({lst})", {}
            yield f"max({vals[0]}, {vals[1]})", {}
        for a_ in (0, 48, 65, 97, 122):
            yield f"chr({a_})", {}
            yield f"ord(chr({a_}))", {}
        yield "ord('a')", {}
        yield "len([x, 2])", {"x": 5}
        yield "min([x, 2])", {"x": 5}
        yield "min([x, 2])", {"x": 1}
    elif group == "subscript":
        for i in range(-3, 3):
            yield f"[4, 5, 6][{i}]", {}
            yield f"[4, x, 6][{i}]", {"x": 7}
        yield "[[1, 2], [3, 4]][1][0]", {}
        yield "[1, 2][1 - 1]", {}
    elif group == "nested":
        for a_, b_, c_ in itertools.product(range(-1, 4), repeat=3):
            yield f"(({a_}) + ({b_})) * ({c_}) - (({a_}) >= ({b_}))", {}
            yield f"(x + ({a_})) if ({b_}) >= ({c_}) else (x - ({a_}))", {"x": 10}
            yield f"(({a_}) < ({b_})) and (({b_}) <= ({c_})) or x", {"x": 0}
            yield f"x + ({a_}) * ({b_}) - ({c_})", {"x": 3}
    elif group == "branches":
        for a_ in range(-1, 3):
            for b_ in range(-1, 3):
                yield ("stmt", f"if {a_} >= {b_}:\n\tr = x + 1\nelse:\n\tr = x - 1"), {"x": 4}
                yield ("stmt", f"r = 0\nif {a_} > {b_}:\n\tr = 5\nelif {a_} == {b_}:\n\tr = 6"), {"x": 0}
                yield ("stmt", f"r = 9\nif {a_} < {b_}:\n\tpass\nelse:\n\tr = x"), {"x": 2}


def job_grid(group):
    import warnings
    from qlasskit.ast2ast.constantfolder import ConstantFolder
    warnings.simplefilter("ignore", SyntaxWarning)
    name = f"C01.A.ConstantFolder.grid[{group}]"
    base = dict(strength="bounded", backend="cpython", function="qlasskit.ast2ast.constantfolder.ConstantFolder")
    n = 0
    for tpl, env in _templates(group):
        n += 1
        stmt = isinstance(tpl, tuple)
        src = tpl[1] if stmt else tpl
        try:
            if stmt:
                ns = dict(env)
                exec(compile(ast.parse(src), "<orig>", "exec"), ns)
                exp = ("value", ns.get("r"))
            else:
                exp = ("value", eval(src, dict(env)))
        except Exception as ex:  # noqa
            exp = ("raises", type(ex).__name__)
        try:
            tree = ast.parse(src) if stmt else ast.parse(src, mode="eval")
            folded = ConstantFolder().visit(tree)
            ast.fix_missing_locations(folded)
            # constants holding lists (ast.Constant([..]) is produced for literal lists given to builtins) are not compilable: evaluate via unparse
            if stmt:
                ns = dict(env)
                exec(compile(ast.parse(ast.unparse(folded)), "<folded>", "exec"), ns)
                got = ("value", ns.get("r"))
            else:
                got = ("value", eval(ast.unparse(folded), dict(env)))
        except Exception as ex:  # noqa
            got = ("raises", type(ex).__name__)
        same = got == exp and (got[0] == "raises" or type(got[1]) is type(exp[1]))
        if exp[0] == "raises" and got[0] == "raises":
            same = True          # a program that raises at run time may be rejected at compile time with any exception
        if not same:
            return [res(name, REFUTED, replayed=True, replay=dict(source=src, env=env, observed=repr(got), expected=repr(exp),
                                                                  call="ConstantFolder().visit(ast.parse(source)) evaluated by CPython vs the source evaluated by CPython"), **base)]
    return [res(name, PROVED, cases=n, **base)]


def jobs(tier):
    return [("sym", j) for j in symbolic_jobs()] + [("grid", g) for g in grid_jobs()]


def job(a):
    kind, arg = a
    return job_symbolic(arg) if kind == "sym" else job_grid(arg)
