"""pyvc - verification-condition generation by forward symbolic execution of the REAL source.

The source of each function under contract is re-read from the live module on every run,
instrumented mechanically (every call / operator / comparison / truth test goes through a hook of
the `VC` object) and executed by CPython.  Concrete sub-computations are CPython's own; symbolic
values are

  SymExpr  an opaque sympy Boolean known only by its denotation (a z3 Bool),
  SymBool  a symbolic Python bool,
  SymChar  a symbolic character that is '1' or '0',  SymStr a list of characters.

What the extraction drops: decorators (the raw function is taken; binding is redone by the call
hook), annotations and docstrings are kept but never evaluated differently.  What it refuses:
yield / async / with / global / nonlocal / match  ->  Unsupported.
"""
import ast
import builtins
import inspect
import operator
import textwrap
import types
import typing

import sympy
import z3
from sympy.logic import boolalg


class Unsupported(Exception):
    """The engine cannot follow the code here.  Never a verdict: the obligation is undecided."""


# ----------------------------------------------------------------------------------------------
# symbolic values

class SymExpr:
    """Opaque sympy Boolean.  leaf=True: stands for an arbitrary *non-literal* operand formula.
    leaf=False: built by the function under verification; whether sympy would have collapsed it to
    a literal is unknown, so literal tests on it are refused."""
    __slots__ = ("z", "leaf")

    def __init__(self, z, leaf=False):
        self.z, self.leaf = z, leaf

    def __bool__(self):
        # sympy: every Boolean other than `false` is truthy (no __bool__ on Basic)
        if self.leaf:
            return True
        raise Unsupported("truth value of a derived opaque expression")

    def __eq__(self, o):
        raise Unsupported("structural == on an opaque expression")

    def __ne__(self, o):
        raise Unsupported("structural != on an opaque expression")

    def __hash__(self):
        raise Unsupported("hash of an opaque expression")

    def __getattr__(self, n):
        if n.startswith("__") and n.endswith("__"):
            raise AttributeError(n)
        raise Unsupported(f"attribute .{n} of an opaque expression")

    def __repr__(self):
        return f"<E {self.z}>"

    def __format__(self, spec):
        return "<opaque-expr>"

    __str__ = __repr__

    def __and__(self, o): return m_and(self, o)
    def __rand__(self, o): return m_and(o, self)
    def __or__(self, o): return m_or(self, o)
    def __ror__(self, o): return m_or(o, self)
    def __xor__(self, o): return m_xor(self, o)
    def __rxor__(self, o): return m_xor(o, self)
    def __invert__(self): return m_not(self)


class SymBool:
    __slots__ = ("z",)

    def __init__(self, z):
        self.z = z

    def __bool__(self):
        raise Unsupported("native truth test of a symbolic bool")

    def __eq__(self, o):
        raise Unsupported("native == on a symbolic bool")

    def __hash__(self):
        raise Unsupported("hash of a symbolic bool")

    def __repr__(self):
        return f"<b {self.z}>"


class SymZ:
    """a mathematical integer (z3 Int term): linear arithmetic and comparisons only.  Python ints are unbounded, so no machine-arithmetic
    assumption is made."""
    __slots__ = ("z",)

    def __init__(self, z):
        self.z = z

    def __bool__(self):
        raise Unsupported("native truth test of a symbolic integer")

    def __eq__(self, o):
        raise Unsupported("native == on a symbolic integer")

    def __hash__(self):
        raise Unsupported("hash of a symbolic integer")

    def __index__(self):
        raise Unsupported("symbolic integer used as an index")

    def __repr__(self):
        return f"<z {self.z}>"


def _zi(x):
    if isinstance(x, SymZ):
        return x.z
    if isinstance(x, bool) or not isinstance(x, int):
        raise Unsupported(f"arithmetic between a symbolic integer and {type(x).__name__}")
    return z3.IntVal(x)


class SymChar:
    """a character that is '1' if z else '0'"""
    __slots__ = ("z",)

    def __init__(self, z):
        self.z = z

    def __eq__(self, o):
        raise Unsupported("native == on a symbolic char")

    def __hash__(self):
        raise Unsupported("hash of a symbolic char")

    def __repr__(self):
        return f"<c {self.z}>"


class SymStr(list):
    """a string of concrete length whose characters are '0'/'1' literals or SymChar"""

    def __getitem__(self, i):
        r = list.__getitem__(self, i)
        return SymStr(r) if isinstance(i, slice) else r

    def __add__(self, o):
        return SymStr(list(self) + _chars(o))

    def __radd__(self, o):
        return SymStr(_chars(o) + list(self))

    def __iadd__(self, o):  # strings are immutable: += rebinds
        return SymStr(list(self) + _chars(o))

    def startswith(self, p):
        if len(p) == 0:
            return True
        head = list(self[: len(p)])
        if len(head) < len(p):
            return False
        if all(isinstance(c, str) for c in head):
            return "".join(head) == p
        # '0b' prefix test on a string of binary digits: a symbolic char is '0' or '1', never 'b'
        for c, q in zip(head, p):
            if isinstance(c, str):
                if c != q:
                    return False
            elif q not in "01":
                return False
            else:
                raise Unsupported("startswith over symbolic characters")
        return True

    def __repr__(self):
        return "S" + list.__repr__(self)


def _chars(o):
    if isinstance(o, SymChar):
        return [o]
    if isinstance(o, str):
        return list(o)
    if isinstance(o, SymStr):
        return list(o)
    raise Unsupported(f"string concatenation with {type(o).__name__}")


def is_sym(x):
    return isinstance(x, (SymExpr, SymBool, SymChar, SymStr, SymZ))


# ----------------------------------------------------------------------------------------------
# denotation of formulas

class Hole(boolalg.BooleanFunction):
    """A real sympy Boolean node of a kind NO code under verification knows: Hole(Symbol('k')) stands for an arbitrary sub-tree whose top node
    is none of the kinds the code inspects (the inspected kinds are enumerated as explicit patterns).  Its meaning is the free variable hole_k."""
    nargs = 1

    @classmethod
    def eval(cls, *a):
        return None


class UFun(boolalg.BooleanFunction):
    """Base of UNINTERPRETED boolean functions: a subclass made by `ufun(name)` applied to real sympy arguments is a real sympy node that
    substitution (`xreplace`, `subs`) traverses like any other, and whose meaning is the z3 uninterpreted function `name` of the meanings of
    its arguments.  An obligation proved about it holds for EVERY boolean function in its place (used for arbitrary callee bodies in C07)."""

    @classmethod
    def eval(cls, *a):
        return None


_UFUNS = {}


def ufun(name):
    if name not in _UFUNS:
        _UFUNS[name] = type(name, (UFun,), {})
    return _UFUNS[name]


def sympy_to_z3(e):
    """Standard meaning of a real sympy Boolean tree, node by node."""
    if isinstance(e, Hole):
        return z3.Bool("hole_" + e.args[0].name)
    if isinstance(e, UFun):
        f = z3.Function(type(e).__name__, *([z3.BoolSort()] * (len(e.args) + 1)))
        return f(*[sympy_to_z3(a) for a in e.args])
    if e is True or e is sympy.true:
        return z3.BoolVal(True)
    if e is False or e is sympy.false:
        return z3.BoolVal(False)
    if isinstance(e, sympy.Symbol):
        return z3.Bool(e.name)
    if isinstance(e, boolalg.Not):
        return z3.Not(sympy_to_z3(e.args[0]))
    if isinstance(e, boolalg.And):
        return z3.And(*[sympy_to_z3(a) for a in e.args])
    if isinstance(e, boolalg.Or):
        return z3.Or(*[sympy_to_z3(a) for a in e.args])
    if isinstance(e, boolalg.Xor):
        return xor_all([sympy_to_z3(a) for a in e.args])
    if isinstance(e, boolalg.ITE):
        return z3.If(*[sympy_to_z3(a) for a in e.args])
    if isinstance(e, boolalg.Implies):
        return z3.Implies(*[sympy_to_z3(a) for a in e.args])
    if isinstance(e, boolalg.Equivalent):
        zs = [sympy_to_z3(a) for a in e.args]
        return z3.And(*[zs[0] == x for x in zs[1:]])
    if isinstance(e, boolalg.Nand):
        return z3.Not(z3.And(*[sympy_to_z3(a) for a in e.args]))
    if isinstance(e, boolalg.Nor):
        return z3.Not(z3.Or(*[sympy_to_z3(a) for a in e.args]))
    if isinstance(e, boolalg.Xnor):
        return z3.Not(xor_all([sympy_to_z3(a) for a in e.args]))
    raise Unsupported(f"no standard boolean meaning for sympy node {type(e).__name__}: {e}")


def den(x):
    if isinstance(x, SymExpr):
        return x.z
    if isinstance(x, SymBool):
        return x.z
    if isinstance(x, z3.BoolRef):
        return x
    if isinstance(x, (bool, sympy.Basic)) or x is sympy.true or x is sympy.false:
        return sympy_to_z3(x)
    raise Unsupported(f"denotation of {type(x).__name__} {x!r}")


def is_exp(x):
    return isinstance(x, (SymExpr, bool, boolalg.Boolean, sympy.Symbol))


def xor_all(zs):
    if not zs:
        return z3.BoolVal(False)
    r = zs[0]
    for a in zs[1:]:
        r = z3.Xor(r, a)
    return r


def _sym_args(a):
    return any(isinstance(x, SymExpr) for x in a)


def _chk(a):
    for x in a:
        if not is_exp(x):
            raise Unsupported(f"boolean constructor applied to {type(x).__name__}")


def m_and(*a, **k):
    if not _sym_args(a):
        return boolalg.And(*a, **k)
    _chk(a)
    return SymExpr(z3.And(*[den(x) for x in a]))


def m_or(*a, **k):
    if not _sym_args(a):
        return boolalg.Or(*a, **k)
    _chk(a)
    return SymExpr(z3.Or(*[den(x) for x in a]))


def m_not(a):
    if not isinstance(a, SymExpr):
        return boolalg.Not(a)
    return SymExpr(z3.Not(a.z))


def m_xor(*a, **k):
    if not _sym_args(a):
        return boolalg.Xor(*a, **k)
    _chk(a)
    return SymExpr(xor_all([den(x) for x in a]))


def m_ite(c, t, e):
    if not _sym_args((c, t, e)):
        return boolalg.ITE(c, t, e)
    _chk((c, t, e))
    return SymExpr(z3.If(den(c), den(t), den(e)))


def m_implies(a, b):
    if not _sym_args((a, b)):
        return boolalg.Implies(a, b)
    _chk((a, b))
    return SymExpr(z3.Implies(den(a), den(b)))


def m_symbol(name, *a, **k):
    return SymExpr(z3.Bool(name), leaf=True)


SYMPY_MODELS = {
    boolalg.And: m_and, boolalg.Or: m_or, boolalg.Not: m_not, boolalg.Xor: m_xor,
    boolalg.ITE: m_ite, boolalg.Implies: m_implies,
}

BINOPS = {"Add": operator.add, "Sub": operator.sub, "Mult": operator.mul, "Pow": operator.pow,
          "Mod": operator.mod, "BitAnd": operator.and_, "BitOr": operator.or_, "BitXor": operator.xor,
          "Div": operator.truediv, "FloorDiv": operator.floordiv, "LShift": operator.lshift,
          "RShift": operator.rshift, "MatMult": operator.matmul}
IOPS = {"Add": operator.iadd, "Sub": operator.isub, "Mult": operator.imul, "Pow": operator.ipow,
        "Mod": operator.imod, "BitAnd": operator.iand, "BitOr": operator.ior, "BitXor": operator.ixor,
        "Div": operator.itruediv, "FloorDiv": operator.ifloordiv, "LShift": operator.ilshift,
        "RShift": operator.irshift, "MatMult": operator.imatmul}
CMPS = {"Eq": operator.eq, "NotEq": operator.ne, "Lt": operator.lt, "LtE": operator.le,
        "Gt": operator.gt, "GtE": operator.ge, "Is": operator.is_, "IsNot": operator.is_not,
        "In": lambda a, b: a in b, "NotIn": lambda a, b: a not in b}

# native callables that never look at the leaves of the containers they are given
STRUCTURAL = {len, zip, list, tuple, reversed, enumerate, range, typing.cast, issubclass, hasattr,
              getattr, id, type, iter, next, dict, set, frozenset, print, typing.get_args,
              typing.get_origin, setattr, super}


class PathEnd(Exception):
    pass


class LoopCut(BaseException):
    """raised by a loop controller after ONE iteration from an arbitrary (havocked) state: carries the state reached"""

    def __init__(self, state):
        self.state = state


class VC:
    """Runtime of the hooks for ONE path.  `decisions` is the prefix of branch decisions to
    replay; new symbolic branches extend it with True first."""

    def __init__(self, engine, decisions):
        self.e = engine
        self.decisions = list(decisions)
        self.pos = 0
        self.pc = []          # path condition (z3)
        self.assumed = []     # postconditions of callees used by contract
        self.call_obls = []   # (name, pc-snapshot, formula): preconditions of callees at call sites
        self.log = []
        self.fresh = 0

    # -- helpers ------------------------------------------------------------------------------
    def fresh_name(self, tag):
        self.fresh += 1
        return f"{tag}!{self.fresh}"

    def decide(self, z):
        if getattr(self.e, "prune", False):
            # feasibility pruning (optional): a branch whose condition contradicts the path condition and the base hypotheses is not explored
            zs = z3.simplify(z)
            if z3.is_true(zs) or z3.is_false(zs):
                return z3.is_true(zs)
            base = list(getattr(self.e, "base_hyps", [])) + list(self.pc)
            s_ = z3.Solver()
            s_.set("timeout", 2000)
            s_.add(*base)
            can_t = s_.check(z) != z3.unsat
            can_f = s_.check(z3.Not(z)) != z3.unsat
            if can_t != can_f:
                self.pc.append(z if can_t else z3.Not(z))
                return can_t
        if self.pos < len(self.decisions):
            d = self.decisions[self.pos]
        else:
            d = True
            self.decisions.append(d)
        self.pos += 1
        self.pc.append(z if d else z3.Not(z))
        return d

    # -- hooks --------------------------------------------------------------------------------
    def call(self, f, *a, **k):
        e = self.e
        key = getattr(f, "__func__", f)
        try:
            hit = key in e.models
        except (TypeError, Unsupported):
            hit = False
        if hit:
            return e.models[key](self, f, *a, **k)
        if key in SYMPY_MODELS:
            return SYMPY_MODELS[key](*a, **k)
        if key is sympy.Symbol and e.opaque_symbols:
            return m_symbol(*a, **k)
        if e.modular and key in e.contracts:
            return e.contracts[key](self, f, a, k)
        nf = e.instr(f)
        if nf is not f:
            return nf(*a, **k)
        code = getattr(getattr(f, "__func__", f), "__code__", None)
        if code is not None and code.co_filename.startswith("<vc:"):
            return f(*a, **k)     # defined inside instrumented code: already hooked
        return self.native(f, a, k)

    def native(self, f, a, k):
        if f is isinstance:
            return self.isinstance_(*a)
        if f in OPERATOR_FUNCS and builtins.any(isinstance(x, (SymZ, SymBool)) for x in a):
            kind, op = OPERATOR_FUNCS[f]
            if kind == "cmp":
                return self.compare(op, *a)
            if kind == "bin":
                return self.binop(op, *a)
            return self.unop(op, *a)
        if f is map:
            return [self.call(a[0], *xs) for xs in zip(*a[1:])]
        if f is filter:
            return [x for x in a[1] if self.truth(self.call(a[0], x) if a[0] is not None else x)]
        if (f is sum or f is max or f is min) and a and (builtins.any(isinstance(x, (SymZ, SymBool)) for x in a)
                                                          or (isinstance(a[0], (list, tuple)) and builtins.any(isinstance(x, (SymZ, SymBool)) for x in a[0]))):
            # Python's own definitions, replayed through the hooks: sum = left fold of +; max / min keep the FIRST extremal element
            xs = list(a[0]) if (len(a) == 1 and isinstance(a[0], (list, tuple))) else list(a)
            if f is sum:
                acc = a[1] if len(a) > 1 else 0
                for x in xs:
                    acc = self.binop("Add", acc, x)
                return acc
            if not xs:
                raise ValueError("max()/min() of an empty sequence")
            best = xs[0]
            for x in xs[1:]:
                if self.truth(self.compare("Gt" if f is max else "Lt", x, best)):
                    best = x
            return best
        if f is all or f is any:
            vals = list(a[0])
            if builtins.any(is_sym(v) for v in vals):
                zs = [self._zb(v) for v in vals]
                return SymBool(z3.And(*zs) if f is all else z3.Or(*zs))
            return f(vals)
        if f is int and a and isinstance(a[0], SymStr):
            return self.int_of_symstr(*a)
        if f is str and a and isinstance(a[0], SymStr):
            return a[0]
        if f is bool and a and isinstance(a[0], SymBool):
            return a[0]
        if isinstance(f, types.BuiltinMethodType) and isinstance(getattr(f, "__self__", None), str) \
                and f.__name__ == "join":
            parts = list(a[0])
            if builtins.any(isinstance(p, (SymChar, SymStr)) for p in parts):
                if f.__self__ != "":
                    raise Unsupported("join with a separator over symbolic characters")
                out = []
                for p in parts:
                    out.extend(_chars(p))
                return SymStr(out)
            return f(parts)
        if f in STRUCTURAL or isinstance(f, type):
            return f(*a, **k)
        if isinstance(f, types.BuiltinMethodType) and isinstance(getattr(f, "__self__", None), (list, dict, tuple, set)) \
                and not isinstance(f.__self__, SymStr):
            # container methods never look inside their elements except through ==/hash, which opaque values refuse
            return f(*a, **k)
        if builtins.any(is_sym(x) for x in a) or builtins.any(is_sym(x) for x in k.values()):
            raise Unsupported(f"native callable {getattr(f, '__qualname__', f)!r} applied to a symbolic value")
        return f(*a, **k)

    def isinstance_(self, x, t):
        if isinstance(x, SymExpr):
            ts = t if isinstance(t, tuple) else (t,)
            ans = False
            for one in ts:
                if one in (boolalg.BooleanTrue, boolalg.BooleanFalse, boolalg.BooleanAtom):
                    if not x.leaf:
                        raise Unsupported("literal test on a derived opaque expression")
                elif one in (boolalg.Boolean, sympy.Basic, object):
                    ans = True
                elif one in (list, tuple, str, int, float, bool, dict, typing.List, typing.Tuple, ast.AST,
                             ast.Constant, ast.Name):
                    pass
                else:
                    raise Unsupported(f"isinstance(opaque, {one})")
            return ans
        if isinstance(x, SymStr):
            return t is str or (isinstance(t, tuple) and str in t)
        if isinstance(x, SymBool):
            return t in (bool, int, object) or (isinstance(t, tuple) and (bool in t or int in t))
        if isinstance(x, SymChar):
            return t is str
        return isinstance(x, t)

    def _zb(self, v):
        if isinstance(v, SymBool):
            return v.z
        if isinstance(v, (SymExpr, SymChar, SymStr)):
            raise Unsupported("truth of non-bool symbolic value")
        return z3.BoolVal(bool(v))

    def int_of_symstr(self, s, base=10):
        if base != 2:
            raise Unsupported("int(symbolic string) with base != 2")
        return SymInt([c for c in reversed(s)])  # little-endian characters

    def binop(self, op, l, r):
        if isinstance(l, SymZ) or isinstance(r, SymZ):
            a, b = _zi(l), _zi(r)
            if op == "Add":
                return SymZ(a + b)
            if op == "Sub":
                return SymZ(a - b)
            if op == "Mult" and not (isinstance(l, SymZ) and isinstance(r, SymZ)):
                return SymZ(a * b)
            # exact on mathematical integers when the right operand is a positive literal: Python's // and % floor like z3's div / mod
            if isinstance(r, int) and not isinstance(r, bool):
                if op == "LShift" and 0 <= r <= 64:
                    return SymZ(a * (2 ** r))
                if op == "RShift" and 0 <= r <= 64:
                    return SymZ(a / z3.IntVal(2 ** r))
                if op == "FloorDiv" and r > 0:
                    return SymZ(a / z3.IntVal(r))
                if op == "Mod" and r > 0:
                    return SymZ(a % z3.IntVal(r))
            if getattr(self.e, "int_uf", False) and op in ("BitAnd", "BitOr", "BitXor", "LShift", "RShift", "Mod", "FloorDiv", "Mult", "Pow"):
                # UNINTERPRETED: sound for proving two programs equal (congruence), may yield spurious counter-models - the caller must replay
                self.e.uf_applied = getattr(self.e, "uf_applied", 0) + 1
                return SymZ(z3.Function("py_" + op, z3.IntSort(), z3.IntSort(), z3.IntSort())(a, b))
            raise Unsupported(f"operator {op} on a symbolic integer")
        if isinstance(l, SymExpr) or isinstance(r, SymExpr):
            if op == "BitAnd":
                return m_and(l, r)
            if op == "BitOr":
                return m_or(l, r)
            if op == "BitXor":
                return m_xor(l, r)
            raise Unsupported(f"operator {op} on an opaque expression")
        if isinstance(l, (SymStr, SymChar)) or isinstance(r, (SymStr, SymChar)):
            if op != "Add":
                raise Unsupported(f"operator {op} on a symbolic string")
            return SymStr(_chars(l) + _chars(r))
        if isinstance(l, SymBool) or isinstance(r, SymBool):
            # Python: bool & | ^ bool is a bool; a bool in arithmetic is the integer 0 / 1
            if isinstance(l, (SymBool, bool)) and isinstance(r, (SymBool, bool)) and op in ("BitAnd", "BitOr", "BitXor"):
                a, b = self._zb(l), self._zb(r)
                return SymBool({"BitAnd": z3.And(a, b), "BitOr": z3.Or(a, b), "BitXor": z3.Xor(a, b)}[op])
            if op in ("Add", "Sub", "Mult") and all(isinstance(x, (SymBool, SymZ, int)) for x in (l, r)):
                def as_z(x):
                    return SymZ(z3.If(x.z, z3.IntVal(1), z3.IntVal(0))) if isinstance(x, SymBool) else (int(x) if isinstance(x, bool) else x)
                return self.binop(op, as_z(l), as_z(r))
            raise Unsupported(f"operator {op} on a symbolic bool")
        if isinstance(l, SymInt) or isinstance(r, SymInt):
            raise Unsupported(f"operator {op} on a symbolic int")
        return BINOPS[op](l, r)

    def iop(self, op, l, r):
        if is_sym(l) or is_sym(r) or isinstance(l, SymInt) or isinstance(r, SymInt):
            return self.binop(op, l, r)
        return IOPS[op](l, r)

    def unop(self, op, v):
        if op == "Not":
            t = self.truth_val(v)
            if isinstance(t, SymBool):
                return SymBool(z3.Not(t.z))
            return not t
        if isinstance(v, SymExpr):
            if op == "Invert":
                return m_not(v)
            raise Unsupported(f"unary {op} on opaque expression")
        if isinstance(v, SymZ):
            if op == "USub":
                return SymZ(-v.z)
            if op == "UAdd":
                return v
            if op == "Invert":
                return SymZ(-v.z - 1)          # ~x == -x - 1 on Python integers
        if is_sym(v):
            raise Unsupported(f"unary {op} on symbolic value")
        return {"Invert": operator.invert, "USub": operator.neg, "UAdd": operator.pos}[op](v)

    def compare(self, op, l, r):
        if op in ("Is", "IsNot"):
            return CMPS[op](l, r)
        if isinstance(l, SymZ) or isinstance(r, SymZ):
            if op in ("In", "NotIn"):
                raise Unsupported("membership of a symbolic integer")
            if (l is None or r is None) and op in ("Eq", "NotEq"):
                return op == "NotEq"
            a, b = _zi(l), _zi(r)
            return SymBool({"Eq": a == b, "NotEq": a != b, "Lt": a < b, "LtE": a <= b, "Gt": a > b, "GtE": a >= b}[op])
        if isinstance(l, SymChar) or isinstance(r, SymChar):
            if isinstance(r, SymChar):
                l, r = r, l
            if op in ("Eq", "NotEq") and isinstance(r, str):
                if r == "1":
                    z = l.z
                elif r == "0":
                    z = z3.Not(l.z)
                else:
                    z = z3.BoolVal(False)
                return SymBool(z if op == "Eq" else z3.Not(z))
            raise Unsupported(f"compare {op} on a symbolic char with {r!r}")
        if isinstance(l, SymBool) or isinstance(r, SymBool):
            if op in ("Eq", "NotEq") and (isinstance(l, type) or isinstance(r, type)):
                return op == "NotEq"
            if op in ("Eq", "NotEq") and isinstance(l, (SymBool, bool)) and isinstance(r, (SymBool, bool)):
                z = self._zb(l) == self._zb(r)
                return SymBool(z if op == "Eq" else z3.Not(z))
            if op in ("Eq", "NotEq") and (isinstance(l, int) or isinstance(r, int)):
                b, c = (l, r) if isinstance(l, SymBool) else (r, l)
                z = b.z if c == 1 else (z3.Not(b.z) if c == 0 else z3.BoolVal(False))
                return SymBool(z if op == "Eq" else z3.Not(z))
            raise Unsupported(f"compare {op} on a symbolic bool")
        if isinstance(l, SymExpr) or isinstance(r, SymExpr):
            o = r if isinstance(l, SymExpr) else l
            if op in ("Eq", "NotEq") and isinstance(o, type):
                return op == "NotEq"
            raise Unsupported(f"compare {op} on an opaque expression")
        if isinstance(l, SymStr) or isinstance(r, SymStr):
            raise Unsupported(f"compare {op} on a symbolic string")
        if isinstance(l, SymInt) or isinstance(r, SymInt):
            raise Unsupported(f"compare {op} on a symbolic int")
        if op in ("In", "NotIn") and isinstance(r, (list, tuple)) and builtins.any(is_sym(x) for x in r):
            if is_sym(l):
                raise Unsupported("membership of a symbolic value")
            hit = builtins.any((not is_sym(x)) and x == l for x in r)
            return hit if op == "In" else not hit
        return CMPS[op](l, r)

    def sub(self, value, index):
        if isinstance(index, SymZ) and isinstance(value, (list, tuple)):
            n = len(value)
            for i in range(n):
                if self.decide(index.z == i):
                    return value[i]
            for i in range(1, n + 1):          # Python's from-the-end indices
                if self.decide(index.z == -i):
                    return value[-i]
            raise IndexError("list index out of range")
        return value[index]

    def chain(self, ops, *thunks):
        """Python's chained comparison: the result is the first falsy comparison, else the last one"""
        left = thunks[0]()
        r = True
        for op, th in zip(ops, thunks[1:]):
            right = th()
            r = self.compare(op, left, right)
            if not self.truth(r):
                return r
            left = right
        return r

    def truth_val(self, x):
        """truth value as Python bool or SymBool (no fork)"""
        if isinstance(x, SymBool):
            return x
        if isinstance(x, SymExpr):
            return bool(x)
        if isinstance(x, SymChar):
            return True
        if isinstance(x, SymStr):
            return len(x) > 0
        if isinstance(x, SymInt):
            raise Unsupported("truth of symbolic int")
        if isinstance(x, SymZ):
            return SymBool(x.z != 0)
        return bool(x)

    def truth(self, x):
        t = self.truth_val(x)
        if isinstance(t, SymBool):
            zs = z3.simplify(t.z)
            if z3.is_true(zs):
                return True
            if z3.is_false(zs):
                return False
            return self.decide(t.z)
        return t

    def iter(self, iterable, lineno, frame_locals):
        """frame_locals: snapshot of the enclosing frame's locals at loop entry (the mutable objects in it are the live ones)"""
        ctl = self.e.loop_controllers.get(lineno)
        if ctl is None:
            return iterable
        return ctl(self, iterable, frame_locals)

    def boolop(self, op, *thunks):
        v = None
        for th in thunks:
            v = th()
            t = self.truth(v)
            if op == "And" and not t:
                return v
            if op == "Or" and t:
                return v
        return v

    def ifexp(self, test, body, orelse, simple):
        if isinstance(test, SymBool) and simple:
            t, e = body(), orelse()
            if isinstance(t, str) and isinstance(e, str) and len(t) == 1 and len(e) == 1 and {t, e} <= {"0", "1"}:
                if t == e:
                    return t
                return SymChar(test.z if t == "1" else z3.Not(test.z))
            if isinstance(t, (bool, SymBool)) and isinstance(e, (bool, SymBool)):
                return SymBool(z3.If(test.z, self._zb(t), self._zb(e)))
        return body() if self.truth(test) else orelse()


OPERATOR_FUNCS = {
    operator.eq: ("cmp", "Eq"), operator.ne: ("cmp", "NotEq"), operator.lt: ("cmp", "Lt"), operator.le: ("cmp", "LtE"),
    operator.gt: ("cmp", "Gt"), operator.ge: ("cmp", "GtE"),
    operator.add: ("bin", "Add"), operator.sub: ("bin", "Sub"), operator.mul: ("bin", "Mult"),
    operator.neg: ("un", "USub"), operator.pos: ("un", "UAdd"), operator.not_: ("un", "Not"),
}


class SymInt:
    """non-negative integer given by little-endian '0'/'1' characters (possibly symbolic)"""
    __slots__ = ("chars",)

    def __init__(self, chars):
        self.chars = list(chars)

    def bits(self):
        out = []
        for c in self.chars:
            if isinstance(c, SymChar):
                out.append(c.z)
            elif c in ("0", "1"):
                out.append(z3.BoolVal(c == "1"))
            else:
                raise Unsupported(f"int() of non-binary character {c!r}")
        return out

    def __repr__(self):
        return f"<int {self.chars}>"


# ----------------------------------------------------------------------------------------------
# instrumentation

def _hook(name, *args):
    return ast.Call(func=ast.Attribute(value=ast.Name(id="__vc__", ctx=ast.Load()), attr=name, ctx=ast.Load()),
                    args=list(args), keywords=[])


def _thunk(e):
    return ast.Lambda(args=ast.arguments(posonlyargs=[], args=[], kwonlyargs=[], kw_defaults=[], defaults=[]), body=e)


class Instrument(ast.NodeTransformer):
    REFUSED = (ast.Yield, ast.YieldFrom, ast.Await, ast.AsyncFunctionDef, ast.AsyncFor, ast.AsyncWith,
               ast.With, ast.Global, ast.Nonlocal, ast.Match)

    def __init__(self, first_arg):
        self.first_arg = first_arg

    def generic_visit(self, node):
        if isinstance(node, self.REFUSED):
            raise Unsupported(f"{type(node).__name__} is outside the subset pyvc executes")
        return super().generic_visit(node)

    def visit_Call(self, n):
        self.generic_visit(n)
        if isinstance(n.func, ast.Name) and n.func.id == "super" and not n.args:
            return ast.Call(func=ast.Name(id="super", ctx=ast.Load()),
                            args=[ast.Name(id="__vc_cls__", ctx=ast.Load()), ast.Name(id=self.first_arg, ctx=ast.Load())],
                            keywords=[])
        return ast.Call(func=ast.Attribute(value=ast.Name(id="__vc__", ctx=ast.Load()), attr="call", ctx=ast.Load()),
                        args=[n.func] + n.args, keywords=n.keywords)

    def visit_BinOp(self, n):
        self.generic_visit(n)
        return _hook("binop", ast.Constant(type(n.op).__name__), n.left, n.right)

    def visit_UnaryOp(self, n):
        self.generic_visit(n)
        return _hook("unop", ast.Constant(type(n.op).__name__), n.operand)

    def visit_AugAssign(self, n):
        self.generic_visit(n)
        load = ast.parse(ast.unparse(n.target), mode="eval").body
        return ast.Assign(targets=[n.target], value=_hook("iop", ast.Constant(type(n.op).__name__), load, n.value))

    def visit_Compare(self, n):
        self.generic_visit(n)
        if len(n.ops) == 1:
            return _hook("compare", ast.Constant(type(n.ops[0]).__name__), n.left, n.comparators[0])
        # a op1 b op2 c: (a op1 b) and (b op2 c), every operand evaluated at most once, left to right, later ones only if needed
        return _hook("chain", ast.Tuple(elts=[ast.Constant(type(o).__name__) for o in n.ops], ctx=ast.Load()), *[_thunk(v) for v in [n.left] + list(n.comparators)])

    def visit_BoolOp(self, n):
        self.generic_visit(n)
        return _hook("boolop", ast.Constant(type(n.op).__name__), *[_thunk(v) for v in n.values])

    def _t(self, n):
        n.test = _hook("truth", n.test)
        return n

    def visit_If(self, n):
        self.generic_visit(n)
        return self._t(n)

    def visit_While(self, n):
        self.generic_visit(n)
        return self._t(n)

    def visit_Assert(self, n):
        self.generic_visit(n)
        return self._t(n)

    def visit_Subscript(self, n):
        self.generic_visit(n)
        # only LOADS with a plain (non-slice) index go through the hook: a symbolic integer index into a concrete sequence forks over its positions
        if isinstance(n.ctx, ast.Load) and not isinstance(n.slice, (ast.Slice, ast.Tuple)):
            return _hook("sub", n.value, n.slice)
        return n

    def visit_IfExp(self, n):
        simple = all(isinstance(x, (ast.Constant, ast.Name)) for x in (n.body, n.orelse))
        self.generic_visit(n)
        return _hook("ifexp", n.test, _thunk(n.body), _thunk(n.orelse), ast.Constant(simple))

    def visit_comprehension(self, n):
        self.generic_visit(n)
        n.ifs = [_hook("truth", t) for t in n.ifs]
        return n

    def visit_For(self, n):
        # `for x in IT:` -> `for x in __vc__.iter(IT, <line>, <locals thunk>)`: a contract may cut the loop at an invariant (loop controller)
        self.generic_visit(n)
        n.iter = _hook("iter", n.iter, ast.Constant(n.lineno), ast.Call(func=ast.Name(id="locals", ctx=ast.Load()), args=[], keywords=[]))
        return n


class Engine:
    """Holds the instrumented-function cache, the models and the contract table."""

    def __init__(self, modular=False, opaque_symbols=True, prefix="qlasskit"):
        self.cache = {}
        self.models = {}
        self.contracts = {}
        self.modular = modular
        self.opaque_symbols = opaque_symbols
        self.prefix = prefix
        self.instrumented = []   # source_info of every function actually executed through hooks
        self.inline_only = set()
        self.loop_controllers = {}   # source line of a `for` -> controller(vc, iterable, locals_thunk) returning the iterable to use

    def instr(self, f):
        if isinstance(f, types.MethodType):
            nf = self.instr(f.__func__)
            return f if nf is f.__func__ else types.MethodType(nf, f.__self__)
        if not isinstance(f, types.FunctionType):
            return f
        if not (f.__module__ or "").startswith(self.prefix):
            return f
        if f.__code__.co_filename.startswith("<vc:"):
            return f
        if f in self.cache:
            return self.cache[f]
        try:
            lines, start = inspect.getsourcelines(f)
        except (OSError, TypeError):
            return f
        src = textwrap.dedent("".join(lines))
        if f.__name__ == "<lambda>":
            # a lambda's source line is the enclosing statement; instrument the lambda expression only
            tree = ast.parse(src.strip() if not src.lstrip().startswith(".") else "x" + src.strip())
            lams = [n for n in ast.walk(tree) if isinstance(n, ast.Lambda)]
            if len(lams) != 1:
                raise Unsupported("cannot isolate lambda source")
            lam = Instrument("").visit(lams[0])
            mod = ast.Module(body=[ast.Assign(targets=[ast.Name(id="__vc_lambda__", ctx=ast.Store())], value=lam)], type_ignores=[])
            ast.fix_missing_locations(mod)
            g = dict(f.__globals__)
            g["__vc__"] = _Dispatcher(self)
            exec(compile(mod, "<vc:" + (inspect.getsourcefile(f) or "?") + ">", "exec"), g)
            nf = g["__vc_lambda__"]
            self.cache[f] = nf
            return nf
        tree = ast.parse(src)
        ast.increment_lineno(tree, start - 1)
        fd = tree.body[0]
        if not isinstance(fd, ast.FunctionDef):
            raise Unsupported(f"{f.__qualname__}: not a plain function definition")
        fd.decorator_list = []
        fd.returns = None
        for a in fd.args.posonlyargs + fd.args.args + fd.args.kwonlyargs:
            a.annotation = None
        first = fd.args.args[0].arg if fd.args.args else ""
        # default values are evaluated at definition time; the real default objects are re-attached below
        fd.args.defaults = [ast.Constant(None) for _ in fd.args.defaults]
        fd.args.kw_defaults = [None if d is None else ast.Constant(None) for d in fd.args.kw_defaults]
        only_class_cell = bool(f.__closure__) and f.__code__.co_freevars == ("__class__",)
        if only_class_cell:
            # zero-argument super(): the compiler's __class__ cell would be the shell class below; spell the real class out instead
            for n in ast.walk(fd):
                if isinstance(n, ast.Call) and isinstance(n.func, ast.Name) and n.func.id == "super" and not n.args and not n.keywords:
                    n.args = [ast.Name(id="__vc_cls__", ctx=ast.Load()), ast.Name(id=first, ctx=ast.Load())]
                elif isinstance(n, ast.Name) and n.id == "__class__":
                    n.id = "__vc_cls__"
        fd = Instrument(first).visit(fd)
        qual = f.__qualname__.split(".")
        owner = None
        if len(qual) >= 2 and qual[-2] != "<locals>":
            owner = qual[-2]
            body = [ast.ClassDef(name=owner, bases=[], keywords=[], body=[fd], decorator_list=[], type_params=[])]
        else:
            body = [fd]
        mod = ast.Module(body=body, type_ignores=[])
        ast.fix_missing_locations(mod)
        g = dict(f.__globals__)
        g["__vc__"] = _Dispatcher(self)
        if owner:
            real_cls = f.__globals__.get(owner)
            g["__vc_cls__"] = real_cls
        loc = {}
        exec(compile(mod, "<vc:" + (inspect.getsourcefile(f) or "?") + ">", "exec"), g, loc)
        if owner:
            cd = loc[owner].__dict__
            mangled = f"_{owner.lstrip('_')}{fd.name}" if fd.name.startswith("__") and not fd.name.endswith("__") else fd.name
            nf = cd[fd.name] if fd.name in cd else cd[mangled]
        else:
            nf = loc[fd.name]
        if f.__defaults__ is not None:
            nf.__defaults__ = f.__defaults__      # the very same default objects (frame clauses see them)
        if f.__kwdefaults__:
            nf.__kwdefaults__ = f.__kwdefaults__
        if f.__closure__ and not (only_class_cell and owner and f.__closure__[0].cell_contents is g.get("__vc_cls__")):
            raise Unsupported(f"{f.__qualname__}: closure captured outside instrumented code")
        self.cache[f] = nf
        from .common import source_info
        self.instrumented.append(source_info(f))
        return nf

    # -- running ------------------------------------------------------------------------------
    def explore(self, mk, max_paths=256):  # noqa
        """mk(vc) -> (f, args, kwargs); run f along every path.  Returns a list of Path."""
        paths, work = [], [[]]
        while work:
            dec = work.pop()
            vc = VC(self, dec)
            _CUR.append(vc)
            try:
                fn, a, k = mk(vc)
                try:
                    out = ("return", vc.call(fn, *a, **k))
                except Unsupported:
                    raise
                except RecursionError:
                    raise
                except LoopCut as lc:
                    out = ("loopcut", lc.state)
                except Exception as ex:  # the function's own exception: an outcome
                    out = ("raise", ex)
            finally:
                _CUR.pop()
            paths.append(Path(out, vc, a, k))
            # schedule the siblings of every decision made beyond the replayed prefix
            for i in range(len(dec), len(vc.decisions)):
                work.append(vc.decisions[:i] + [not vc.decisions[i]])
            if len(paths) > max_paths:
                raise Unsupported(f"more than {max_paths} paths")
        return paths


_CUR = []


class _Dispatcher:
    """`__vc` inside instrumented code: forwards to the VC of the path being executed."""

    def __init__(self, engine):
        self.engine = engine

    def __getattr__(self, n):
        return getattr(_CUR[-1], n)


class Path:
    def __init__(self, outcome, vc, args, kwargs):
        self.kind, self.value = outcome
        self.pc, self.assumed, self.call_obls, self.log = vc.pc, vc.assumed, vc.call_obls, vc.log
        self.args, self.kwargs = args, kwargs

    def hyps(self):
        return list(self.pc) + list(self.assumed)


# ----------------------------------------------------------------------------------------------
# solving

def solve(hyps, goal, timeout_ms=20000, want_model=True):
    """Decide hyps => goal.  Returns (status, model|None, secs, backend).  status in
    proved / refuted / undecided.  z3 first; cvc5 is asked only for z3's `unknown`."""
    import time
    t = time.time()
    s = z3.Solver()
    s.set("timeout", timeout_ms)
    for h in hyps:
        s.add(h)
    s.add(z3.Not(goal))
    r = s.check()
    if r == z3.unsat:
        return "proved", None, time.time() - t, "z3"
    if r == z3.sat:
        return "refuted", s.model() if want_model else None, time.time() - t, "z3"
    # unknown -> cvc5 on the SMT-LIB text
    import subprocess
    import tempfile
    smt = "(set-logic ALL)\n" + s.to_smt2()
    try:
        with tempfile.NamedTemporaryFile("w", suffix=".smt2", delete=True) as fh:
            fh.write(smt)
            fh.flush()
            p = subprocess.run(["/usr/bin/cvc5", f"--tlimit={timeout_ms}", fh.name], capture_output=True, text=True,
                               timeout=timeout_ms / 1000 + 10)
        ans = p.stdout.strip().splitlines()[0] if p.stdout.strip() else ""
    except Exception as ex:  # noqa
        ans = f"error {ex}"
    if ans == "unsat":
        return "proved", None, time.time() - t, "cvc5"
    if ans == "sat":
        return "refuted", None, time.time() - t, "cvc5"
    return "undecided", None, time.time() - t, f"z3:{s.reason_unknown()}/cvc5:{ans[:40]}"


def model_bool(m, zvar):
    v = m.eval(zvar, model_completion=True)
    return z3.is_true(v)
