"""Ghost vocabulary of the contracts (spec functions).  Written from the property statements and the
documentation, sharing no code with qlasskit."""
import itertools

import z3

from .pyvc import den


# -- bit vectors ----------------------------------------------------------------------------------

def bv(bits):
    """value of a little-endian list of formulas as a z3 bit-vector of that width"""
    bs = [z3.If(den(b), z3.BitVecVal(1, 1), z3.BitVecVal(0, 1)) for b in bits]
    if not bs:
        raise ValueError("bv of an empty bit list")
    return z3.Concat(*reversed(bs)) if len(bs) > 1 else bs[0]


def ext(x, w):
    if x.size() < w:
        return z3.ZeroExt(w - x.size(), x)
    if x.size() > w:
        return z3.Extract(w - 1, 0, x)
    return x


def fx_scaled(T, bits):
    """Qfixed pattern -> integer value * 2^F as a bit-vector of I+F bits.
    Documented layout: I integer bits little-endian, then F fractional bits, the j-th of weight 2^-(j+1)."""
    I, F = T.BIT_SIZE_INTEGER, T.BIT_SIZE_FRACTIONAL
    ip, fp = list(bits[:I]), list(bits[I:])
    return bv(list(reversed(fp)) + ip)


def py_bv(bits):
    """concrete little-endian bools -> int"""
    return sum((1 << i) for i, b in enumerate(bits) if b)


def py_fx(T, bits):
    from fractions import Fraction
    I = T.BIT_SIZE_INTEGER
    v = Fraction(py_bv(bits[:I]))
    for j, b in enumerate(bits[I:]):
        if b:
            v += Fraction(1, 2 ** (j + 1))
    return v


# -- classical action of gate lists -----------------------------------------------------------------

CLASSICAL = {"X", "CX", "CCX", "MCX"}


def gate_kind(g):
    """(name, n_controls) of a gate object by its class name (assumption A8: standard meaning)."""
    return type(g).__name__


def csim_tables(gates, nq, n_in=None):
    """Bit-parallel truth-table simulation: state[q] is an int whose bit r is the value of qubit q on
    basis input r (inputs = qubits 0..n_in-1, row r sets qubit i to bit i of r; others start 0).
    Only X/CX/CCX/MCX/MCtrl(X)/barrier/nop; anything else raises ValueError."""
    n_in = nq if n_in is None else n_in
    rows = 1 << n_in
    mask = (1 << rows) - 1
    st = []
    for q in range(nq):
        if q < n_in:
            # bit r of the table = bit q of r
            block = (1 << (1 << q)) - 1          # 2^q ones
            period = 1 << (q + 1)
            t = 0
            for k in range(0, rows, period):
                t |= block << (k + (1 << q))
            st.append(t & mask)
        else:
            st.append(0)
    return csim_apply(gates, st, mask), mask


def csim_apply(gates, st, mask):
    st = list(st)
    for g, ws, p in gates:
        kind = type(g).__name__
        if kind in ("Barrier", "NopGate", "I"):
            continue
        if kind == "X":
            st[ws[0]] ^= mask
        elif kind in ("CX", "CCX", "MCX"):
            c = mask
            for w in ws[:-1]:
                c &= st[w]
            st[ws[-1]] ^= c
        elif kind == "MCtrl" and type(g.gate).__name__ == "X":
            c = mask
            for w in ws[:-1]:
                c &= st[w]
            st[ws[-1]] ^= c
        else:
            raise ValueError(f"non-classical gate {kind}")
    return st


def table_of(fn, n_in):
    """truth table (bit r = fn(row r bits)) of a python predicate over n_in bools"""
    t = 0
    for r in range(1 << n_in):
        if fn([(r >> i) & 1 == 1 for i in range(n_in)]):
            t |= 1 << r
    return t


def sympy_table(e, names, tables, mask):
    """evaluate a real sympy boolean tree bit-parallel; names -> table ints"""
    import sympy
    from sympy.logic import boolalg
    if e is True or e is sympy.true:
        return mask
    if e is False or e is sympy.false:
        return 0
    if isinstance(e, sympy.Symbol):
        t = tables.get(e.name)
        if t is None:
            raise KeyError(e.name)     # undefined (or poisoned) symbol
        return t
    if isinstance(e, boolalg.Not):
        return mask ^ sympy_table(e.args[0], names, tables, mask)
    if isinstance(e, boolalg.And):
        r = mask
        for a in e.args:
            r &= sympy_table(a, names, tables, mask)
        return r
    if isinstance(e, boolalg.Or):
        r = 0
        for a in e.args:
            r |= sympy_table(a, names, tables, mask)
        return r
    if isinstance(e, boolalg.Xor):
        r = 0
        for a in e.args:
            r ^= sympy_table(a, names, tables, mask)
        return r
    if isinstance(e, boolalg.ITE):
        c, t, f = [sympy_table(a, names, tables, mask) for a in e.args]
        return (c & t) | ((mask ^ c) & f)
    if isinstance(e, boolalg.Implies):
        a, b = [sympy_table(x, names, tables, mask) for x in e.args]
        return (mask ^ a) | b
    if isinstance(e, boolalg.Equivalent):
        ts = [sympy_table(x, names, tables, mask) for x in e.args]
        r = mask
        for t in ts[1:]:
            r &= mask ^ (ts[0] ^ t)
        return r
    if isinstance(e, boolalg.Nand):
        r = mask
        for a in e.args:
            r &= sympy_table(a, names, tables, mask)
        return mask ^ r
    if isinstance(e, boolalg.Nor):
        r = 0
        for a in e.args:
            r |= sympy_table(a, names, tables, mask)
        return mask ^ r
    if isinstance(e, boolalg.Xnor):
        r = 0
        for a in e.args:
            r ^= sympy_table(a, names, tables, mask)
        return mask ^ r
    raise ValueError(f"no boolean meaning for {type(e).__name__}")


def input_tables(names):
    """tables for n input symbols: symbol i toggles with period 2^(i+1)"""
    n = len(names)
    rows = 1 << n
    mask = (1 << rows) - 1
    tabs = {}
    for q, nm in enumerate(names):
        block = (1 << (1 << q)) - 1
        period = 1 << (q + 1)
        t = 0
        for k in range(0, rows, period):
            t |= block << (k + (1 << q))
        tabs[nm] = t & mask
    return tabs, mask


def first_row(t):
    """index of the lowest set bit of a table (a failing row)"""
    return (t & -t).bit_length() - 1


# -- numeric unitary of a gate list (A8: standard meaning of the gate names; qubit 0 = least significant bit) -----

def unitary(gs, nq):
    import cmath
    import math

    import numpy as np
    dim = 2 ** nq
    U = np.eye(dim, dtype=complex)
    r2 = 2 ** -0.5
    one = {"X": [[0, 1], [1, 0]], "Y": [[0, -1j], [1j, 0]], "Z": [[1, 0], [0, -1]], "H": [[r2, r2], [r2, -r2]],
           "S": [[1, 0], [0, 1j]], "T": [[1, 0], [0, cmath.exp(1j * math.pi / 4)]], "I": [[1, 0], [0, 1]]}
    for g, ws, p in gs:
        k = type(g).__name__
        if k in ("Barrier", "NopGate"):
            continue
        inner = type(g.gate).__name__ if k == "MCtrl" else None
        M = np.zeros((dim, dim), dtype=complex)
        for b in range(dim):
            bits = [(b >> i) & 1 for i in range(nq)]
            if k in one or k == "P":
                m = np.array(one[k] if k in one else [[1, 0], [0, cmath.exp(1j * p)]], dtype=complex)
                for out in (0, 1):
                    nb = list(bits)
                    nb[ws[0]] = out
                    M[sum(x << i for i, x in enumerate(nb)), b] += m[out, bits[ws[0]]]
            elif k in ("CX", "CCX", "MCX") or (k == "MCtrl" and inner == "X"):
                nb = list(bits)
                if all(bits[w] for w in ws[:-1]):
                    nb[ws[-1]] ^= 1
                M[sum(x << i for i, x in enumerate(nb)), b] = 1
            elif k == "CZ" or (k == "MCtrl" and inner == "Z"):
                M[b, b] = -1 if all(bits[w] for w in ws) else 1
            elif k == "CP":
                M[b, b] = cmath.exp(1j * p) if all(bits[w] for w in ws) else 1
            elif k == "Swap":
                nb = list(bits)
                nb[ws[0]], nb[ws[1]] = nb[ws[1]], nb[ws[0]]
                M[sum(x << i for i, x in enumerate(nb)), b] = 1
            else:
                raise ValueError(f"no standard meaning recorded for gate {k}")
        U = M @ U
    return U


def bit_reverse_unitary(U, nq):
    """the same operator with qubit 0 as the MOST significant bit (Cirq's convention)"""
    import numpy as np
    dim = 2 ** nq
    perm = [int(format(i, f"0{nq}b")[::-1], 2) if nq else 0 for i in range(dim)]
    P = np.zeros((dim, dim))
    for i, j in enumerate(perm):
        P[j, i] = 1
    return P @ U @ P.T


# -- exact amplitude semantics for circuits over {H, X, Z, CX, CCX, MCX, CZ, MC-Z, barrier} ---------------------
# state = integer vector v with one global exponent h: amplitude_i = v_i / sqrt(2)^h.  No floating point.

class ASim:
    def __init__(self, nq):
        import numpy as np
        self.nq = nq
        self.v = np.zeros(1 << nq, dtype=object)
        self.v[0] = 1
        self.h = 0
        self.idx = np.arange(1 << nq)

    def apply(self, gates):
        import numpy as np
        for g, ws, p in gates:
            k = type(g).__name__
            if k in ("Barrier", "NopGate", "I"):
                continue
            inner = type(g.gate).__name__ if k == "MCtrl" else None
            if k == "H":
                q = ws[0]
                bit = (self.idx >> q) & 1
                partner = self.v[self.idx ^ (1 << q)]
                # |0> -> |0>+|1>, |1> -> |0>-|1|
                self.v = np.where(bit == 0, self.v + partner, partner - self.v)
                self.h += 1
                self._reduce()
            elif k == "X":
                self.v = self.v[self.idx ^ (1 << ws[0])]
            elif k == "Z":
                self.v = np.where((self.idx >> ws[0]) & 1 == 1, -self.v, self.v)
            elif k in ("CX", "CCX", "MCX") or (k == "MCtrl" and inner == "X"):
                cm = 0
                for w in ws[:-1]:
                    cm |= 1 << w
                ctrl = (self.idx & cm) == cm
                self.v = np.where(ctrl, self.v[self.idx ^ (1 << ws[-1])], self.v)
            elif k == "CZ" or (k == "MCtrl" and inner == "Z"):
                cm = 0
                for w in ws:
                    cm |= 1 << w
                self.v = np.where((self.idx & cm) == cm, -self.v, self.v)
            else:
                raise ValueError(f"gate {k} has no exact integer semantics here")
        return self

    def _reduce(self):
        import numpy as np
        while self.h >= 2 and all(int(x) % 2 == 0 for x in self.v):
            self.v = np.array([int(x) // 2 for x in self.v], dtype=object)
            self.h -= 2

    def distribution(self, out_qubits):
        """exact probabilities of the readings of out_qubits: dict bits-tuple(lsb first = out_qubits order) -> Fraction"""
        from fractions import Fraction
        d = {}
        den = 1 << self.h
        for i, x in enumerate(self.v):
            x = int(x)
            if x == 0:
                continue
            key = tuple((i >> q) & 1 for q in out_qubits)
            d[key] = d.get(key, 0) + x * x
        return {k: Fraction(v, den) for k, v in d.items()}
