"""Decorated, file-defined parameterised functions for C08 (the decorator path: the source is read with inspect and carries the decorator
line, so UnboundQlassf.bind cannot re-execute it and falls back to the original function).  Parameters in leading, middle and trailing
position.  Imported only after common.use_repo().  `REFS` are the plain Python references."""
from qlasskit import Parameter, Qint, qlassf  # noqa: F401


@qlassf
def lead(c: Parameter[bool], a: bool, b: bool) -> bool:
    return (a and c) ^ b


@qlassf
def trail(a: bool, b: bool, inv: Parameter[bool], msk: Parameter[bool]) -> bool:
    return (a and msk) ^ (b or inv)


@qlassf
def mid(a: bool, c: Parameter[bool], b: bool, d: Parameter[Qint[2]]) -> bool:
    return (a and c) ^ b ^ (d == 2)


REFS = {
    "lead": (lambda a, b, c: (a and c) ^ b, ["a", "b"], dict(c=[True, False])),
    "trail": (lambda a, b, inv, msk: (a and msk) ^ (b or inv), ["a", "b"], dict(inv=[True, False], msk=[True, False])),
    "mid": (lambda a, b, c, d: (a and c) ^ b ^ (d == 2), ["a", "b"], dict(c=[True, False], d=[0, 2, 3])),
}
