"""Contracts on real functions and the obligation runner.

A Contract names its target function in /repo, enumerates the shape space it is instantiated over,
builds symbolic arguments for a shape, and states - as z3 formulas over those arguments and the
symbolic result - what must hold.  `verify_shape` runs the REAL function (instrumented, see pyvc) on
the symbolic arguments along every path and discharges one obligation per clause.
"""
import time
import traceback

import z3

from . import pyvc
from .common import ENGINE, PROVED, REFUTED, UNDECIDED, findings_for, res


NATIVE = False   # while True, operand builders return real sympy Symbols instead of opaque leaves


class Clause:
    __slots__ = ("name", "formula", "kind")

    def __init__(self, name, formula, kind="deciding"):
        self.name, self.formula, self.kind = name, formula, kind


class Contract:
    prop = "C??"
    layer = ""
    name = "?"
    inline = True          # qlasskit callees are inlined unless the engine is modular
    timeout_ms = 20000
    strength = "proved-class"

    def fn(self):
        raise NotImplementedError

    def shapes(self, tier):
        raise NotImplementedError

    def shape_str(self, shape):
        return ",".join(getattr(s, "__name__", str(s)) for s in (shape if isinstance(shape, tuple) else (shape,)))

    def instantiate(self, shape, vc):
        """-> (callable, args, kwargs, ctx)"""
        raise NotImplementedError

    def post(self, shape, ctx, value):
        """clauses that must hold when the function returns `value`"""
        raise NotImplementedError

    def on_raise(self, shape, ctx, exc):
        """clauses that must hold when the function raises `exc` (default: raising is a failure)"""
        return [Clause("no-exception", False)]

    def region_ns(self, shape, ctx):
        return {}

    def native_call(self, shape):
        """-> (callable, args, kwargs) on real sympy Symbols / concrete data, for replays"""
        global NATIVE
        NATIVE = True
        try:
            f, a, k, _ = self.instantiate(shape, None)
        finally:
            NATIVE = False
        return f, a, k

    def describe_inputs(self, shape, ctx, vals):
        return {k: v for k, v in sorted(vals.items())}

    def concretise_result(self, out, vals):
        return concretise(out, vals)

    def replay(self, shape, ctx, model, clause=None):
        """Generic replay: run the UNINSTRUMENTED function natively on real Symbols, evaluate its result at
        the counter-model, and evaluate the failed clause of this contract on that concrete result."""
        nc = self.native_call(shape)
        if nc is None:
            return None
        vals = {n: pyvc.model_bool(model, z) for n, z in ctx["leaves"].items()}
        f, a, k = nc
        subst = [(z, z3.BoolVal(vals[n])) for n, z in ctx["leaves"].items()]
        try:
            out = f(*a, **k)
            kind = "return"
            conc = self.concretise_result(out, vals)
            clauses = self.post(shape, ctx, conc)
            observed = show(conc)
        except pyvc.Unsupported:
            raise
        except Exception as ex:  # noqa
            kind = "raise"
            clauses = self.on_raise(shape, ctx, ex)
            observed = f"raises {type(ex).__name__}: {ex}"[:200]
        verdict = None
        for c in clauses:
            if c.name == clause:
                fm = c.formula
                if isinstance(fm, bool):
                    verdict = not fm
                elif fm is not None:
                    v = z3.simplify(z3.substitute(fm, *subst)) if subst else z3.simplify(fm)
                    verdict = True if z3.is_false(v) else (False if z3.is_true(v) else None)
        return dict(inputs=self.describe_inputs(shape, ctx, vals), call=f"{self.name}[{self.shape_str(shape)}] run natively on real sympy Symbols, result evaluated at the inputs",
                    observed=observed, clause=clause, clause_holds_on_observed=(None if verdict is None else (not verdict)), disagrees=verdict)

    def oname(self, clause, shape):
        lay = f".{self.layer}" if self.layer else ""
        return f"{self.prop}{lay}.{self.name}.{clause}[{self.shape_str(shape)}]"


_ENGINES = {}


def make_engine(contract, modular_table=None):
    """one engine (= one cache of instrumented functions) per process and per contract table"""
    key = id(modular_table) if modular_table else None
    e = _ENGINES.get(key)
    if e is None:
        e = pyvc.Engine(modular=bool(modular_table))
        if modular_table:
            e.contracts.update(modular_table)
        _ENGINES[key] = e
    return e


def concretise(x, vals):
    """replace every formula inside a result structure by its truth value under vals"""
    import sympy
    from sympy.logic import boolalg
    if isinstance(x, (bool,)) or x is sympy.true or x is sympy.false:
        return bool(x)
    if isinstance(x, (boolalg.Boolean, sympy.Symbol)):
        return eval_sympy(x, vals)
    if isinstance(x, list):
        return [concretise(y, vals) for y in x]
    if isinstance(x, tuple):
        return tuple(concretise(y, vals) for y in x)
    return x


def eval_sympy(e, vals):
    import sympy
    from sympy.logic import boolalg
    if e is True or e is sympy.true:
        return True
    if e is False or e is sympy.false:
        return False
    if isinstance(e, sympy.Symbol):
        return vals[e.name]
    if isinstance(e, boolalg.Not):
        return not eval_sympy(e.args[0], vals)
    if isinstance(e, boolalg.And):
        return all(eval_sympy(a, vals) for a in e.args)
    if isinstance(e, boolalg.Or):
        return any(eval_sympy(a, vals) for a in e.args)
    if isinstance(e, boolalg.Xor):
        return sum(1 for a in e.args if eval_sympy(a, vals)) % 2 == 1
    if isinstance(e, boolalg.ITE):
        return eval_sympy(e.args[1], vals) if eval_sympy(e.args[0], vals) else eval_sympy(e.args[2], vals)
    if isinstance(e, boolalg.Implies):
        return (not eval_sympy(e.args[0], vals)) or eval_sympy(e.args[1], vals)
    raise ValueError(f"eval_sympy: {type(e).__name__}")


def show(x):
    if isinstance(x, type):
        return x.__name__
    if isinstance(x, list) and x and all(isinstance(b, bool) for b in x):
        return f"bits(lsb first)={''.join('1' if b else '0' for b in x)} (={sum((1 << i) for i, b in enumerate(x) if b)})"
    if isinstance(x, (list, tuple)):
        return "(" + ", ".join(show(y) for y in x) + ")"
    return repr(x)


REGION_FUNCS = {k: getattr(z3, k) for k in
                ("And", "Or", "Not", "UGE", "UGT", "ULE", "ULT", "LShR", "Extract", "ZeroExt", "BitVecVal", "If", "Implies", "URem", "UDiv")}


def flip_one_bit(value):
    """canary mutation: the same result with one bit complemented"""
    if isinstance(value, tuple) and len(value) == 2:
        t, b = value
        if isinstance(b, list) and b:
            if isinstance(b[0], list):
                return (t, [flip_one_bit((None, b[0]))[1]] + b[1:])
            return (t, [pyvc.m_not(b[0]) if isinstance(b[0], pyvc.SymExpr) else (not b[0] if isinstance(b[0], bool) else pyvc.m_not(b[0]))] + b[1:])
        if pyvc.is_exp(b):
            return (t, pyvc.m_not(b) if not isinstance(b, bool) else (not b))
    return None


def canary_shape(contract, shape, modular_table=None):
    """The contract must REFUTE a result that differs from the real one in a single bit."""
    rs = verify_shape(contract, shape, modular_table, canary=True)
    vals = [r for r in rs if r.get("clause_name", "").startswith("value")]
    ok = any(r["status"] == REFUTED for r in vals) if vals else None   # None: this shape has no value clause (it must raise)
    return dict(contract=contract.name, shape=contract.shape_str(shape), refuted=ok,
                detail=[(r["name"], r["status"]) for r in vals][:4])


def crosscheck_shape(contract, shape):
    """Engine vs CPython: the function run through the hooks on opaque leaves and run natively on real
    sympy Symbols must yield z3-equivalent formulas, position by position (inline mode)."""
    eng = make_engine(contract, None)
    holder = {}

    def mk(vc):
        f, a, k, ctx = contract.instantiate(shape, vc)
        holder["ctx"] = ctx
        return f, list(a), k
    saved = eng.modular
    eng.modular = False
    try:
        paths = eng.explore(mk)
    except pyvc.Unsupported as ex:
        return dict(contract=contract.name, shape=contract.shape_str(shape), agree=None, detail=f"Unsupported: {ex}")
    finally:
        eng.modular = saved
    f, a, k = contract.native_call(shape)
    try:
        nat = ("return", f(*a, **k))
    except Exception as ex:  # noqa
        nat = ("raise", ex)
    if len(paths) != 1:
        return dict(contract=contract.name, shape=contract.shape_str(shape), agree=None, detail=f"{len(paths)} paths")
    p = paths[0]
    if p.kind != nat[0]:
        return dict(contract=contract.name, shape=contract.shape_str(shape), agree=False, detail=f"engine {p.kind} / native {nat[0]}: {p.value!r} / {nat[1]!r}"[:300])
    if p.kind == "raise":
        same = type(p.value) is type(nat[1])
        return dict(contract=contract.name, shape=contract.shape_str(shape), agree=same, detail=f"{type(p.value).__name__} / {type(nat[1]).__name__}")
    ok, why = _same(p.value, nat[1])
    return dict(contract=contract.name, shape=contract.shape_str(shape), agree=ok, detail=why)


def _same(s, n):
    if isinstance(s, (list, tuple)) and isinstance(n, (list, tuple)):
        if len(s) != len(n) or type(s) is not type(n):
            return False, f"structure {type(s).__name__}/{len(s)} vs {type(n).__name__}/{len(n)}"
        for x, y in zip(s, n):
            ok, why = _same(x, y)
            if not ok:
                return ok, why
        return True, ""
    if pyvc.is_exp(s) and pyvc.is_exp(n):
        st, m, _, _ = pyvc.solve([], pyvc.den(s) == pyvc.den(n), 20000)
        return (st == PROVED), ("" if st == PROVED else f"formulas differ ({st}): {m}")
    if s is n:
        return True, ""
    try:
        if s == n:
            return True, ""
    except pyvc.Unsupported:
        pass
    if type(s) is type(n) and hasattr(s, "__dict__") and not isinstance(s, type):
        ks = sorted(vars(s))
        if ks != sorted(vars(n)):
            return False, f"attributes {ks} vs {sorted(vars(n))}"
        for k in ks:
            ok, why = _same(getattr(s, k), getattr(n, k))
            if not ok:
                return False, f".{k}: {why}"
        return True, ""
    return False, f"{s!r} vs {n!r}"[:200]


def verify_shape(contract, shape, modular_table=None, engine=None, canary=False):
    """All obligations of `contract` at `shape`.  Returns a list of result dicts."""
    t0 = time.time()
    eng = engine or make_engine(contract, modular_table)
    holder = {}

    def mkargs(vc):
        f, a, k, ctx = contract.instantiate(shape, vc)
        holder["f"], holder["ctx"] = f, ctx
        holder.setdefault("ctxs", []).append(ctx)
        return f, list(a), k

    try:
        paths = eng.explore(mkargs)
    except pyvc.Unsupported as ex:
        return [res(contract.oname("*", shape), UNDECIDED, strength=contract.strength, backend="pyvc",
                    secs=time.time() - t0, detail=f"Unsupported: {ex}")]
    except RecursionError as ex:
        return [res(contract.oname("*", shape), UNDECIDED, strength=contract.strength, backend="pyvc",
                    secs=time.time() - t0, detail=f"RecursionError: {ex}")]
    gen_secs = time.time() - t0
    out = {}
    ctxs = holder["ctxs"]
    for p, ctx in zip(paths, ctxs):
        try:
            if p.kind == "return":
                val = p.value
                if canary:
                    val = flip_one_bit(val)
                    if val is None:
                        continue
                clauses = contract.post(shape, ctx, val)
            else:
                clauses = contract.on_raise(shape, ctx, p.value)
        except pyvc.Unsupported as ex:
            clauses = [Clause("spec-evaluation", None)]
            p.detail = f"Unsupported while evaluating the contract: {ex}"
        # preconditions of callees met at call sites are obligations of this function
        for nm, pc_snap, formula in p.call_obls:
            clauses.append(Clause("callsite:" + nm, ("pc", pc_snap, formula), "structural"))
        for c in clauses:
            name = contract.oname(c.name, shape)
            strength = "diagnostic" if c.kind == "diagnostic" else contract.strength
            prev = out.get(name)
            if prev is not None and prev["status"] != PROVED:
                continue   # keep the first failing path
            t = time.time()
            hyps = p.hyps()
            f = c.formula
            if isinstance(f, tuple) and f and f[0] == "pc":
                hyps, f = list(f[1]), f[2]
            if f is None:
                r = res(name, UNDECIDED, strength=strength, backend="pyvc", detail=getattr(p, "detail", ""))
            elif f is True or (not isinstance(f, bool) and z3.is_true(z3.simplify(f))):
                r = res(name, PROVED, strength=strength, backend="structural", secs=time.time() - t)
            elif f is False:
                # fails on the whole path: exhibit any input satisfying the path condition
                st, model, secs, backend = pyvc.solve(p.hyps(), z3.BoolVal(False), contract.timeout_ms)
                r = _refuted(contract, shape, ctx, p, name, strength, model, secs, backend, c, z3.BoolVal(False)) \
                    if st == REFUTED else res(name, PROVED if st == PROVED else UNDECIDED, strength=strength,
                                              backend=backend, secs=secs, detail="path infeasible" if st == PROVED else "")
            else:
                st, model, secs, backend = pyvc.solve(hyps, f, contract.timeout_ms)
                if st == PROVED:
                    r = res(name, PROVED, strength=strength, backend=backend, secs=secs)
                elif st == REFUTED and canary:
                    r = res(name, REFUTED, strength=strength, backend=backend, secs=secs)
                elif st == REFUTED:
                    r = _refuted(contract, shape, ctx, p, name, strength, model, secs, backend, c, f)
                else:
                    r = res(name, UNDECIDED, strength=strength, backend=backend, secs=secs, detail="solver gave no verdict")
            r["kind"] = c.kind
            r["clause_name"] = c.name
            r["outcome"] = p.kind if p.kind == "return" else f"raise {type(p.value).__name__}"
            r["paths"] = len(paths)
            r["gen_secs"] = round(gen_secs, 3)
            out[name] = r
    return list(out.values())


def _refuted(contract, shape, ctx, p, name, strength, model, secs, backend, clause, formula):
    r = res(name, REFUTED, strength=strength, backend=backend, secs=secs)
    r["function"] = contract.name
    r["shape"] = contract.shape_str(shape)
    r["clause"] = clause.name
    if p.kind != "return":
        r["raised"] = f"{type(p.value).__name__}: {p.value}"[:300]
    r["solver_output"] = str(model)[:1500] if model is not None else f"{backend}: sat (no model)"
    if model is not None:
        try:
            from .bounded import Budget, time_budget
            try:
                with time_budget(120):
                    rp = contract.replay(shape, ctx, model, clause.name)
            except Budget:
                # e.g. the multiplier on real sympy Symbols: the native run does not finish; the model is still reported
                rp = dict(error="native replay exceeded 120 s (sympy blow-up); the counter-model is in solver_output", disagrees=None)
        except Exception:  # noqa
            rp = dict(error=traceback.format_exc()[-1500:])
        if rp:
            r["replay"] = rp
            if rp.get("disagrees") is True:
                r["replayed"] = True
            elif rp.get("disagrees") is False:
                # the model does not reproduce on the real code: the engine or the contract is wrong
                r["status"] = ENGINE
                r["detail"] = "counter-model does not replay on the uninstrumented function: " + str(rp)[:600]
                return r
    # is every failing input inside the region of a known finding?
    if clause.kind != "diagnostic":
        ns = contract.region_ns(shape, ctx)
        for f in findings_for(contract.prop, name):
            try:
                reg = eval(f["region"], dict(REGION_FUNCS), dict(ns))
            except Exception as ex:  # noqa
                r.setdefault("region_errors", []).append(f"{f['id']}: {ex}")
                continue
            if reg is True:
                r["covered_by"] = f["id"]
                break
            if reg is False:
                continue
            st2, _, _, _ = pyvc.solve(p.hyps() + [z3.Not(reg)], formula, contract.timeout_ms, want_model=False)
            if st2 == PROVED:
                r["covered_by"] = f["id"]
                break
    return r


