"""Shared infrastructure of the checks: repo location, result records, evidence, replay files,
known findings, process pool.  Nothing in here knows about a particular property."""
import fnmatch
import hashlib
import inspect
import json
import multiprocessing as mp
import os
import shutil
import sys
import tempfile
import time
import traceback

VERIF = os.path.dirname(os.path.dirname(os.path.abspath(__file__)))
REPO = os.path.abspath(os.environ.get("VERIF_REPO", "/repo"))
OUT = os.path.abspath(os.environ.get("VERIF_OUT", VERIF))     # evidence/ and replays/ go here (self-validation points it at a scratch dir)
SEED = int(os.environ.get("VERIF_SEED", "0") or 0)
NPROC = int(os.environ.get("VERIF_NPROC", "16"))

EXIT_OK, EXIT_VIOLATION, EXIT_UNDECIDED, EXIT_ENGINE = 0, 1, 2, 3


def use_repo():
    """Make `import qlasskit` resolve to the working tree under REPO (not a stale copy)."""
    sys.dont_write_bytecode = True
    os.environ["PYTHONDONTWRITEBYTECODE"] = "1"
    if sys.path[0] != REPO:
        sys.path.insert(0, REPO)
    import qlasskit  # noqa

    got = os.path.dirname(os.path.dirname(os.path.abspath(qlasskit.__file__)))
    if os.path.realpath(got) != os.path.realpath(REPO):
        raise RuntimeError(f"qlasskit imported from {got}, expected {REPO}")
    return qlasskit


_scratch = None


def private_tmp():
    """A private TMPDIR outside /repo and /verif, removed at exit (parse_str leaves files)."""
    global _scratch
    if _scratch is None:
        base = os.environ.get("VERIF_SCRATCH_BASE", "/tmp")
        _scratch = tempfile.mkdtemp(prefix="qverif_", dir=base)
        os.environ["TMPDIR"] = _scratch
        tempfile.tempdir = _scratch
    return _scratch


def cleanup_tmp():
    global _scratch
    if _scratch and os.path.isdir(_scratch):
        shutil.rmtree(_scratch, ignore_errors=True)
    _scratch = None


# ----------------------------------------------------------------------------------------------
# result records (plain dicts so that they cross process boundaries)

PROVED, REFUTED, UNDECIDED, ENGINE = "proved", "refuted", "undecided", "engine-error"


def res(name, status, *, strength="proved-class", backend="z3", secs=0.0, **kw):
    """strength: 'proved-class' (complete shape space / unbounded, all values) or 'bounded'
    (instance of a truncated family, all values inside the instance) or 'diagnostic'."""
    d = dict(name=name, status=status, strength=strength, backend=backend, secs=round(secs, 4))
    d.update(kw)
    return d


def source_info(fn):
    """(qualified name, file:line, sha1 of the extracted source) of a function under contract."""
    f = inspect.unwrap(getattr(fn, "__func__", fn))
    try:
        lines, start = inspect.getsourcelines(f)
        path = os.path.relpath(inspect.getsourcefile(f), REPO)
        h = hashlib.sha1("".join(lines).encode()).hexdigest()[:12]
    except (OSError, TypeError):
        lines, start, path, h = [], 0, "?", "?"
    return dict(function=f"{f.__module__}.{f.__qualname__}", where=f"{path}:{start}", sha1=h, lines=len(lines))


# ----------------------------------------------------------------------------------------------
# process pool

def _work(job):
    fn, arg = job
    t = time.time()
    try:
        out = fn(arg)
        if isinstance(out, dict):
            out = [out]
        return out
    except BaseException as ex:  # a crash of the machinery is never a verdict
        if type(ex).__name__ == "Budget" or ("Budget" in str(ex) and type(ex).__name__ == "ArgumentError"):
            # a wall-clock budget that fired outside its own `with` handler (e.g. inside a C call, where it surfaces as ctypes.ArgumentError):
            # the instance is over budget - skipped, never a verdict and not a crash either
            return []
        return [res(f"job:{getattr(fn, '__name__', fn)}:{arg!r}"[:200], ENGINE, backend="python",
                    secs=time.time() - t, detail=traceback.format_exc()[-3000:])]


def run_pool(fn, args, nproc=None, chunksize=1, fresh_process_per_task=False):
    """Run fn(arg) for every arg on a fork pool; each call returns a result dict or a list of them."""
    args = list(args)
    if not args:
        return []
    nproc = min(nproc or NPROC, len(args))
    out = []
    if nproc <= 1 or os.environ.get("VERIF_SERIAL"):
        for a in args:
            out.extend(_work((fn, a)))
        return out
    ctx = mp.get_context("fork")
    with ctx.Pool(nproc, maxtasksperchild=1 if fresh_process_per_task else None) as pool:
        for r in pool.imap_unordered(_work, [(fn, a) for a in args], chunksize=chunksize):
            out.extend(r)
    return out


# ----------------------------------------------------------------------------------------------
# known findings

def load_findings():
    p = os.path.join(VERIF, "known_findings.json")
    if not os.path.exists(p):
        return []
    with open(p) as fh:
        return json.load(fh).get("findings", [])


def match_finding(prop, r, findings):
    """An `open` finding covers a refuted result iff its obligation pattern matches and the
    result says all its failing inputs lie inside the finding's region (`covered_by`), or - for
    bounded instances - the canonical instance key is listed / the blamed pattern matches."""
    for f in findings:
        if f.get("status") != "open" or not _prop(f, prop):
            continue
        if not _pat(f, r["name"]):
            continue
        if "region" in f:
            if r.get("covered_by") == f["id"]:
                return f
            continue
        if "instances" in f or "instances_file" in f:
            if r["name"] in _instances(f):
                return f
            continue
        if "blame" in f:
            if r.get("blame") and glob_match(r["blame"], f["blame"]):
                return f
            continue
        return f
    return None


_INST = {}


def _instances(f):
    """instance-keyed finding: the exact obligation names (instance text hashed into the name) that fail"""
    if f["id"] not in _INST:
        xs = set(f.get("instances", []))
        if "instances_file" in f:
            p = os.path.join(VERIF, f["instances_file"])
            if os.path.exists(p):
                xs |= {l.strip() for l in open(p) if l.strip() and not l.startswith("#")}
        _INST[f["id"]] = xs
    return _INST[f["id"]]


def glob_match(name, pat):
    """only `*` is a wildcard (obligation names contain [ and ])"""
    import re
    return re.fullmatch(".*".join(re.escape(x) for x in pat.split("*")), name) is not None


def _prop(f, prop):
    p = f.get("property")
    return prop in p if isinstance(p, list) else p == prop


def _pat(f, name):
    pats = f["obligation"] if isinstance(f["obligation"], list) else [f["obligation"]]
    return any(glob_match(name, p) for p in pats)


def findings_for(prop, name):
    return [f for f in load_findings()
            if f.get("status") == "open" and _prop(f, prop) and "region" in f and _pat(f, name)]


# ----------------------------------------------------------------------------------------------
# report / evidence

def safe_name(s):
    return "".join(c if c.isalnum() or c in "._-[]," else "_" for c in s)[:180]


class Report:
    def __init__(self, prop, tier, level, checker_cmd):
        self.prop, self.tier, self.level, self.checker_cmd = prop, tier, level, checker_cmd
        self.results = []
        self.functions = []
        self.assumptions = []
        self.trusted = []
        self.extra = {}
        self.samples = []
        self.t0 = time.time()
        self.explanation = ""
        self.rule = ""
        self.not_attempted = []
        self.partial = False

    def add(self, rs):
        self.results.extend(rs)

    def under_contract(self, *fns):
        for f in fns:
            si = source_info(f)
            if si not in self.functions:
                self.functions.append(si)

    # -- finishing -------------------------------------------------------------------------
    def finish(self):
        findings = load_findings()
        viol, known, undec, eng = [], {}, [], []
        replay_dir = os.path.join(OUT, "replays", self.prop)
        if os.path.isdir(replay_dir) and not self.partial:
            shutil.rmtree(replay_dir, ignore_errors=True)     # replays belong to one run
        for r in self.results:
            if r["strength"] == "diagnostic":
                continue
            if r["status"] == REFUTED:
                f = match_finding(self.prop, r, findings)
                if f:
                    known.setdefault(f["id"], (f, []))[1].append(r["name"])
                else:
                    viol.append(r)
            elif r["status"] == UNDECIDED:
                undec.append(r)
            elif r["status"] == ENGINE:
                eng.append(r)
        lines = []
        for fid, (f, names) in sorted(known.items()):
            lines.append(f"KNOWN-FINDING: property={self.prop} {fid} {f['text']} [{len(names)} obligation(s)/instance(s)]")
        if viol:
            os.makedirs(replay_dir, exist_ok=True)
        for r in viol[:50]:
            path = os.path.join("replays", self.prop, safe_name(r["name"]) + ".json")
            with open(os.path.join(OUT, path), "w") as fh:
                json.dump(dict(property=self.prop, tier=self.tier, obligation=r["name"], **{k: v for k, v in r.items() if k != "name"}),
                          fh, indent=1, default=str)
            tail = "" if r.get("replayed") else " no-failing-input-found"
            lines.append(f"VIOLATION property={self.prop} replay={path}{tail}")
        if len(viol) > 50:
            lines.append(f"# {len(viol) - 50} further violations not written out")
        for r in eng[:10]:
            lines.append(f"ENGINE-ERROR {r['name']}: {str(r.get('detail', ''))[-600:]}")
        for r in undec[:10]:
            lines.append(f"UNDECIDED {r['name']}: {r.get('detail', '')}"[:400])
        self._write_evidence(viol, known, undec, eng)
        proved = sum(1 for r in self.results if r["strength"] == "proved-class" and r["status"] == PROVED)
        bounded = sum(1 for r in self.results if r["strength"] == "bounded" and r["status"] == PROVED)
        lines.append(f"RESULT {self.prop} tier={self.tier} proved={proved} bounded={bounded} known={sum(len(v[1]) for v in known.values())} "
                     f"undecided={len(undec)} engine_errors={len(eng)} violations={len(viol)} wall={time.time() - self.t0:.1f}s")
        print("\n".join(lines), flush=True)
        if viol:
            return EXIT_VIOLATION
        if eng:
            return EXIT_ENGINE
        if undec:
            return EXIT_UNDECIDED
        return EXIT_OK

    def _write_evidence(self, viol, known, undec, eng):
        P = [r for r in self.results if r["strength"] == "proved-class"]
        B = [r for r in self.results if r["strength"] == "bounded"]
        D = [r for r in self.results if r["strength"] == "diagnostic"]
        by_backend = {}
        for r in self.results:
            b = by_backend.setdefault(r["backend"], dict(count=0, secs=0.0))
            b["count"] += 1
            b["secs"] = round(b["secs"] + r["secs"], 3)
        known_names = {n for _, (f, ns) in known.items() for n in ns}
        cov = dict(
            obligations=len(P) - sum(1 for r in P if r["name"] in known_names),
            discharged=sum(1 for r in P if r["status"] == PROVED),
            obligations_note="obligations excludes those refuted inside the region of a listed known finding (counted separately below)",
            obligations_refuted_known_finding=sum(1 for r in P if r["name"] in known_names),
            checker_cmd=self.checker_cmd,
            trusted_base=self.trusted,
            functions_under_contract=self.functions,
            by_backend=by_backend,
            slowest_obligations=[dict(name=r["name"], backend=r["backend"], secs=round(r["secs"], 2)) for r in
                                 sorted(self.results, key=lambda r: -r["secs"])[:5] if r["secs"] > 0],
            bounded_instances=len(B),
            bounded_instances_ok=sum(1 for r in B if r["status"] == PROVED),
            bounded_label="bounded: instances of a truncated family; all values inside each instance; never counted as proved",
            diagnostic_clauses=len(D),
            diagnostic_breaches=sum(1 for r in D if r["status"] == REFUTED),
            undecided=[r["name"] for r in undec][:40],
            engine_errors=[r["name"] for r in eng][:40],
            not_attempted=self.not_attempted,
            violation_names=[r["name"] for r in viol] if os.environ.get("VERIF_LIST_ALL_VIOLATIONS") else [r["name"] for r in viol][:50],
            known_findings={k: dict(text=v[0]["text"], obligations=v[1][:30], n=len(v[1])) for k, v in known.items()},
            evaluations=len(self.results),
            distinct_nontrivial=len({r["name"] for r in self.results if r.get("nontrivial", True)}),
            rule=self.rule or "one evaluation per named obligation / bounded instance; distinct = distinct obligation name; "
                              "non-trivial = the function under contract produced a non-constant result or a raise (measured per obligation)",
            samples=self.samples[:12] or [dict(name=r["name"], status=r["status"], backend=r["backend"]) for r in self.results[:6]],
            explanation=self.explanation,
            exhaustive=bool(self.extra.get("exhaustive", False)),
        )
        cov.update({k: v for k, v in self.extra.items() if k != "exhaustive"})
        ev = dict(property_id=self.prop, tier=self.tier, seed=SEED, level=self.level, coverage=cov,
                  assumptions=self.assumptions, wall_s=round(time.time() - self.t0, 2), violations=len(viol))
        os.makedirs(os.path.join(OUT, "evidence"), exist_ok=True)
        path = os.path.join(OUT, "evidence", f"{self.prop}.json")
        try:
            import jsonschema
            with open("/root/.vp/EVIDENCE.schema.json") as fh:
                schema = json.load(fh)
            try:
                jsonschema.validate(ev, schema)
            except jsonschema.ValidationError:
                if not self.partial:
                    raise
                ev["coverage"]["partial_run"] = "--only filter used: not a complete evidence file"
        except FileNotFoundError:
            pass
        with open(path, "w") as fh:
            json.dump(ev, fh, indent=1, default=str)


def generic_replay(mod, path):
    """`./check <ID> --replay <file>`: print what the replay file recorded, then re-derive the same obligation / instance from the CURRENT tree by
    re-running the check at the recorded tier and report whether it still fails.  Exit 1 = reproduced, 0 = not reproduced, 2 = obligation not found."""
    d = json.load(open(path))
    print(json.dumps({k: d.get(k) for k in ("property", "obligation", "status", "replay", "detail", "blame") if d.get(k) is not None}, indent=1, default=str)[:4000])
    rep = mod.run(d.get("tier", "quick"))
    hit = [r for r in rep.results if r["name"] == d["obligation"]]
    if not hit:
        print("NOT-FOUND: the obligation is not generated on this tree at this tier")
        return 2
    bad = [r for r in hit if r["status"] == REFUTED]
    if bad:
        print("REPRODUCED", bad[0]["name"], json.dumps(bad[0].get("replay"), default=str)[:1500])
        return 1
    print("NOT-REPRODUCED: the obligation is discharged on this tree")
    return 0
