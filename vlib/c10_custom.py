"""Functions over user-defined types for the C10 histories: two unrelated types that share the name `Word` (3 and 5 bits), as two
components of one program would define them.  Custom types only work with function objects (a source string cannot name them), and
inspect.getsource needs a real file - hence this module.  Imported only after common.use_repo()."""
from qlasskit.types.qint import QintImp


class Word(QintImp):  # component A
    BIT_SIZE = 3


WordA = Word


def lw(w: Word) -> bool:
    return w[0] and not w[2]


lw3 = lw


class Word(QintImp):  # noqa: F811 - component B
    BIT_SIZE = 5


WordB = Word


def lw(w: Word) -> bool:  # noqa: F811
    return w[0] and not w[4]


lw5 = lw
