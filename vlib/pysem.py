"""pysem - reference semantics of the documented Python subset (docs/source/supported.rst), written
from the documentation and the statement of C01, sharing no code with qlasskit.

The USER'S OWN SOURCE TEXT is executed by CPython with *spec value classes* as arguments, so loops,
conditionals, tuple unpacking, min/max/sum/len/all/any need no interpreter of ours.  Integer literals
are wrapped (`__lit(3)`) so that they carry the documented typing rule (smallest of Qint2/4/6/8/12/16
holding the value).  Every operation records whether an intermediate left the range of its type
(`Flag.overflow`): C01 demands exactness only where that did not happen.

Typing rules (frozen here; see DESIGN.md section 3): binary Qint operation -> the wider operand's
type; product -> the sizing table 2/4/6/8/12/16 on twice the wider width; Qfixed same-format
arithmetic keeps the format; a float literal next to a Qfixed operand adopts that operand's format.
"""
import ast
import inspect
import math
from fractions import Fraction
from typing import Tuple, get_args

SIZES = [2, 4, 6, 8, 12, 16]


class Flag:
    overflow = False         # some intermediate left the range of its type
    unconstrained = False    # ... and a non-ring operation then consumed it: C01 says nothing about this row
    unsupported = None


class Reject(Exception):
    """the reference semantics has no value here: the construct is outside the documented subset"""


def lit_width(v):
    for s in SIZES:
        if v < 2 ** s:
            return s
    raise Reject("integer literal too big")


def mulsize(s):
    for k in SIZES:
        if s <= k:
            return k
    return 16


INF = 10 ** 6


class SInt:
    """fixed-width unsigned value.  k = number of low bits on which v is known to agree with the exact mathematical value of the expression
    (INF while no intermediate left the range of its type).  Ring operations (+ - * << & | ^ ~) propagate min(k's, width) - 'equal modulo 2^w on
    the low bits wrap-around arithmetic determines'; every other use of a value with k < INF makes the row unconstrained."""
    __slots__ = ("w", "v", "k")

    def __init__(s, w, v, k=INF):
        if not (0 <= v < 2 ** w):
            Flag.overflow = True
            k = min(k, w)
        s.w = w
        s.v = v % 2 ** w
        s.k = k

    def need_exact(s):
        if s.k < INF:
            Flag.unconstrained = True
        return s

    @staticmethod
    def of(x):
        if isinstance(x, SInt):
            return x
        if isinstance(x, bool):
            raise Reject("bool in integer arithmetic")
        if isinstance(x, int):
            if x < 0:
                raise Reject("negative integer")
            return SInt(lit_width(x), x)
        raise Reject(f"not an integer: {type(x).__name__}")

    def _bin(s, o, f):
        o = SInt.of(o)
        return SInt(max(s.w, o.w), f(s.v, o.v), min(s.k, o.k))

    def __add__(s, o): return s._bin(o, lambda a, b: a + b)
    def __radd__(s, o): return SInt.of(o) + s
    def __sub__(s, o): return s._bin(o, lambda a, b: a - b)
    def __rsub__(s, o): return SInt.of(o) - s

    def __mul__(s, o):
        if isinstance(o, SFix):
            return o.__mul__(s)
        o = SInt.of(o)
        return SInt(mulsize(2 * max(s.w, o.w)), s.v * o.v, min(s.k, o.k))

    def __rmul__(s, o): return SInt.of(o) * s

    def __pow__(s, k):
        k = int(k)
        if k < 0:
            raise Reject("negative exponent")
        if k == 0:
            return SInt(2, 1)
        r = s
        for _ in range(k - 1):
            r = r * s
        return r

    def __mod__(s, o):
        o = SInt.of(o)
        if o.v == 0:
            raise Reject("modulo by zero (ZeroDivisionError in Python)")
        s.need_exact()
        o.need_exact()
        return SInt(max(s.w, o.w), s.v % o.v)

    def __and__(s, o): return s._bin(o, lambda a, b: a & b)
    def __or__(s, o): return s._bin(o, lambda a, b: a | b)
    def __xor__(s, o): return s._bin(o, lambda a, b: a ^ b)
    __rand__ = __and__
    __ror__ = __or__
    __rxor__ = __xor__

    def __invert__(s): return SInt(s.w, (2 ** s.w - 1) ^ s.v, min(s.k, s.w))

    def __lshift__(s, k):
        return SInt(s.w, s.v << int(k), s.k)

    def __rshift__(s, k): s.need_exact(); return SInt(s.w, s.v >> int(k))

    def _cmp(s, o, f):
        if isinstance(o, (SFix, SChar, bool)) or not isinstance(o, (SInt, int)):
            raise Reject("comparison of an integer with another class")
        o = SInt.of(o)
        s.need_exact()
        o.need_exact()
        return f(s.v, o.v)

    def __eq__(s, o): return s._cmp(o, lambda a, b: a == b)
    def __ne__(s, o): return s._cmp(o, lambda a, b: a != b)
    def __lt__(s, o): return s._cmp(o, lambda a, b: a < b)
    def __le__(s, o): return s._cmp(o, lambda a, b: a <= b)
    def __gt__(s, o): return s._cmp(o, lambda a, b: a > b)
    def __ge__(s, o): return s._cmp(o, lambda a, b: a >= b)
    def __hash__(s): return hash(s.v)
    def __index__(s): s.need_exact(); return s.v
    def __int__(s): s.need_exact(); return s.v
    def __bool__(s): raise Reject("integer used as a condition")

    def __getitem__(s, i):
        i = int(i)
        if not (0 <= i < s.w):
            raise Reject("bit index out of range")
        if i >= s.k:
            Flag.unconstrained = True
        return bool((s.v >> i) & 1)

    def __repr__(s): return f"SInt{s.w}({s.v})"


class SFix:
    __slots__ = ("I", "F", "n")

    def __init__(s, I, F, x):
        x = Fraction(x)
        sc = x * 2 ** F
        if sc.denominator != 1:
            Flag.overflow = Flag.unconstrained = True      # not representable: leaves the range of its type
            sc = Fraction(math.floor(sc))
        if not (0 <= sc < 2 ** (I + F)):
            Flag.overflow = Flag.unconstrained = True
        s.I, s.F, s.n = I, F, int(sc) % 2 ** (I + F)

    @property
    def x(s): return Fraction(s.n, 2 ** s.F)

    @staticmethod
    def of(o, like):
        if isinstance(o, SFix):
            return o
        if isinstance(o, float):
            return SFix(like.I, like.F, Fraction(o))
        raise Reject(f"fixed-point operation with {type(o).__name__}")

    def _fmt(s, o): return max(s.I, o.I), max(s.F, o.F)
    def __add__(s, o): o = SFix.of(o, s); I, F = s._fmt(o); return SFix(I, F, s.x + o.x)
    def __radd__(s, o): return s + o
    def __sub__(s, o): o = SFix.of(o, s); I, F = s._fmt(o); return SFix(I, F, s.x - o.x)
    def __rsub__(s, o): o = SFix.of(o, s); I, F = s._fmt(o); return SFix(I, F, o.x - s.x)

    def __mul__(s, o):
        if isinstance(o, SLit):
            return SFix(s.I, s.F, s.x * o.v)
        raise Reject("fixed-point multiplication only by an integer constant")

    __rmul__ = __mul__

    def _cmp(s, o, f):
        o = SFix.of(o, s)
        return f(s.x, o.x)

    def __eq__(s, o): return s._cmp(o, lambda a, b: a == b)
    def __ne__(s, o): return s._cmp(o, lambda a, b: a != b)
    def __lt__(s, o): return s._cmp(o, lambda a, b: a < b)
    def __le__(s, o): return s._cmp(o, lambda a, b: a <= b)
    def __gt__(s, o): return s._cmp(o, lambda a, b: a > b)
    def __ge__(s, o): return s._cmp(o, lambda a, b: a >= b)
    def __hash__(s): return hash(s.n)
    def __bool__(s): raise Reject("fixed-point used as a condition")
    def __invert__(s): raise Reject("~ on a fixed-point value")
    def __repr__(s): return f"SFix{s.I}_{s.F}({float(s.x)})"


class SLit(SInt):
    """an integer literal (compile-time constant)"""
    __slots__ = ()


class SChar(str):
    def _cmp(s, o):
        if not isinstance(o, str):
            raise Reject("comparison of a char with another class")

    def __eq__(s, o): s._cmp(o); return str.__eq__(s, o)
    def __ne__(s, o): s._cmp(o); return str.__ne__(s, o)
    def __hash__(s): return str.__hash__(s)
    def __lt__(s, o): raise Reject("ordering of chars")
    __le__ = __gt__ = __ge__ = __lt__
    def __add__(s, o): raise Reject("char arithmetic")
    def __bool__(s): raise Reject("char used as a condition")


def s_lit(v):
    if isinstance(v, bool) or not isinstance(v, int):
        return v
    if v < 0:
        raise Reject("negative literal")
    return SLit(lit_width(v), v)


def s_as_qint(x, k):
    """the value of an actual argument as seen through a formal declared Qint[k]"""
    if isinstance(x, bool) or not isinstance(x, (SInt, int)):
        return x                 # another class: left to the operations' own rejections
    x = SInt.of(x)
    if x.w > k:
        raise Reject("actual argument wider than the formal")
    if x.w == k:
        return x
    return SInt(k, x.v, x.k)


def s_int(x):
    if isinstance(x, SFix):
        return SInt(max(x.I, 2), x.n >> x.F)
    if isinstance(x, SInt):
        return x
    raise Reject("int() of a non-number")


def s_float(x):
    if isinstance(x, SFix):
        return x
    if isinstance(x, SInt):
        x.need_exact()
        if x.w > 4:
            raise Reject("float() of an integer wider than any fixed-point integer part")
        return SFix(x.w, {2: 2, 3: 3, 4: 4}[x.w], x.v)
    raise Reject("float() of a non-number")


def s_ord(c):
    if not isinstance(c, str):
        raise Reject("ord of non-char")
    return SInt(8, ord(c))


def s_chr(i):
    return SChar(chr(SInt.of(i).need_exact().v % 256))


def s_len(x):
    if isinstance(x, (tuple, list)):
        return SLit(lit_width(len(x)), len(x))
    raise Reject("len of a non-sequence")


def _seq(args):
    if len(args) == 1:
        if not isinstance(args[0], (tuple, list)):
            raise Reject("min/max/sum of a non-sequence")
        return list(args[0])
    return list(args)


def s_max(*a):
    xs = _seq(a)
    r = xs[0]
    for x in xs[1:]:
        if x > r:
            r = x
    return _widen(r, xs)


def s_min(*a):
    xs = _seq(a)
    r = xs[0]
    for x in xs[1:]:
        if x < r:
            r = x
    return _widen(r, xs)


def _widen(r, xs):
    if isinstance(r, SInt):
        return SInt(max(SInt.of(x).w for x in xs), r.v)
    return r


def s_sum(x):
    xs = _seq((x,))
    r = xs[-1]
    for y in reversed(xs[:-1]):
        r = y + r
    return r


def s_all(x):
    xs = _seq((x,))
    if not all(isinstance(b, bool) for b in xs):
        raise Reject("all() of non-bools")
    return all(xs)


def s_any(x):
    xs = _seq((x,))
    if not all(isinstance(b, bool) for b in xs):
        raise Reject("any() of non-bools")
    return any(xs)


class _Sub:
    def __getitem__(s, k):
        return None


def base_namespace():
    ns = {"Tuple": Tuple, "List": _Sub(), "int": s_int, "float": s_float, "ord": s_ord, "chr": s_chr, "print": lambda *a, **k: None,
          "len": s_len, "max": s_max, "min": s_min, "sum": s_sum, "all": s_all, "any": s_any, "__lit": s_lit, "__as_qint": s_as_qint, "range": range,
          "bool": bool}
    for nm in ("Qint", "Qfixed", "Qlist", "Qmatrix", "Parameter"):
        ns[nm] = _Sub()
    ns["Qchar"] = lambda c: SChar(c)
    for w in (2, 3, 4, 5, 6, 7, 8, 12, 16):
        ns[f"Qint{w}"] = (lambda w: lambda v: SInt(w, int(v) % 2 ** w))(w)
    for I in (1, 2, 3, 4):
        for F in (2, 3, 4, 6):
            ns[f"Qfixed{I}_{F}"] = (lambda I, F: lambda v: SFix(I, F, Fraction(v)))(I, F)
    return ns


class _Fold(ast.NodeTransformer):
    """constant sub-expressions have their exact Python value and are then typed like a literal of that value (the documented rule for
    constants: `5 - 3` is the literal 2, the smallest Qint holding it - not a 4-bit subtraction)"""
    import operator as _op
    BIN = {ast.Add: _op.add, ast.Sub: _op.sub, ast.Mult: _op.mul, ast.Mod: _op.mod, ast.Pow: _op.pow, ast.LShift: _op.lshift,
           ast.RShift: _op.rshift, ast.BitOr: _op.or_, ast.BitXor: _op.xor, ast.BitAnd: _op.and_}

    def visit_BinOp(self, n):
        self.generic_visit(n)
        if isinstance(n.left, ast.Constant) and isinstance(n.right, ast.Constant) and type(n.op) in self.BIN \
                and all(isinstance(x.value, int) and not isinstance(x.value, bool) for x in (n.left, n.right)):
            try:
                v = self.BIN[type(n.op)](n.left.value, n.right.value)
                if isinstance(v, int) and not isinstance(v, bool):
                    # a NEGATIVE (or oversized) exact value is a literal the unsigned types cannot hold: the literal wrapper rejects it, exactly
                    # as it rejects a written `-2` - such a program is outside the documented subset (diagnostic outcome, never a verdict)
                    return ast.copy_location(ast.Constant(v), n)
            except Exception:  # noqa
                pass
        return n


class _Prep(ast.NodeTransformer):
    """wrap integer literals; refuse constructs outside the documented subset"""

    def visit_Constant(self, n):
        if isinstance(n.value, int) and not isinstance(n.value, bool):
            return ast.Call(func=ast.Name(id="__lit", ctx=ast.Load()), args=[n], keywords=[])
        if isinstance(n.value, str) and len(n.value) == 1:
            return ast.Call(func=ast.Name(id="Qchar", ctx=ast.Load()), args=[n], keywords=[])
        return n

    def visit_Subscript(self, n):
        # subscripts of type annotations / constant indices stay plain
        n.value = self.visit(n.value)
        if isinstance(n.slice, ast.Constant):
            return n
        n.slice = self.visit(n.slice)
        return n

    def visit_FunctionDef(self, n):
        n.body = [self.visit(b) for b in n.body]
        n.returns = None
        # a formal declared Qint[k] HAS width k inside the function, whatever (narrower) integer the caller passes: the value is zero extended at
        # the call boundary (callee semantics under the documented fixed-width types); top-level arguments already arrive in their declared type
        coerce = []
        for a in n.args.args:
            ann = a.annotation
            k = None
            if isinstance(ann, ast.Subscript) and isinstance(ann.value, ast.Name) and ann.value.id == "Qint" and isinstance(ann.slice, ast.Constant):
                k = ann.slice.value
            elif isinstance(ann, ast.Name) and ann.id.startswith("Qint") and ann.id[4:].isdigit():
                k = int(ann.id[4:])
            if isinstance(k, int):
                coerce.append(ast.Assign(targets=[ast.Name(id=a.arg, ctx=ast.Store())],
                                         value=ast.Call(func=ast.Name(id="__as_qint", ctx=ast.Load()), args=[ast.Name(id=a.arg, ctx=ast.Load()), ast.Constant(k)], keywords=[])))
            a.annotation = None
        n.body = coerce + n.body
        n.decorator_list = []
        return n

    def visit_AnnAssign(self, n):
        if n.value is None:
            return ast.Pass()
        return ast.Assign(targets=[n.target], value=self.visit(n.value), lineno=n.lineno)

    def visit_Compare(self, n):
        if len(n.ops) != 1:
            raise Reject("chained comparison")
        if isinstance(n.ops[0], (ast.In, ast.NotIn, ast.Is, ast.IsNot)):
            raise Reject("in / is")
        return self.generic_visit(n)

    def visit_BinOp(self, n):
        if isinstance(n.op, (ast.Div, ast.FloorDiv, ast.MatMult)):
            raise Reject("division")
        return self.generic_visit(n)

    def visit_UnaryOp(self, n):
        if isinstance(n.op, (ast.USub, ast.UAdd)):
            raise Reject("unary minus/plus")
        return self.generic_visit(n)

    def visit_While(self, n):
        raise Reject("while")

    def visit_Lambda(self, n):
        raise Reject("lambda")

    visit_Dict = visit_Set = visit_ListComp = visit_Try = visit_With = visit_Lambda


def compile_reference(src, extra_ns=None):
    """-> python callable implementing the reference semantics of the (first) function in src"""
    tree = ast.parse(src)
    fd = tree.body[0]
    name = fd.name
    tree = _Prep().visit(_Fold().visit(tree))
    ast.fix_missing_locations(tree)
    ns = base_namespace()
    if extra_ns:
        ns.update(extra_ns)
    exec(compile(tree, "<pysem>", "exec"), ns)
    return ns[name]


# -- conversion between bit rows and spec values ---------------------------------------------------

def to_spec(t, bits):
    from qlasskit.types import Qchar as LQchar
    from qlasskit.types.qfixed import QfixedImp
    from qlasskit.types.qint import QintImp
    if t is bool:
        return bits[0], 1
    if inspect.isclass(t) and issubclass(t, QintImp):
        n = t.BIT_SIZE
        return SInt(n, sum(b << i for i, b in enumerate(bits[:n]))), n
    if inspect.isclass(t) and issubclass(t, QfixedImp):
        I, F = t.BIT_SIZE_INTEGER, t.BIT_SIZE_FRACTIONAL
        n = sum(b << (i + F) for i, b in enumerate(bits[:I])) + sum(b << (F - 1 - j) for j, b in enumerate(bits[I:I + F]))
        return SFix(I, F, Fraction(n, 2 ** F)), I + F
    if inspect.isclass(t) and issubclass(t, LQchar):
        return SChar(chr(sum(b << i for i, b in enumerate(bits[:8])))), 8
    vals, k = [], 0
    for a in get_args(t):
        v, n = to_spec(a, bits[k:])
        vals.append(v)
        k += n
    return tuple(vals), k


CARE = []      # per integer leaf of the return value, in order: how many low bits are constrained (filled by to_bits)


def to_bits(t, v):
    """coerce a spec value to the declared type t -> bits (the Return coercion of the documented subset)"""
    from qlasskit.types import Qchar as LQchar
    from qlasskit.types.qfixed import QfixedImp
    from qlasskit.types.qint import QintImp
    if t is bool:
        if not isinstance(v, bool):
            raise Reject(f"bool expected, got {v!r}")
        return [v]
    if inspect.isclass(t) and issubclass(t, QintImp):
        if isinstance(v, (SFix, str, bool, float)) or not isinstance(v, (SInt, int)):
            raise Reject(f"integer expected, got {v!r}")
        v = SInt.of(v)
        n = t.BIT_SIZE
        if v.v >= 2 ** n:
            Flag.overflow = True
        CARE.append(min(n, v.k))
        return [bool((v.v >> i) & 1) for i in range(n)]
    if inspect.isclass(t) and issubclass(t, QfixedImp):
        I, F = t.BIT_SIZE_INTEGER, t.BIT_SIZE_FRACTIONAL
        if isinstance(v, float):
            v = SFix(I, F, Fraction(v))
        if not isinstance(v, SFix):
            raise Reject(f"fixed-point expected, got {v!r}")
        sc = v.x * 2 ** F
        if sc.denominator != 1 or not (0 <= sc < 2 ** (I + F)):
            Flag.overflow = Flag.unconstrained = True
        sc = int(math.floor(sc)) % 2 ** (I + F)
        return [bool((sc >> (i + F)) & 1) for i in range(I)] + [bool((sc >> (F - 1 - j)) & 1) for j in range(F)]
    if inspect.isclass(t) and issubclass(t, LQchar):
        if not isinstance(v, str) or len(v) != 1:
            raise Reject(f"char expected, got {v!r}")
        return [bool((ord(v) >> i) & 1) for i in range(8)]
    args = get_args(t)
    if not isinstance(v, (tuple, list)) or len(v) != len(args):
        raise Reject(f"tuple of {len(args)} expected, got {v!r}")
    out = []
    for a, x in zip(args, v):
        out += to_bits(a, x)
    return out


def evaluate(fn, arg_types, ret_type, row):
    """row: list of input bits in argument order -> ('value', bits, overflowed) | ('reject', why)"""
    args, k = [], 0
    for t in arg_types:
        v, n = to_spec(t, row[k:])
        args.append(v)
        k += n
    Flag.overflow = Flag.unconstrained = False
    del CARE[:]
    try:
        val = fn(*args)
        bits = to_bits(ret_type, val)
    except Reject as ex:
        return ("reject", str(ex))
    except (IndexError, ZeroDivisionError, OverflowError) as ex:
        return ("undefined", f"{type(ex).__name__}: {ex}")
    except (TypeError, ValueError, AttributeError, NameError) as ex:
        return ("reject", f"{type(ex).__name__}: {ex}")
    # care mask per return bit: integer leaves are constrained on their low k bits, everything else entirely
    care = care_mask(ret_type, list(CARE))
    if Flag.unconstrained:
        care = [False] * len(bits)
    return ("value", bits, Flag.overflow, val, care)


def care_mask(t, ks):
    from qlasskit.types.qint import QintImp
    if t is bool:
        return [True]
    if inspect.isclass(t) and issubclass(t, QintImp):
        k = ks.pop(0) if ks else t.BIT_SIZE
        return [i < k for i in range(t.BIT_SIZE)]
    if inspect.isclass(t) and hasattr(t, "BIT_SIZE"):
        return [True] * t.BIT_SIZE
    out = []
    for a in get_args(t):
        out += care_mask(a, ks)
    return out
