"""Bounded stand-in engine: instance families (programs) with a stated bound, each instance decided on
ALL its inputs by bit-parallel truth tables.  Never counted as proved."""
import ast
import glob
import itertools
import os
import random
import re

from . import common, pysem, spec


# ------------------------------------------------------------------------------------------------
# instance families

def harvest_tests():
    """program strings that appear in the repository's own tests (re-read on every run)"""
    srcs = []
    for fn in sorted(glob.glob(os.path.join(common.REPO, "test", "**", "*.py"), recursive=True)):
        try:
            tree = ast.parse(open(fn).read())
        except SyntaxError:
            continue
        for n in ast.walk(tree):
            if isinstance(n, ast.Constant) and isinstance(n.value, str):
                s = n.value
                if s.startswith("def ") and "->" in s and "\n" in s:
                    srcs.append(s)
    out, seen = [], set()
    for s in srcs:
        if s not in seen:
            seen.add(s)
            out.append(s)
    return out


CURATED = [
    # boolean structure
    "def p(a: bool, b: bool) -> bool:\n\treturn a and b",
    "def p(a: bool, b: bool, c: bool) -> bool:\n\treturn a or b or c",
    "def p(a: bool, b: bool, c: bool) -> bool:\n\treturn (a or b or c) and (a ^ c)",
    "def p(a: bool, b: bool, c: bool, d: bool) -> bool:\n\treturn ((a or d or b) and (a ^ d)) or ((c and b) and (a == c))",
    "def p(a: bool, b: bool, c: bool) -> bool:\n\treturn (a and b and c) or (not a and not b and not c)",
    "def p(a: bool, b: bool) -> bool:\n\treturn (a and b) or (not a and not b)",
    "def p(a: bool, b: bool) -> bool:\n\treturn (a ^ b) and not (a ^ b)",
    "def p(a: bool, b: bool, c: bool) -> bool:\n\treturn b if a else c",
    "def p(a: bool, b: bool, c: bool) -> bool:\n\treturn (b and c) if (a or c) else (not b)",
    "def p(a: bool) -> bool:\n\treturn a",
    "def p(a: bool) -> bool:\n\treturn not a",
    "def p(a: bool) -> bool:\n\treturn True",
    "def p(a: bool, b: bool) -> bool:\n\treturn a != b",
    "def p(a: bool, b: bool) -> Tuple[bool, bool]:\n\treturn (b, a)",
    "def p(a: bool, b: bool) -> Tuple[bool, bool]:\n\treturn (a and b, a or b)",
    "def p(a: bool, b: bool) -> Tuple[bool, bool, bool]:\n\tc = a ^ b\n\treturn (c, c, not c)",
    # integers
    "def p(a: Qint[2], b: Qint[2]) -> Qint[2]:\n\treturn a + b",
    "def p(a: Qint[2], b: Qint[4]) -> Qint[4]:\n\treturn a + b",
    "def p(a: Qint[2], b: Qint[4]) -> Qint[4]:\n\treturn b - a",
    "def p(a: Qint[2], b: Qint[4]) -> Qint[4]:\n\treturn a - b",
    "def p(a: Qint[2], b: Qint[4]) -> bool:\n\treturn a > b",
    "def p(a: Qint[2], b: Qint[4]) -> bool:\n\treturn a <= b",
    "def p(a: Qint[4], b: Qint[2]) -> bool:\n\treturn a >= b",
    "def p(a: Qint[3], b: Qint[3]) -> bool:\n\treturn a != b",
    "def p(a: Qint[4]) -> Qint[8]:\n\treturn a * 6",
    "def p(a: Qint[4]) -> Qint[8]:\n\treturn a * 0",
    "def p(a: Qint[4]) -> Qint[8]:\n\treturn 10 * a",
    "def p(a: Qint[2], b: Qint[2]) -> Qint[4]:\n\treturn a * b",
    "def p(a: Qint[2]) -> Qint[8]:\n\treturn a ** 3",
    "def p(a: Qint[4]) -> Qint[4]:\n\treturn a % 4",
    "def p(a: Qint[4]) -> Qint[4]:\n\treturn (a << 1) | (a >> 3)",
    "def p(a: Qint[4], b: Qint[4]) -> Qint[4]:\n\treturn (a & b) ^ (~a)",
    "def p(a: Qint[4]) -> bool:\n\treturn a[0] and not a[3]",
    "def p(a: Qint[4]) -> Qint[4]:\n\treturn a + 3 - 1",
    "def p(a: Qint[4]) -> Qint[4]:\n\treturn a + b if False else a",
    "def p(a: Qint[2], b: Qint[2]) -> Qint[2]:\n\treturn a if a > b else b",
    "def p(a: Qint[2], b: Qint[4], c: bool) -> Qint[4]:\n\treturn a if c else b",
    "def p(a: Qint[4]) -> Qint[2]:\n\treturn a",
    "def p(a: Qint[2]) -> Qint[4]:\n\treturn a",
    "def p(a: Qint[2]) -> Qint[4]:\n\treturn 12",
    # wide returns: more than ten return bits (bit names _ret.10, _ret.11 ... sort before _ret.2)
    "def p(a: Qint[4]) -> Qint[12]:\n\treturn a",
    "def p(a: Qint[4], b: Qint[4]) -> Qint[16]:\n\treturn a * b + 3",
    "def p(a: Qint[2], b: bool) -> Tuple[Qint[12], bool]:\n\treturn (a + 1000, b)",
    "def p(a: Qint[2]) -> Qlist[bool, 12]:\n\treturn [a[0], a[1], True, False, a[0], a[1], a[1], a[0], False, True, a[1], a[0]]",
    # statements
    "def p(a: Qint[2], b: bool) -> Qint[4]:\n\tc = 0\n\tif b:\n\t\tc += 12\n\telse:\n\t\tc += 3\n\treturn c + a",
    "def p(a: bool, b: bool) -> bool:\n\tc = a\n\tif b:\n\t\tc = not c\n\treturn c",
    "def p(a: Qint[2]) -> Qint[4]:\n\tc = 0\n\tfor i in range(3):\n\t\tc += a\n\treturn c",
    "def p(a: Qint[4]) -> Qint[4]:\n\tfor i in range(2):\n\t\ta += i\n\treturn a",
    "def p(a: Tuple[bool, bool, bool]) -> bool:\n\tc = False\n\tfor x in a:\n\t\tc = c ^ x\n\treturn c",
    "def p(a: bool, b: bool) -> bool:\n\tc, d = b, a\n\treturn c and not d",
    "def p(a: Qint[2], b: Qint[2]) -> Qint[2]:\n\ta, b = b, a\n\treturn a - b",
    "def p(a: Qint[2]) -> Qint[2]:\n\tb = a + 1\n\tb = b + 1\n\treturn b",
    "def p(a: Qint[2]) -> bool:\n\tb = a == 2\n\tc = not b\n\tb = c and a[0]\n\treturn b",
    "def p(a: Qint[2], c: bool) -> Qint[2]:\n\td = a\n\tif c:\n\t\tc = False\n\t\td = a + 1\n\treturn d",
    "def p(a: Qint[2], first: bool) -> Qint[4]:\n\tif first:\n\t\tfirst = False\n\t\ta += 2\n\telse:\n\t\ta += 1\n\treturn a",
    "def p(a: Qint[2], c: bool) -> Qint[2]:\n\told = a\n\tif c:\n\t\ta = a + 1\n\treturn a - old",
    # tuples, lists, builtins
    "def p(a: Tuple[Qint[2], bool]) -> Qint[2]:\n\treturn a[0] if a[1] else 0",
    "def p(a: Tuple[Qint[2], bool], b: Qint[2]) -> Tuple[bool, Qint[2]]:\n\treturn (a[1], a[0] + b)",
    "def p(a: Tuple[Tuple[bool, bool], bool]) -> bool:\n\treturn a[0][0] and a[0][1] or a[1]",
    "def p(a: Qlist[Qint[2], 3]) -> Qint[2]:\n\treturn max(a)",
    "def p(a: Qlist[Qint[2], 3]) -> Qint[2]:\n\treturn min(a)",
    "def p(a: Qint[2], b: Qint[2], c: Qint[2]) -> Qint[2]:\n\treturn min(a, b, c)",
    "def p(a: Qlist[Qint[2], 3]) -> Qint[4]:\n\treturn sum(a)",
    "def p(a: Qlist[bool, 3]) -> bool:\n\treturn all(a)",
    "def p(a: Qlist[bool, 3]) -> bool:\n\treturn any(a)",
    "def p(a: Qlist[Qint[2], 3]) -> Qint[2]:\n\treturn len(a)",
    "def p(a: Qint[2]) -> Qint[4]:\n\treturn len(range(4)) + a",
    "def p(a: Qint[2]) -> Qint[4]:\n\tc = [3, 1, 4, 1]\n\treturn c[a]",
    "def p(a: Qlist[Qint[2], 2], i: Qint[2]) -> Qint[2]:\n\treturn a[i]",
    "def p(a: Qmatrix[bool, 2, 2]) -> bool:\n\treturn a[0][1] and a[1][0]",
    "def p(a: Qint[2], b: Qint[2]) -> Qlist[Qint[2], 2]:\n\treturn [b, a]",
    # chars, fixed
    "def p(a: Qchar) -> bool:\n\treturn a == 'z'",
    "def p(a: Qchar) -> Qint[8]:\n\treturn ord(a)",
    "def p(a: Qchar) -> bool:\n\treturn ord(a) == 48",
    "def p(a: Qchar) -> bool:\n\treturn ord(a) != 112",
    "def p(a: Tuple[bool, Qint[2]], b: Tuple[bool, Qint[2]]) -> bool:\n\treturn a != b",
    "def p(a: Tuple[bool, bool], b: Tuple[bool, bool]) -> bool:\n\treturn a == b",
    "def p(a: Qint[8]) -> Qchar:\n\treturn chr(a)",
    "def p(a: Qfixed[1, 2], b: Qfixed[1, 2]) -> Qfixed[1, 2]:\n\treturn a + b",
    "def p(a: Qfixed[2, 2], b: Qfixed[2, 2]) -> Qfixed[2, 2]:\n\treturn a - b",
    "def p(a: Qfixed[1, 3], b: Qfixed[1, 3]) -> bool:\n\treturn a > b",
    "def p(a: Qfixed[2, 2]) -> bool:\n\treturn a >= Qfixed2_2(1.5)",
    "def p(a: Qfixed[1, 2]) -> Qfixed[1, 2]:\n\treturn a * 2",
    "def p(a: Qfixed[2, 2]) -> Qfixed[2, 2]:\n\treturn a + 0.5",
    "def p(a: Qfixed[2, 3]) -> Qint[2]:\n\treturn int(a)",
    "def p(a: Qfixed[1, 2]) -> Qint[2]:\n\treturn int(a)",
    "def p(a: Qint[2]) -> Qfixed[2, 2]:\n\treturn float(a)",
    # constant folding (ConstantFolder): comparisons / unary / binary operators / builtins / subscripts / conditions on constants
    "def p(a: Qint[2]) -> Qint[4]:\n\treturn a + 3 if 2 <= 2 else a",
    "def p(a: Qint[2]) -> Qint[4]:\n\treturn a + 1 if 3 < 3 else a + 2",
    "def p(a: Qint[2]) -> Qint[4]:\n\treturn a + 1 if 3 >= 4 else a + 2",
    "def p(a: Qint[2]) -> Qint[4]:\n\treturn a + 1 if 4 > 3 else a + 2",
    "def p(a: Qint[2]) -> Qint[4]:\n\treturn a + 1 if 3 != 3 else a + 2",
    "def p(a: bool) -> bool:\n\treturn a and (3 == 3) and not (2 == 3)",
    "def p(a: bool) -> bool:\n\tif 1 < 2:\n\t\ta = not a\n\treturn a",
    "def p(a: bool) -> bool:\n\tif 2 < 1:\n\t\ta = not a\n\telse:\n\t\ta = a\n\treturn a",
    "def p(a: Qint[4]) -> Qint[4]:\n\treturn a + (7 - 4) + (2 * 3) - (9 % 4) + (1 << 2) - (8 >> 2)",
    "def p(a: Qint[4]) -> Qint[4]:\n\treturn a + (6 & 3) + (4 | 1) + (7 ^ 2)",
    "def p(a: Qint[4]) -> Qint[4]:\n\treturn a + 2 ** 3",
    "def p(a: Qint[4]) -> Qint[4]:\n\treturn a + max([1, 5, 3]) - min([4, 2, 9]) + len([7, 7, 7]) + sum([1, 2])",
    "def p(a: Qint[4]) -> Qint[4]:\n\treturn a + [3, 9, 4][1]",
    "def p(a: bool) -> bool:\n\treturn a or all([True, False]) or not any([False, False])",
    "def p(a: Qint[8]) -> bool:\n\treturn a == ord('A')",
    "def p(a: Qchar) -> bool:\n\treturn a == chr(66)",
    # early return forms from the README
    "def p(a: Qint[2], b: Qint[2]) -> bool:\n\treturn a + b == 3",
    "def p(a: Qlist[Qint[2], 2], b: Qint[2]) -> bool:\n\tc = False\n\tfor x in a:\n\t\tif x == b:\n\t\t\tc = True\n\treturn c",
    # loops: the loop variable after the loop (bound before as a local / shadowing an argument), comparisons that tie on an unrolled index,
    # shifts by the index starting at 0, for/else, tuple assignments whose right side reads an earlier target, loop over a matrix row
    "def p(a: Qint[2]) -> Qint[4]:\n\ti = 0\n\tfor i in range(3):\n\t\ta += 1\n\treturn a + i",
    "def p(a: Qint[2], i: Qint[2]) -> Qint[4]:\n\tr = a\n\tfor i in range(2):\n\t\tr += 1\n\treturn r + i",
    "def p(a: Qint[2]) -> Qint[4]:\n\tr = 0\n\tfor i in range(4):\n\t\tif i >= 2:\n\t\t\tr += a\n\treturn r",
    "def p(a: Qint[2]) -> Qint[4]:\n\tr = 0\n\tfor i in range(4):\n\t\tif i <= 1:\n\t\t\tr += a\n\treturn r",
    "def p(a: Qint[2]) -> Qint[4]:\n\tr = 0\n\tfor i in range(3):\n\t\tif i > 1:\n\t\t\tr += a\n\t\tif i < 1:\n\t\t\tr += 1\n\treturn r",
    "def p(a: Qint[2]) -> Qint[6]:\n\ts = 0\n\tfor i in range(3):\n\t\ts = s + (a << i)\n\treturn s",
    "def p(a: Qint[2]) -> Qint[2]:\n\tr = a\n\tfor i in range(2):\n\t\tr += 1\n\telse:\n\t\tr += 1\n\treturn r",
    "def p(a: bool, b: bool) -> Tuple[bool, bool]:\n\ta, b = b, a\n\treturn (a, b)",
    "def p(a: bool, b: bool, c: bool) -> Tuple[bool, bool, bool]:\n\ta, b, c = c, a, b\n\treturn (a, b, c)",
    "def p(a: bool, b: bool) -> Tuple[bool, bool]:\n\ta, b = b, a ^ b\n\treturn (a, b)",
    "def p(m: Qmatrix[bool, 2, 3]) -> bool:\n\ts = False\n\tfor x in m[1]:\n\t\ts = s ^ x\n\treturn s",
    "def p(m: Qmatrix[bool, 2, 3]) -> bool:\n\treturn m[0][2] ^ m[1][0]",
    "def p(m: Qmatrix[bool, 2, 3], i: Qint[2]) -> bool:\n\treturn m[1][i]",
    "def p(m: Qmatrix[bool, 3, 2], i: Qint[2], j: Qint[2]) -> bool:\n\treturn m[i][j]",
    "def p(m: Qmatrix[bool, 2, 3], i: Qint[2], j: Qint[2]) -> bool:\n\treturn m[i][j]",
    "def p(m: Qmatrix[bool, 3, 2]) -> bool:\n\ts = False\n\tfor x in m[2]:\n\t\ts = s ^ x\n\treturn s",
    # augmented assignments with NON-commutative operators (the rewriter turns `x op= e` into `x = x op e`)
    "def p(a: Qint[2], b: Qint[2]) -> Qint[2]:\n\ta -= b\n\treturn a",
    "def p(a: Qint[4], b: Qint[2]) -> Qint[4]:\n\ta -= b\n\ta -= 1\n\treturn a",
    "def p(a: Qint[4]) -> Qint[4]:\n\ta %= 4\n\treturn a",
    "def p(a: Qint[4]) -> Qint[4]:\n\ta <<= 1\n\treturn a",
    "def p(a: Qint[4]) -> Qint[4]:\n\ta >>= 2\n\treturn a",
    "def p(a: Qint[2], b: Qint[2]) -> Qint[2]:\n\ta ^= b\n\ta &= 2\n\ta |= b\n\treturn a",
    "def p(a: Qint[2], b: Qint[2]) -> Qint[4]:\n\tc = 3\n\tc -= a\n\tc += b\n\treturn c",
    "def p(a: bool, b: bool) -> bool:\n\tc = a\n\tc ^= b\n\tc &= a\n\treturn c",
    # nested tuples whose rows have different lengths: loops / builtins over a row other than the first
    "def p(a: Tuple[Tuple[bool, bool], Tuple[bool, bool, bool]]) -> bool:\n\ts = False\n\tfor x in a[1]:\n\t\ts = s ^ x\n\treturn s",
    "def p(a: Tuple[Tuple[bool, bool], Tuple[bool, bool, bool]]) -> bool:\n\treturn all(a[1]) or any(a[0])",
    "def p(a: Tuple[Tuple[Qint[2], Qint[2]], Tuple[Qint[2], Qint[2], Qint[2]]]) -> Qint[4]:\n\treturn sum(a[1]) + max(a[0])",
    "def p(a: Tuple[Tuple[bool, bool, bool], Tuple[bool, bool]]) -> bool:\n\ts = False\n\tfor x in a[1]:\n\t\ts = s ^ x\n\tfor y in a[0]:\n\t\ts = s ^ y\n\treturn s",
    # negative constant indices (rejected, or Python's from-the-end meaning)
    "def p(a: Qlist[bool, 3]) -> bool:\n\treturn a[-1]",
    "def p(a: Qint[2]) -> bool:\n\treturn a[-1]",
    "def p(a: Tuple[bool, Qint[2]]) -> bool:\n\treturn a[-2]",
    # a tuple / list of VARIABLES used after one of the variables was re-assigned (Python: the tuple keeps the old values)
    "def p(a: bool, b: bool) -> bool:\n\tt = (a, b)\n\ta = not a\n\treturn t[0]",
    "def p(a: bool, b: bool) -> bool:\n\tt = (a, b)\n\ta = not a\n\treturn all(t)",
    "def p(a: Qint[2], b: Qint[2]) -> Qint[4]:\n\tt = [a, b]\n\ta = 3\n\treturn sum(t)",
    "def p(a: Qint[2], b: Qint[2]) -> Qint[2]:\n\tt = [a, b]\n\tb = a\n\treturn max(t)",
    # a constant list re-assigned with another length, then indexed by a variable; products of two constants
    "def p(a: Qint[2]) -> Qint[2]:\n\tc = [1, 2]\n\tc = [3, 2, 1]\n\treturn c[a]",
    "def p(a: Qint[2]) -> Qint[2]:\n\tc = [3, 2, 1, 0]\n\tc = [1, 2]\n\treturn c[a]",
    "def p(a: Qint[2]) -> Qint[8]:\n\treturn Qint4(6) * Qint4(3) + a",
    "def p(a: Qint[2]) -> Qint[8]:\n\treturn a + Qint4(2) * 3",
    # constant list-of-lists read with VARIABLE indices (non-square: more columns than rows, and the other way round)
    "def p(i: Qint[2], j: Qint[2]) -> Qint[4]:\n\tc = [[1, 2, 3], [4, 5, 6]]\n\treturn c[i][j]",
    "def p(i: Qint[2], j: Qint[2]) -> Qint[4]:\n\tc = [[1, 2], [3, 4], [5, 6]]\n\treturn c[i][j]",
    "def p(i: Qint[2]) -> Qint[4]:\n\tc = [[1, 2, 3], [4, 5, 6]]\n\treturn c[1][i] + c[0][i]",
    # wide disjunctions NESTED inside wide disjunctions / conjunctions (the synthesiser only handles two-operand Ors: every wide one must be rewritten, at any depth)
    "def p(a: bool, b: bool, c: bool, d: bool, e: bool, g: bool) -> bool:\n\treturn ((a or b or c) and d) or e or g",
    "def p(a: bool, b: bool, c: bool, d: bool, e: bool) -> bool:\n\treturn (a or b or (c and (d or e or a))) and not (b or c or d)",
    "def p(a: bool, b: bool, c: bool, d: bool) -> bool:\n\treturn not (a or b or c) or (d and (a or c or d)) or (b and d)",
    "def p(a: bool, b: bool, c: bool, d: bool, e: bool) -> bool:\n\treturn ((a or b or c or d) ^ e) or (a and b) or (c and (a or d or e))",
    # modulo: literal power of two, literal non-power (outside the subset), variable modulus
    "def p(a: Qint[4]) -> Qint[4]:\n\treturn a % 4",
    "def p(a: Qint[4]) -> Qint[4]:\n\treturn a % 3",
    "def p(a: Qint[4]) -> Qint[4]:\n\treturn a % 6",
    "def p(a: Qint[3], b: Qint[2]) -> Qint[3]:\n\treturn a % b",
    "def p(a: Qint[4]) -> Qint[4]:\n\tb = 3\n\treturn a % b",
]

OUTSIDE = [
    "def p(a: Qint[2], b: Qint[2]) -> bool:\n\treturn a < b < 3",
    "def p(a: Qint[4], b: Qint[2]) -> Qint[4]:\n\treturn a // b",
    "def p(a: Qint[4], b: Qint[2]) -> Qint[4]:\n\treturn a / b",
    "def p(a: Qint[4]) -> Qint[4]:\n\treturn -a",
    "def p(a: Qint[2], b: Qlist[Qint[2], 2]) -> bool:\n\treturn a in b",
    "def p(a: Qint[2]) -> Qint[2]:\n\twhile a > 0:\n\t\ta -= 1\n\treturn a",
    "def p(a: Qint[2]) -> Qint[2]:\n\treturn a + zz",
    "def p(a: Qint[2], b: Qfixed[1, 2]) -> Qfixed[1, 2]:\n\treturn a + b",
    "def p(a: Qint[8], b: Qchar) -> bool:\n\treturn a == b",
    "def p(a: Qint[2], b: bool) -> Qint[2]:\n\treturn a + b",
    "def p(a: Qint[2], b: bool) -> bool:\n\treturn a and b",
    "def p(a: Qint[4], b: Qint[4]) -> Qint[4]:\n\treturn a % b",
    "def p(a: Qint[4], b: Qint[2]) -> Qint[4]:\n\treturn a << b",
    "def p(a: Qfixed[1, 2], b: Qint[2]) -> Qfixed[1, 2]:\n\treturn a * b",
    "def p(a: Qint[2]) -> bool:\n\treturn a",
    "def p(a: bool) -> Qint[2]:\n\treturn a",
    "def p(a: Qint[2], b: Qfixed[1, 2], c: bool) -> Qfixed[1, 2]:\n\treturn a if c else b",
    "def p(a: Qint[2]) -> Qint[2]:\n\treturn a[5]",
    "def p(a: Qint[2]) -> Qint[2]:\n\treturn a + 70000",
]


# programs for the FRONT-END checks only (C01 L3 / layer T, C17, C18): not part of the synthesiser families, whose findings are keyed by instance
FRONT_ONLY = [
    # variables named like the machinery's own symbols
    "def p(a: bool, b: bool) -> bool:\n\t_retq = a and b\n\treturn _retq ^ a",
    "def p(x: Qint[2], y: bool) -> Qint[2]:\n\t_retx = x + 1\n\tp_x = _retx + 1\n\treturn p_x if y else _retx",
    "def p(_retx: bool, x0: bool) -> Tuple[bool, bool]:\n\tx1 = _retx ^ x0\n\treturn (x1 and x0, x1 or _retx)",
]

class Gen:
    """typed program generator over the documented subset (bounded: depth / widths stated by the caller)"""

    def __init__(self, seed):
        self.r = random.Random(seed)

    def bool_expr(self, vars_, depth):
        r = self.r
        if depth == 0 or r.random() < 0.25:
            v = r.choice(vars_)
            return v if r.random() < 0.8 else f"(not {v})"
        k = r.random()
        if k < 0.25:
            n = r.choice((2, 2, 3))
            return "(" + " and ".join(self.bool_expr(vars_, depth - 1) for _ in range(n)) + ")"
        if k < 0.5:
            n = r.choice((2, 2, 3))
            return "(" + " or ".join(self.bool_expr(vars_, depth - 1) for _ in range(n)) + ")"
        if k < 0.62:
            return f"(not {self.bool_expr(vars_, depth - 1)})"
        if k < 0.74:
            return f"({self.bool_expr(vars_, depth - 1)} ^ {self.bool_expr(vars_, depth - 1)})"
        if k < 0.84:
            op = r.choice(("==", "!="))
            return f"({self.bool_expr(vars_, depth - 1)} {op} {self.bool_expr(vars_, depth - 1)})"
        return f"({self.bool_expr(vars_, depth - 1)} if {self.bool_expr(vars_, depth - 1)} else {self.bool_expr(vars_, depth - 1)})"

    def bool_program(self, nvars, depth, nret=1, nassign=0):
        vs = list("abcde"[:nvars])
        args = ", ".join(f"{v}: bool" for v in vs)
        body = []
        avail = list(vs)
        for i in range(nassign):
            body.append(f"\tt{i} = {self.bool_expr(avail, depth - 1)}")
            avail.append(f"t{i}")
        if nret == 1:
            return f"def p({args}) -> bool:\n" + "\n".join(body + [f"\treturn {self.bool_expr(avail, depth)}"])
        rets = ", ".join(self.bool_expr(avail, depth - 1) for _ in range(nret))
        return f"def p({args}) -> Tuple[{', '.join(['bool'] * nret)}]:\n" + "\n".join(body + [f"\treturn ({rets})"])

    def int_expr(self, ivars, depth):
        """ivars: list of (name, width)"""
        r = self.r
        if getattr(self, "no_invert", False) and depth > 0:
            # statement-level programs: `~x` is the one operator whose VALUE depends on the static width of x, and the library widens a
            # variable at an if/else join (the wider arm's type) where the dynamically typed reference does not: excluded there
            for _ in range(8):
                e = self._int_expr(ivars, depth)
                if "~" not in e:
                    return e
            return ivars[0][0]
        return self._int_expr(ivars, depth)

    def _int_expr(self, ivars, depth):
        r = self.r
        if depth == 0 or r.random() < 0.3:
            if r.random() < 0.25:
                return str(r.choice((0, 1, 2, 3, 5)))
            return r.choice(ivars)[0]
        k = r.random()
        a, b = self.int_expr(ivars, depth - 1), self.int_expr(ivars, depth - 1)
        if k < 0.3:
            return f"({a} + {b})"
        if k < 0.45:
            return f"({a} - {b})"
        if k < 0.6:
            return f"({a} {r.choice('&|^')} {b})"
        if k < 0.7:
            v = r.choice(ivars)[0]
            return f"({v} {r.choice(('<<', '>>'))} {r.choice((1, 2))})"
        if k < 0.78:
            return f"({r.choice(ivars)[0]} * {r.choice((2, 3, 4, 6))})"
        if k < 0.9:
            return f"({a} if {self.int_cond(ivars, depth - 1)} else {b})"
        return f"(~{r.choice(ivars)[0]})"

    def int_cond(self, ivars, depth):
        r = self.r
        a, b = self.int_expr(ivars, depth), self.int_expr(ivars, depth)
        if a.isdigit() and b.isdigit():
            a = ivars[0][0]
        return f"({a} {r.choice(('==', '!=', '<', '<=', '>', '>='))} {b})"

    def int_program(self, depth):
        r = self.r
        widths = [r.choice((2, 2, 3, 4)) for _ in range(r.choice((1, 2, 2)))]
        ivars = [("xyz"[i], w) for i, w in enumerate(widths)]
        args = ", ".join(f"{n}: Qint[{w}]" for n, w in ivars)
        if r.random() < 0.35:
            return f"def p({args}) -> bool:\n\treturn {self.int_cond(ivars, depth)}"
        rw = r.choice((2, 4, 4, 8))
        return f"def p({args}) -> Qint[{rw}]:\n\treturn {self.int_expr(ivars, depth)}"


    def stmt_program(self, idx):
        """statement-level programs: assignments, augmented assignments, if/else whose bodies assign several variables (the condition
        variable included), for loops over range / tuples, tuple swaps - the constructs ast2ast rewrites away"""
        r = self.r
        kind = "bool" if idx % 2 == 0 else "int"
        self.no_invert = True
        if kind == "bool":
            params = ["a: bool", "b: bool", "c: bool"][: r.choice((2, 3, 3))]
            vs = [p.split(":")[0] for p in params]
            ret = "bool"

            def e(d=1):
                return self.bool_expr(vs, d)

            def cond():
                return r.choice(vs) if r.random() < 0.6 else e(1)
        else:
            params = ["x: Qint[2]", "y: Qint[2]", "f: bool"]
            vs = ["x", "y"]
            ret = "Qint[4]"

            def e(d=1):
                return self.int_expr([("x", 2), ("y", 2)], d)

            def cond():
                return "f" if r.random() < 0.6 else self.int_cond([("x", 2), ("y", 2)], 1)
        body = []
        flags = ["f"] if kind == "int" else []

        def assign(ind):
            t = r.choice(vs)
            if kind == "int" and r.random() < 0.4:
                # every augmented operator the subset has, the non-commutative one included
                op = r.choice(("+=", "+=", "-=", "^=", "&=", "|="))
                return f"{ind}{t} {op} {r.choice(('1', '2', r.choice(vs)))}"
            if kind == "bool" and r.random() < 0.3:
                if r.random() < 0.5:
                    return f"{ind}{t} {r.choice(('^=', '&=', '|='))} {r.choice(vs)}"
                return f"{ind}{t} = not {t}"
            return f"{ind}{t} = {e(1)}"
        for _ in range(r.choice((2, 3, 3, 4))):
            k = r.random()
            if k < 0.45:
                c = cond()
                then = [assign("\t\t") for _ in range(r.choice((1, 2, 3)))]
                # the body may re-assign the very variable the test reads
                names = [n for n in vs + flags if n == c]
                if names and r.random() < 0.7:
                    tgt = names[0]
                    new = "False" if (kind == "bool" or tgt in flags) else e(1)
                    then.insert(r.choice((0, 0, len(then))), f"\t\t{tgt} = {new}")
                els = [assign("\t\t") for _ in range(r.choice((0, 1, 2)))]
                body.append(f"\tif {c}:")
                body += then
                if els:
                    body.append("\telse:")
                    body += els
            elif k < 0.6:
                t = r.choice(vs)
                n = r.choice((2, 3))
                if kind == "int":
                    body.append(f"\tfor i in range({n}):\n\t\t{t} += {r.choice(('i', '1', r.choice(vs)))}")
                else:
                    body.append(f"\tfor i in range({n}):\n\t\t{t} = {t} ^ {r.choice(vs)}")
            elif k < 0.72 and len(vs) >= 2:
                p, q = r.sample(vs, 2)
                body.append(f"\t{p}, {q} = {q}, {p}")
            elif k < 0.85:
                body.append(f"\told = {r.choice(vs)}")
                vs.append("old") if "old" not in vs else None
            else:
                body.append(assign("\t"))
        rexp = e(1)
        return f"def p({', '.join(params)}) -> {ret}:\n" + "\n".join(body) + f"\n\treturn {rexp}"


def generated(tier, seed):
    g = Gen(seed * 7919 + 1)
    out = []
    nb, ni = (60, 50) if tier == "quick" else (600, 500)
    for i in range(nb):
        nv = 2 + i % 3
        out.append(g.bool_program(nv, 2 + (i % 2), nret=1 if i % 5 else 2, nassign=(i % 3 == 0) * 1))
    for i in range(ni):
        out.append(g.int_program(1 + i % 2 + (tier == "thorough" and i % 7 == 0)))
    g2 = Gen(seed * 104729 + 3)
    for i in range(120 if tier == "quick" else 1500):
        out.append(g2.stmt_program(i))
    return out


# ------------------------------------------------------------------------------------------------
# running the library on an instance

def profiles():
    from qlasskit.boolopt import defaultOptimizer, fastOptimizer
    return {"default": defaultOptimizer, "fast": fastOptimizer}


class Budget(BaseException):
    """an instance exceeded its time budget: it is skipped and counted, never a verdict"""


class time_budget:
    """with time_budget(secs): ...  raises Budget inside the block when the wall-clock budget is exceeded (worker processes only)"""

    def __init__(self, secs):
        self.secs = secs

    def __enter__(self):
        import signal

        def onalarm(sig, frm):
            raise Budget(f"more than {self.secs} s")
        self._old = signal.signal(signal.SIGALRM, onalarm)
        signal.setitimer(signal.ITIMER_REAL, self.secs)
        return self

    def __exit__(self, *a):
        import signal
        signal.setitimer(signal.ITIMER_REAL, 0)
        signal.signal(signal.SIGALRM, self._old)
        return False


INSTANCE_BUDGET_S = float(os.environ.get("VERIF_INSTANCE_BUDGET", "90"))


def front_end(src, profile, compile_=False, uncompute=True):
    from qlasskit import qlassf
    return qlassf(src, to_compile=compile_, bool_optimizer=profiles()[profile], uncompute=uncompute)


def input_names(qf):
    return [b for a in qf.args for b in a.bitvec]


def expr_tables(qf, max_bits=14):
    """evaluate qf.expressions sequentially on ALL assignments of the argument bits (bit-parallel).
    -> (names, tables dict incl. every defined symbol, mask) or None if too many inputs"""
    names = input_names(qf)
    if len(names) > max_bits:
        return None
    tabs, mask = spec.input_tables(names)
    for s, e in qf.expressions:
        try:
            tabs[s.name] = spec.sympy_table(e, names, tabs, mask)
        except KeyError:
            tabs[s.name] = None     # refers to a symbol nothing defines: poisoned (a violation only if a return bit depends on it)
    return names, tabs, mask


def pysem_tables(src, qf, max_bits=12):
    """reference value of every return bit on every row; -> dict(ret=[tables], care=table of rows where the
    reference is defined and no intermediate left its range, rejects=int, undefined=int) or None"""
    names = input_names(qf)
    n = len(names)
    if n > max_bits:
        return None
    fn = pysem.compile_reference(src)
    arg_types = [a.ttype for a in qf.args]
    nret = len(qf.returns.bitvec)
    ret = [0] * nret
    carebit = [0] * nret       # per return bit: the rows on which the reference constrains it
    care = 0
    rej = und = ovf = partial = 0
    why = None
    for r in range(1 << n):
        row = [(r >> i) & 1 == 1 for i in range(n)]
        out = pysem.evaluate(fn, arg_types, qf.returns.ttype, row)
        if out[0] == "value":
            bits, overflow, cm = out[1], out[2], out[4]
            if len(bits) != nret:
                return dict(shape_mismatch=f"reference yields {len(bits)} bits, library declares {nret}")
            if overflow:
                ovf += 1
                if not any(cm):
                    continue
                partial += 1      # wrap-around row: only the low bits that modular arithmetic determines are compared
            care |= 1 << r
            for k, b in enumerate(bits):
                if cm[k]:
                    carebit[k] |= 1 << r
                    if b:
                        ret[k] |= 1 << r
        elif out[0] == "reject":
            rej += 1
            why = why or out[1]
        else:
            und += 1
    return dict(ret=ret, care=care, carebit=carebit, rejects=rej, undefined=und, overflow=ovf, modular_rows=partial, rows=1 << n, why=why)


def row_bits(r, n):
    return [(r >> i) & 1 for i in range(n)]


# ------------------------------------------------------------------------------------------------
# runtime monitors on the type layer: which known-defective region did this translation touch?

class L1Monitor:
    """Executable side of the L1 contracts: wraps QfixedImp.* / translate_expression from outside for the
    duration of one front-end run and records the first call that falls into the region of a known L1/L2
    finding (used ONLY to attribute a failing bounded instance to that finding - the blame rule)."""

    def __init__(self):
        self.hits = []

    def __enter__(self):
        from qlasskit.types.qfixed import QfixedImp
        import qlasskit.ast2logic.t_expression as te
        import qlasskit.ast2logic.t_statement as ts
        self._saved = []
        mon = self

        def wrap_fixed(name):
            raw = QfixedImp.__dict__[name]
            fn = raw.__func__

            def w(*a):
                args = a[1:] if isinstance(raw, classmethod) else a
                try:
                    tl, tr = args[0][0], args[1][0]
                    if isinstance(tl, type) and isinstance(tr, type) and issubclass(tl, QfixedImp) and issubclass(tr, QfixedImp) and tl is not tr:
                        mon.hits.append("F-C01-qfixed-mixed-formats")
                except Exception:  # noqa
                    pass
                return fn(*a)
            self._saved.append((QfixedImp, name, raw))
            setattr(QfixedImp, name, classmethod(w) if isinstance(raw, classmethod) else staticmethod(w))
        for nm in ("add", "sub", "eq", "neq", "gt", "lt", "gte", "lte"):
            wrap_fixed(nm)
        from qlasskit.types.qint import QintImp
        raw_mod = QintImp.__dict__["mod"]

        def mod_w(cls, tleft, tright):
            import sympy
            try:
                if not all(isinstance(b, bool) or b in (sympy.true, sympy.false) for b in tright[1]):
                    mon.hits.append("F-C01-mod-symbolic-modulus")
            except Exception:  # noqa
                pass
            return raw_mod.__func__(cls, tleft, tright)
        self._saved.append((QintImp, "mod", raw_mod))
        QintImp.mod = classmethod(mod_w)
        real_te = te.translate_expression

        def te_w(expr, env):
            res = real_te(expr, env)
            if isinstance(expr, ast.IfExp):
                try:
                    a, b = real_te(expr.body, env)[0], real_te(expr.orelse, env)[0]
                    from contracts.translator import klass
                    if klass(a) != klass(b) and "bool" not in (klass(a), klass(b)):
                        mon.hits.append("F-C01-ifexp-cross-class")
                    if klass(a) == "fixed" and klass(b) == "fixed" and a is not b:
                        mon.hits.append("F-C01-qfixed-mixed-formats")
                except Exception:  # noqa
                    pass
            return res
        for m in (te, ts):
            self._saved.append((m, "translate_expression", m.translate_expression))
            m.translate_expression = te_w
        # recursive calls inside t_expression resolve the module global: patched above
        return self

    def __exit__(self, *a):
        for obj, name, val in reversed(self._saved):
            setattr(obj, name, val)
        return False
