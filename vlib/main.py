"""Entry point of every check: ./check <ID> --tier quick|thorough | --replay <file>"""
import argparse
import importlib
import os
import sys
import traceback

from . import common


def main():
    ap = argparse.ArgumentParser()
    ap.add_argument("prop")
    ap.add_argument("--tier", default=os.environ.get("VERIF_TIER", "quick"), choices=["quick", "thorough"])
    ap.add_argument("--replay", default=None)
    ap.add_argument("--only", default=None, help="substring filter on obligation/contract names (debugging; evidence is marked partial)")
    a = ap.parse_args()
    common.private_tmp()
    code = common.EXIT_ENGINE
    try:
        common.use_repo()
        mod = importlib.import_module(f"vlib.props.{a.prop.lower()}")
        if a.replay:
            code = mod.replay(a.replay)
        else:
            rep = mod.run(a.tier, only=a.only)
            rep.partial = bool(a.only)
            code = rep.finish()
    except SystemExit:
        raise
    except BaseException:
        traceback.print_exc()
        print(f"CHECKER-CRASH {a.prop}: the machinery failed; this is not a verdict")
        code = common.EXIT_ENGINE
    finally:
        common.cleanup_tmp()
    sys.exit(code)


if __name__ == "__main__":
    main()
