"""C01 layer L2 - contracts on the translator (qlasskit/ast2logic/t_expression.py, t_statement.py).

translate_expression(expr, env):
  requires  env-consistency: every binding (name, T, bitnames) satisfies R and the bits named by bitnames
            encode the value of `name`
  ensures   for an accepted node: R(res) and value(res) = reference value of the node computed from the
            values of its children (the induction step "children correct => node correct")
  raises    one of the library's exceptions for a node outside the supported subset

The real function is run on AST *skeletons* whose leaves are variables of every combination of
shipped scalar types; the variables' bits are opaque formulas, calls into the type layer are replaced
by the L1 contracts (modular).  The goal of a BinOp/Compare skeleton is therefore literally the L1
postcondition of the operation the REFERENCE semantics selects, on the operands in source order: a
wrong dispatch, swapped operands, a missing fill/crop all fail it.
"""
import ast
import typing

import z3

from vlib import pyvc
from vlib.contract import Clause, Contract
from vlib.pyvc import SymExpr, den
from vlib.spec import bv, ext

from contracts import types_ops as L1
from contracts.types_ops import R, opnd, tname

from qlasskit.ast2logic import Env, translate_expression
from qlasskit.ast2logic.typing import Arg
from qlasskit.types import QFIXED_TYPES, QINT_TYPES, Qbool, Qchar, Qtype, TypeErrorException, const_to_qtype  # noqa
from qlasskit.types.qfixed import QfixedImp
from qlasskit.types.qint import QintImp

SCALARS = [bool] + list(QINT_TYPES) + list(QFIXED_TYPES) + [Qchar]


def klass(T):
    if T is bool:
        return "bool"
    if isinstance(T, type) and issubclass(T, QintImp):
        return "int"
    if isinstance(T, type) and issubclass(T, QfixedImp):
        return "fixed"
    if T is Qchar:
        return "char"
    return "other"


# ------------------------------------------------------------------------------------------------
# modular application of the L1 contracts at call sites

class ContractRaise(Exception):
    pass


def _is_lit(x):
    import sympy
    return x is True or x is False or x is sympy.true or x is sympy.false


def _all_literal(t):
    return isinstance(t[1], list) and all(_is_lit(x) for x in t[1])


def _lit_value(bits):
    import sympy
    return sum((1 << i) for i, b in enumerate(bits) if (b is True or b is sympy.true))


class Modular:
    """table: underlying function -> applier.  An applier checks the callee's precondition at the call
    site (an obligation of the caller), returns a fresh result of the shape the contract determines and
    adds the contract's postcondition to the assumptions of the path."""

    def __init__(self):
        self.table = {}
        self.used = []
        for op in ("add", "sub", "mul", "bitwise_xor", "bitwise_and", "bitwise_or", "mod"):
            self.table[getattr(QintImp, op).__func__] = self._mk(self.qint_bin, op)
        for op in ("eq", "neq", "gt", "lt", "lte", "gte"):
            self.table[getattr(QintImp, op)] = self._mk(self.qint_cmp, op)
            self.table[getattr(QfixedImp, op)] = self._mk(self.qfixed_cmp, op)
        for op in ("add", "sub", "mul"):
            self.table[getattr(QfixedImp, op).__func__] = self._mk(self.qfixed_arith, op)
        for op in ("eq", "neq"):
            self.table[getattr(Qchar, op)] = self._mk(self.same_eq, (Qchar, op))
            self.table[getattr(Qbool, op)] = self._mk(self.same_eq, (Qbool, op))

    def _mk(self, h, op):
        return lambda vc, f, a, k: h(vc, f, a, k, op)

    @staticmethod
    def _pre_R(vc, name, a):
        ok = all(R(x) for x in a[:2])
        vc.call_obls.append((f"{name}.pre.R", list(vc.pc), ok))
        return ok

    @staticmethod
    def _fresh(vc, T, tag):
        if T is bool:
            return (bool, SymExpr(z3.Bool(vc.fresh_name(tag))))
        base = vc.fresh_name(tag)
        return (T, [SymExpr(z3.Bool(f"{base}.{i}")) for i in range(T.BIT_SIZE)])

    def _assume(self, vc, contract, shape, ctx, value, name):
        for c in contract.post(shape, ctx, value):
            if c.name == "value":
                vc.assumed.append(c.formula)
        vc.log.append(("contract", name, contract.shape_str(shape)))

    # -- Qint ----------------------------------------------------------------------------------
    def qint_bin(self, vc, f, a, k, op):
        cls = getattr(f, "__self__", None)
        name = f"QintImp.{op}"
        if not self._pre_R(vc, name, a):
            raise pyvc.Unsupported(f"{name}: operands violate R at the call site")
        TL, TR = a[0][0], a[1][0]
        if not (klass(TL) == "int" and klass(TR) == "int"):
            # L1 contract <op>.cross-class: raises
            vc.log.append(("contract", name + ".cross-class", f"{tname(TL)},{tname(TR)}"))
            raise TypeErrorException(TR, QintImp)
        if op == "mod":
            if not _all_literal(a[1]):
                raise pyvc.Unsupported("QintImp.mod with a non-constant right operand: no contract (documented for 2^n constants only)")
            v = _lit_value(a[1][1])
            if v == 0 or v & (v - 1):
                raise pyvc.Unsupported("QintImp.mod with a constant that is not a power of two: no contract")
            c = L1.QintMod()
            shape = (TL, TR, v)
            T = L1.wider(TL, TR)
            res = self._fresh(vc, T, "mod")
            self._assume(vc, c, shape, dict(x=a[0]), res, name)
            return res
        if op == "mul" and (_all_literal(a[0]) or _all_literal(a[1])):
            c = L1.QintMulConst()
            if _all_literal(a[1]):
                x, kk, side = a[0], a[1], "right"
            else:
                x, kk, side = a[1], a[0], "left"
            v = _lit_value(kk[1])
            shape = (x[0], kk[0], v, side)
            T = L1.sizing(2 * max(x[0].BIT_SIZE, kk[0].BIT_SIZE))
            res = self._fresh(vc, T, "mulc")
            self._assume(vc, c, shape, dict(x=x), res, name + ".const")
            return res
        c = L1.QintBin(op)
        shape = (cls, TL, TR)
        res = self._fresh(vc, c.res_type(TL, TR), op)
        self._assume(vc, c, shape, dict(l=a[0], r=a[1]), res, name)
        return res

    def qint_cmp(self, vc, f, a, k, op):
        name = f"QintImp.{op}"
        if not self._pre_R(vc, name, a):
            raise pyvc.Unsupported(f"{name}: operands violate R at the call site")
        TL, TR = a[0][0], a[1][0]
        if klass(TL) == "int" and klass(TR) == "char" and op in ("eq", "neq"):
            c = L1.CharIntEq(op, False)
            res = self._fresh(vc, bool, op)
            self._assume(vc, c, (TL, TR), dict(l=a[0], r=a[1]), res, name + ".char-int")
            return res
        if not (klass(TL) == "int" and klass(TR) == "int"):
            vc.log.append(("contract", name + ".cross-class", f"{tname(TL)},{tname(TR)}"))
            raise TypeErrorException(TR, QintImp)
        c = L1.QintCmp(op)
        res = self._fresh(vc, bool, op)
        self._assume(vc, c, (TL, TR), dict(l=a[0], r=a[1]), res, name)
        return res

    # -- Qfixed --------------------------------------------------------------------------------
    def qfixed_cmp(self, vc, f, a, k, op):
        name = f"QfixedImp.{op}"
        if not self._pre_R(vc, name, a):
            raise pyvc.Unsupported(f"{name}: operands violate R at the call site")
        TL, TR = a[0][0], a[1][0]
        if not (klass(TL) == "fixed" and klass(TR) == "fixed"):
            vc.log.append(("contract", name + ".cross-class", f"{tname(TL)},{tname(TR)}"))
            raise TypeErrorException(TR, QfixedImp)
        c = L1.QfixedCmp(op)
        res = self._fresh(vc, bool, op)
        self._assume(vc, c, (TL, TR), dict(l=a[0], r=a[1]), res, name)
        return res

    def qfixed_arith(self, vc, f, a, k, op):
        name = f"QfixedImp.{op}"
        if not self._pre_R(vc, name, a):
            raise pyvc.Unsupported(f"{name}: operands violate R at the call site")
        TL, TR = a[0][0], a[1][0]
        if op == "mul":
            kl, kr = klass(TL), klass(TR)
            if kl == "fixed" and kr == "int" and _all_literal(a[1]):
                x, kk, side = a[0], a[1], "right"
            elif kr == "fixed" and kl == "int" and _all_literal(a[0]):
                x, kk, side = a[1], a[0], "left"
            else:
                vc.log.append(("contract", name + ".not-fixed-times-int-constant", f"{tname(TL)},{tname(TR)}"))
                raise Exception("Qfixed mul works only between a Qfixed and an integer constant")
            v = _lit_value(kk[1])
            c = L1.QfixedMulConst()
            res = self._fresh(vc, x[0], "fmul")
            self._assume(vc, c, (x[0], kk[0], v, side), dict(x=x), res, name + ".const")
            return res
        if not (klass(TL) == "fixed" and klass(TR) == "fixed"):
            vc.log.append(("contract", name + ".cross-class", f"{tname(TL)},{tname(TR)}"))
            raise TypeErrorException(TR, QfixedImp)
        if TL is not TR:
            # mixed formats: the contract does not determine the result type; no modular use
            # -> the body is executed instead (everything below it inlined)
            vc.log.append(("inline", name, f"{tname(TL)},{tname(TR)}"))
            saved = vc.e.modular
            vc.e.modular = False
            try:
                return vc.e.instr(f)(*a, **k)
            finally:
                vc.e.modular = saved
        c = L1.QfixedArith(op)
        res = self._fresh(vc, TL, op)
        self._assume(vc, c, (TL, TR), dict(l=a[0], r=a[1]), res, name)
        return res

    def same_eq(self, vc, f, a, k, op):
        owner, o = op
        name = f"{owner.__name__}.{o}"
        T = bool if owner is Qbool else Qchar
        TL, TR = a[0][0], a[1][0]
        if owner is Qbool and not (TL is bool and TR is bool):
            # Qbool.eq is also used bit by bit for tuples: operands are (bool, formula)
            raise pyvc.Unsupported("Qbool.eq on non-bool operands")
        if owner is Qchar and TL is Qchar and klass(TR) == "int":
            if not self._pre_R(vc, name, a):
                raise pyvc.Unsupported(f"{name}: operands violate R at the call site")
            c = L1.CharIntEq(o, True)
            res = self._fresh(vc, bool, o)
            self._assume(vc, c, (TL, TR), dict(l=a[0], r=a[1]), res, name + ".char-int")
            return res
        if owner is Qchar and not (TL is Qchar and TR is Qchar):
            vc.log.append(("contract", name + ".cross-class", f"{tname(TL)},{tname(TR)}"))
            raise TypeErrorException(TR, Qchar)
        if not self._pre_R(vc, name, a):
            raise pyvc.Unsupported(f"{name}: operands violate R at the call site")
        c = L1.SameWidthEq(owner, o, T)
        res = self._fresh(vc, bool, o)
        self._assume(vc, c, (T, T), dict(l=a[0], r=a[1]), res, name)
        return res


# ------------------------------------------------------------------------------------------------
# reference semantics of one node over typed symbolic values

REJECT = "reject"

ARITH = {"Add": "add", "Sub": "sub", "Mult": "mul", "BitXor": "bitwise_xor", "BitAnd": "bitwise_and", "BitOr": "bitwise_or"}
CMPOPS = {"Eq": "eq", "NotEq": "neq", "Gt": "gt", "Lt": "lt", "LtE": "lte", "GtE": "gte"}
PYOP = {"Add": "+", "Sub": "-", "Mult": "*", "BitXor": "^", "BitAnd": "&", "BitOr": "|", "Mod": "%", "LShift": "<<", "RShift": ">>",
        "Eq": "==", "NotEq": "!=", "Gt": ">", "Lt": "<", "LtE": "<=", "GtE": ">="}


def ref_binop(op, TL, TR):
    """which L1 contract (and shape) gives the meaning of `l <op> r`, or REJECT"""
    kl, kr = klass(TL), klass(TR)
    if kl == "bool" and kr == "bool":
        return ("boolbit", op) if op in ("BitXor", "BitAnd", "BitOr") else REJECT
    if kl == "int" and kr == "int":
        m = ARITH[op]
        cls = TR if op == "BitAnd" else TL
        return (L1.QintBin(m), (cls, TL, TR))
    if kl == "fixed" and kr == "fixed" and op in ("Add", "Sub"):
        return (L1.QfixedArith(ARITH[op]), (TL, TR))
    return REJECT


def ref_compare(op, TL, TR):
    kl, kr = klass(TL), klass(TR)
    m = CMPOPS[op]
    if kl == "bool" and kr == "bool":
        return (L1.SameWidthEq(Qbool, m, bool), (bool, bool)) if m in ("eq", "neq") else REJECT
    if kl == "int" and kr == "int":
        return (L1.QintCmp(m), (TL, TR))
    if kl == "fixed" and kr == "fixed":
        return (L1.QfixedCmp(m), (TL, TR))
    if kl == "char" and kr == "char":
        return (L1.SameWidthEq(Qchar, m, Qchar), (Qchar, Qchar)) if m in ("eq", "neq") else REJECT
    if {kl, kr} == {"char", "int"} and m in ("eq", "neq"):
        return (L1.CharIntEq(m, kl == "char"), (TL, TR))      # ord(c) == n / n == ord(c): ord is rewritten away
    return REJECT


# ------------------------------------------------------------------------------------------------

class Skeleton(Contract):
    """one node kind of translate_expression"""
    prop, layer = "C01", "L2"
    accepted_exceptions = None   # None: any exception is a rejection

    def fn(self):
        return translate_expression

    def env_for(self, vartypes):
        env = Env()
        for n, T in vartypes.items():
            env.bind(Arg(n, T, [n] if T is bool else [f"{n}.{i}" for i in range(T.BIT_SIZE)]))
        return env

    def var(self, n, T):
        return opnd(T, n)[0]

    def node(self, shape):
        raise NotImplementedError

    def vartypes(self, shape):
        raise NotImplementedError

    def instantiate(self, shape, vc):
        vt = self.vartypes(shape)
        env = self.env_for(vt)
        leaves = {}
        for n, T in vt.items():
            leaves.update(opnd(T, n)[1])
        ctx = dict(leaves=leaves, vt=vt, env=env, env_snapshot=[(b.name, b.ttype, list(b.bitvec)) for b in env.bindings])
        return translate_expression, [self.node(shape), env], {}, ctx

    def frame(self, ctx):
        env = ctx["env"]
        same = [(b.name, b.ttype, list(b.bitvec)) for b in env.bindings] == ctx["env_snapshot"]
        return Clause("frame.env-unchanged", same, "structural")

    def expect(self, shape, ctx):
        """-> REJECT or a function value -> [Clause]"""
        raise NotImplementedError

    def post(self, shape, ctx, value):
        e = self.expect(shape, ctx)
        if isinstance(e, tuple):
            e = e[1]
        if e is REJECT:
            return [Clause("rejected", False, self.reject_kind(shape)), self.frame(ctx)]
        return list(e(value)) + [self.frame(ctx)]

    def reject_kind(self, shape):
        return "deciding"

    def on_raise(self, shape, ctx, exc):
        e = self.expect(shape, ctx)
        if e is REJECT:
            return [Clause("rejected", True)]
        if isinstance(e, tuple) and e[0] == "may-reject":
            return [Clause("rejected-or-right", True)]
        return [Clause("accepted", False)]

    def region_ns(self, shape, ctx):
        vt = list(self.vartypes(shape).values())
        ns = {}
        for i, T in enumerate(vt[:3]):
            ns[f"k{i}"] = klass(T)
            ns[f"t{i}"] = tname(T)
            ns[f"w{i}"] = getattr(T, "BIT_SIZE", 1)
        if len(vt) >= 2:
            ns["same"] = vt[0] is vt[1]
        return ns

    def describe_inputs(self, shape, ctx, vals):
        out = {"source": ast.unparse(self.node(shape))}
        for n, T in ctx["vt"].items():
            out[n] = vals[n] if T is bool else L1.py_bv([vals[f"{n}.{i}"] for i in range(T.BIT_SIZE)])
            out[n + ":type"] = tname(T)
        if not ctx["vt"]:
            out.update(vals)
        return out


def _parse(src):
    return ast.parse(src, mode="eval").body


class BinOpSk(Skeleton):
    """BinOp(Name a, op, Name b) for every ordered pair of shipped scalar types"""

    def __init__(self, op):
        self.op = op
        self.name = f"translate_expression.BinOp.{op}"

    def shapes(self, tier):
        return [(TL, TR) for TL in SCALARS for TR in SCALARS]

    def vartypes(self, shape):
        return dict(a=shape[0], b=shape[1])

    def node(self, shape):
        return _parse(f"a {PYOP[self.op]} b")

    def expect(self, shape, ctx):
        TL, TR = shape
        ref = ref_binop(self.op, TL, TR)
        if ref is REJECT:
            return REJECT
        a, b = self.var("a", TL), self.var("b", TR)
        if ref[0] == "boolbit":
            zf = {"BitXor": z3.Xor, "BitAnd": z3.And, "BitOr": z3.Or}[self.op]
            return lambda v: [Clause("R", R(v, bool), "structural"),
                              Clause("value", den(v[1]) == zf(den(a[1]), den(b[1]))) if R(v, bool) else Clause("value", False)]
        c, sh = ref
        return lambda v: c.post(sh, dict(l=a, r=b), v)



class CompareSk(Skeleton):
    def __init__(self, op):
        self.op = op
        self.name = f"translate_expression.Compare.{op}"

    def shapes(self, tier):
        return [(TL, TR) for TL in SCALARS for TR in SCALARS]

    def vartypes(self, shape):
        return dict(a=shape[0], b=shape[1])

    def node(self, shape):
        return _parse(f"a {PYOP[self.op]} b")

    def expect(self, shape, ctx):
        TL, TR = shape
        ref = ref_compare(self.op, TL, TR)
        if ref is REJECT:
            return REJECT
        c, sh = ref
        a, b = self.var("a", TL), self.var("b", TR)
        f = lambda v: c.post(sh, dict(l=a, r=b), v)   # noqa
        if klass(TL) == "int" and klass(TR) == "char":
            return ("may-reject", f)     # `48 == ord(c)`: the library refuses an integer on the left of a char; rejection is allowed
        return f



class TupleCompareSk(Skeleton):
    """Compare(Eq / NotEq) of two tuple-typed variables of the same element types: equal iff every bit agrees; != is its negation.
    Other comparison operators and different element types are rejected."""

    def __init__(self, op):
        self.op = op
        self.name = f"translate_expression.Compare.{op}.tuple"

    def shapes(self, tier):
        base = [bool, QINT_TYPES[0], QINT_TYPES[1]]
        out = [((a, b), (a, b)) for a in base for b in base] + [((bool, QINT_TYPES[0], bool), (bool, QINT_TYPES[0], bool))]
        out += [((bool, QINT_TYPES[0]), (QINT_TYPES[0], bool)), ((bool, bool), (bool, bool, bool))]
        return out

    def shape_str(self, shape):
        return "(" + "+".join(tname(t) for t in shape[0]) + "),(" + "+".join(tname(t) for t in shape[1]) + ")"

    def vartypes(self, shape):
        return {}

    def _names(self, base, ts):
        out = []
        for i, t in enumerate(ts):
            out += [f"{base}.{i}"] if t is bool else [f"{base}.{i}.{k}" for k in range(t.BIT_SIZE)]
        return out

    def instantiate(self, shape, vc):
        ta, tb = shape
        env = Env()
        na, nb = self._names("a", ta), self._names("b", tb)
        env.bind(Arg("a", typing.Tuple[tuple(ta)], na))
        env.bind(Arg("b", typing.Tuple[tuple(tb)], nb))
        leaves = {n: z3.Bool(n) for n in na + nb}
        ctx = dict(leaves=leaves, vt={}, env=env, env_snapshot=[(b.name, b.ttype, list(b.bitvec)) for b in env.bindings])
        return translate_expression, [self.node(shape), env], {}, ctx

    def node(self, shape):
        return _parse(f"a {PYOP[self.op]} b")

    def expect(self, shape, ctx):
        ta, tb = shape
        if ta != tb or self.op not in ("Eq", "NotEq"):
            return REJECT
        na, nb = self._names("a", ta), self._names("b", tb)
        eq = z3.And(*[z3.Bool(x) == z3.Bool(y) for x, y in zip(na, nb)])
        g = eq if self.op == "Eq" else z3.Not(eq)
        return lambda v: [Clause("R", R(v, bool), "structural"), Clause("value", den(v[1]) == g if R(v, bool) else False)]

    def describe_inputs(self, shape, ctx, vals):
        return dict(source=ast.unparse(self.node(shape)), **vals)


class ConstOperandSk(Skeleton):
    """BinOp / Compare with one integer-constant operand: `a <op> K`, `K <op> a` (the constant is typed by
    const_to_qtype: the smallest of Qint2/4/6/8/12/16 that holds it)."""

    def __init__(self, op, side):
        self.op, self.side = op, side
        self.name = f"translate_expression.{'Compare' if op in CMPOPS else 'BinOp'}.{op}.const-{side}"

    CONSTS = (0, 1, 2, 3, 4, 5, 7, 8, 12, 15, 16, 100, 255, 256, 1000)

    def shapes(self, tier):
        ks = self.CONSTS if tier == "thorough" else (0, 1, 2, 3, 5, 8, 16, 255, 256)
        if self.op == "Mod":
            ks = (1, 2, 4, 8, 16, 32, 64, 128, 256)
        return [(T, k) for T in QINT_TYPES for k in ks]

    def shape_str(self, shape):
        return f"{tname(shape[0])},{shape[1]}"

    def vartypes(self, shape):
        return dict(a=shape[0])

    def node(self, shape):
        return _parse(f"a {PYOP[self.op]} {shape[1]}" if self.side == "right" else f"{shape[1]} {PYOP[self.op]} a")

    def expect(self, shape, ctx):
        T, k = shape
        Tc = L1.smallest_qint(k)
        a = self.var("a", T)
        kk = (Tc, [bool((k >> i) & 1) for i in range(Tc.BIT_SIZE)])
        l, r = (a, kk) if self.side == "right" else (kk, a)
        if self.op in ("LShift", "RShift"):
            if self.side != "right":
                return REJECT
            c = L1.QtypeUnary("shift_left" if self.op == "LShift" else "shift_right")
            return lambda v: c.post((T, k), dict(x=a), v)
        if self.op == "Mod":
            if self.side != "right":
                return REJECT
            c = L1.QintMod()
            return lambda v: c.post((T, Tc, k), dict(x=a), v)
        if self.op == "Mult":
            c = L1.QintMulConst()
            return lambda v: c.post((T, Tc, k, self.side), dict(x=a), v)
        if self.op in CMPOPS:
            c = L1.QintCmp(CMPOPS[self.op])
            return lambda v: c.post((l[0], r[0]), dict(l=l, r=r), v)
        c = L1.QintBin(ARITH[self.op])
        cls = r[0] if self.op == "BitAnd" else l[0]
        return lambda v: c.post((cls, l[0], r[0]), dict(l=l, r=r), v)

    def region_ns(self, shape, ctx):
        return dict(w0=shape[0].BIT_SIZE, k=shape[1], side=self.side)


class BoolOpSk(Skeleton):
    def __init__(self, op):
        self.op = op
        self.name = f"translate_expression.BoolOp.{op}"

    def shapes(self, tier):
        out = [(n, None) for n in (2, 3, 4)]
        # one non-bool operand at each position must be rejected
        for n in (2, 3):
            for pos in range(n):
                for T in (QINT_TYPES[0], QFIXED_TYPES[0], Qchar):
                    out.append((n, (pos, T)))
        return out

    def shape_str(self, shape):
        n, bad = shape
        return f"{n}" + (f",non-bool@{bad[0]}:{tname(bad[1])}" if bad else "")

    def vartypes(self, shape):
        n, bad = shape
        vt = {f"v{i}": bool for i in range(n)}
        if bad:
            vt[f"v{bad[0]}"] = bad[1]
        return vt

    def node(self, shape):
        n, bad = shape
        return _parse(f" {'and' if self.op == 'And' else 'or'} ".join(f"v{i}" for i in range(n)))

    def expect(self, shape, ctx):
        n, bad = shape
        if bad:
            return REJECT
        zs = [z3.Bool(f"v{i}") for i in range(n)]
        g = z3.And(*zs) if self.op == "And" else z3.Or(*zs)
        return lambda v: [Clause("R", R(v, bool), "structural"), Clause("value", den(v[1]) == g if R(v, bool) else False)]



class UnarySk(Skeleton):
    def __init__(self, op):
        self.op = op
        self.name = f"translate_expression.UnaryOp.{op}"

    def shapes(self, tier):
        return [(T,) for T in SCALARS]

    def vartypes(self, shape):
        return dict(a=shape[0])

    def node(self, shape):
        return _parse({"Not": "not a", "Invert": "~a", "USub": "-a"}[self.op])

    def reject_kind(self, shape):
        # `~x` on a float / char / bool-as-flag has no Python value to differ from (TypeError, or -2 for a bool):
        # outside what C01 states; kept as a diagnostic clause
        return "diagnostic" if self.op == "Invert" else "deciding"

    def expect(self, shape, ctx):
        (T,) = shape
        if self.op == "Not":
            if T is not bool:
                return REJECT
            return lambda v: [Clause("R", R(v, bool), "structural"), Clause("value", den(v[1]) == z3.Not(z3.Bool("a")) if R(v, bool) else False)]
        if self.op == "Invert" and klass(T) == "int":
            a = self.var("a", T)
            c = L1.QtypeUnary("bitwise_not")
            return lambda v: c.post((T,), dict(x=a), v)
        return REJECT



class IfExpSk(Skeleton):
    """IfExp(Name c, Name a, Name b): c ? a : b with both arms coerced to the wider arm's type."""
    name = "translate_expression.IfExp"

    def shapes(self, tier):
        out = [(bool, TL, TR) for TL in SCALARS for TR in SCALARS]
        out += [(T, QINT_TYPES[0], QINT_TYPES[0]) for T in (QINT_TYPES[0], QFIXED_TYPES[0], Qchar)]
        return out

    def vartypes(self, shape):
        return dict(c=shape[0], a=shape[1], b=shape[2])

    def node(self, shape):
        return _parse("a if c else b")

    def expect(self, shape, ctx):
        Tc, TL, TR = shape
        if Tc is not bool:
            return REJECT
        kl, kr = klass(TL), klass(TR)
        if kl != kr:
            return REJECT
        c = z3.Bool("c")
        a, b = self.var("a", TL), self.var("b", TR)
        if TL is bool:
            return lambda v: [Clause("R", R(v, bool), "structural"),
                              Clause("value", den(v[1]) == z3.If(c, den(a[1]), den(b[1])) if R(v, bool) else False)]
        if kl == "fixed" and TL is not TR:
            # two fixed-point formats: the chosen branch's VALUE must survive whatever format is returned
            def f(v):
                if not R(v) or klass(v[0]) != "fixed":
                    return [Clause("R", False, "structural")]
                F = max(TL.BIT_SIZE_FRACTIONAL, TR.BIT_SIZE_FRACTIONAL, v[0].BIT_SIZE_FRACTIONAL)
                return [Clause("R", True, "structural"),
                        Clause("value", L1.fxz(v[0], v[1], F) == z3.If(c, L1.fxz(TL, a[1], F), L1.fxz(TR, b[1], F)))]
            return f
        T = L1.wider(TL, TR)
        W = T.BIT_SIZE

        def g(v):
            if not R(v):
                return [Clause("R", False, "structural")]
            cl = [Clause("R", True, "structural"), Clause("type", v[0] is T, "structural")]
            if len(v[1]) == W:
                cl.append(Clause("value", bv(v[1]) == z3.If(c, ext(bv(a[1]), W), ext(bv(b[1]), W))))
            return cl
        return g

    def region_ns(self, shape, ctx):
        Tc, TL, TR = shape
        return dict(kc=klass(Tc), k0=klass(TL), k1=klass(TR), same=TL is TR, t0=tname(TL), t1=tname(TR))



class NameSk(Skeleton):
    name = "translate_expression.Name"

    def shapes(self, tier):
        return [(T,) for T in SCALARS] + [("unbound",)]

    def vartypes(self, shape):
        return dict(a=shape[0]) if shape[0] != "unbound" else dict(b=bool)

    def node(self, shape):
        return _parse("a")

    def expect(self, shape, ctx):
        (T,) = shape
        if T == "unbound":
            return REJECT
        a = self.var("a", T)
        if T is bool:
            return lambda v: [Clause("R", R(v, bool), "structural"), Clause("value", den(v[1]) == den(a[1]) if R(v, bool) else False)]
        return lambda v: [Clause("R", R(v, T), "structural"), Clause("value", bv(v[1]) == bv(a[1]) if R(v, T) else False)]



class ConstantSk(Skeleton):
    """Constant: True/False, integers (typed as the smallest Qint holding them, value exact), characters,
    floats (a Qfixed whose value is within 0.05 - the library's documented tolerance is none; the clause
    asks for the nearest representable value of the chosen format), too-large integers rejected."""
    name = "translate_expression.Constant"

    def shapes(self, tier):
        ints = list(range(0, 70)) + [127, 128, 255, 256, 4095, 4096, 65535]
        return [("bool", True), ("bool", False)] + [("int", v) for v in ints] + [("int-too-big", 65536), ("int-too-big", 10 ** 6)] \
            + [("char", c) for c in "aZ0 ~"] + [("float", f) for f in (0.0, 0.5, 0.25, 0.75, 1.5, 2.25, 3.125, 0.1, 7.5, 15.5)]

    def shape_str(self, shape):
        return f"{shape[0]},{shape[1]!r}"

    def vartypes(self, shape):
        return {}

    def node(self, shape):
        return ast.Constant(value=shape[1])

    def expect(self, shape, ctx):
        kind, v = shape
        if kind == "bool":
            return lambda x: [Clause("R", R(x, bool), "structural"), Clause("value", den(x[1]) == z3.BoolVal(v) if R(x, bool) else False)]
        if kind == "int":
            T = L1.smallest_qint(v)
            return lambda x: [Clause("R", R(x), "structural"), Clause("type", R(x) and x[0] is T, "structural"),
                              Clause("value", bv(x[1]) == z3.BitVecVal(v, len(x[1])) if R(x) else False)]
        if kind == "int-too-big":
            return REJECT
        if kind == "char":
            return lambda x: [Clause("R", R(x, Qchar), "structural"), Clause("value", bv(x[1]) == z3.BitVecVal(ord(v), 8) if R(x, Qchar) else False)]
        if kind == "float":
            def f(x):
                if not R(x) or klass(x[0]) != "fixed":
                    return [Clause("R", False, "structural")]
                Fb = x[0].BIT_SIZE_FRACTIONAL
                want = int(v * 2 ** Fb)   # truncation towards zero at the chosen format
                fits = want < 2 ** x[0].BIT_SIZE
                exact = (want == v * 2 ** Fb)
                # deciding only when the literal is exactly representable in the chosen format
                return [Clause("R", True, "structural"),
                        Clause("value" if exact else "value.truncated", L1.fx_scaled(x[0], x[1]) == z3.BitVecVal(want, x[0].BIT_SIZE) if fits else False,
                               "deciding" if exact else "diagnostic")]
            return f
        raise ValueError(kind)


class TupleSk(Skeleton):
    name = "translate_expression.Tuple"

    def shapes(self, tier):
        base = [bool, QINT_TYPES[0], QINT_TYPES[2], QFIXED_TYPES[0], Qchar]
        return [(a, b) for a in base for b in base] + [(bool, QINT_TYPES[0], bool)]

    def vartypes(self, shape):
        return {f"v{i}": T for i, T in enumerate(shape)}

    def node(self, shape):
        return _parse("(" + ", ".join(f"v{i}" for i in range(len(shape))) + ")")

    def expect(self, shape, ctx):
        def f(v):
            ok = isinstance(v, tuple) and len(v) == 2 and typing.get_args(v[0]) == tuple(shape) and isinstance(v[1], list) and len(v[1]) == len(shape)
            if not ok:
                return [Clause("R", False, "structural")]
            cl = [Clause("R", True, "structural")]
            for i, T in enumerate(shape):
                a = self.var(f"v{i}", T)
                if T is bool:
                    cl.append(Clause(f"value.{i}", den(v[1][i]) == den(a[1]) if pyvc.is_exp(v[1][i]) else False))
                else:
                    cl.append(Clause(f"value.{i}", bv(v[1][i]) == bv(a[1]) if isinstance(v[1][i], list) and len(v[1][i]) == T.BIT_SIZE else False))
            return cl
        return f


class SubscriptSk(Skeleton):
    """a[i] for a Qint (bit i), for a tuple (element i), t[i][j]; out-of-range and non-constant indices rejected."""
    name = "translate_expression.Subscript"

    def shapes(self, tier):
        out = []
        for T in (QINT_TYPES[0], QINT_TYPES[2], QINT_TYPES[6]):
            for i in list(range(T.BIT_SIZE)) + [T.BIT_SIZE, T.BIT_SIZE + 3]:
                out.append(("bit", T, i))
        tt = typing.Tuple[bool, QINT_TYPES[0], QINT_TYPES[2], bool]
        for i in range(6):
            out.append(("elt", tt, i))
        for j in range(3):
            out.append(("elt.bit", tt, (1, j)))
        out.append(("var-index", QINT_TYPES[0], None))
        return out

    def shape_str(self, shape):
        return f"{shape[0]},{tname(shape[1]) if isinstance(shape[1], type) else 'Tuple'},{shape[2]}"

    def vartypes(self, shape):
        return {}

    def instantiate(self, shape, vc):
        kind, T, i = shape
        env = Env()
        if kind in ("bit", "var-index"):
            env.bind(Arg("a", T, [f"a.{k}" for k in range(T.BIT_SIZE)]))
            env.bind(Arg("i", QINT_TYPES[0], ["i.0", "i.1"]))
            leaves = {f"a.{k}": z3.Bool(f"a.{k}") for k in range(T.BIT_SIZE)}
        else:
            names, leaves = [], {}
            for k, E in enumerate(typing.get_args(T)):
                if E is bool:
                    names.append(f"a.{k}")
                else:
                    names += [f"a.{k}.{b}" for b in range(E.BIT_SIZE)]
            leaves = {n: z3.Bool(n) for n in names}
            env.bind(Arg("a", T, names))
        ctx = dict(leaves=leaves, vt={}, env=env, env_snapshot=[(b.name, b.ttype, list(b.bitvec)) for b in env.bindings])
        return translate_expression, [self.node(shape), env], {}, ctx

    def node(self, shape):
        kind, T, i = shape
        if kind == "var-index":
            return _parse("a[i]")
        if kind == "elt.bit":
            return _parse(f"a[{i[0]}][{i[1]}]")
        return _parse(f"a[{i}]")

    def expect(self, shape, ctx):
        kind, T, i = shape
        if kind == "var-index":
            return REJECT
        if kind == "bit":
            if i >= T.BIT_SIZE:
                return REJECT
            return lambda v: [Clause("R", R(v, bool), "structural"), Clause("value", den(v[1]) == z3.Bool(f"a.{i}") if R(v, bool) else False)]
        args = typing.get_args(T)
        if kind == "elt":
            if i >= len(args):
                return REJECT
            E = args[i]
            if E is bool:
                return lambda v: [Clause("R", R(v, bool), "structural"), Clause("value", den(v[1]) == z3.Bool(f"a.{i}") if R(v, bool) else False)]
            return lambda v: [Clause("R", R(v, E), "structural"),
                              Clause("value", bv(v[1]) == bv([z3.Bool(f"a.{i}.{b}") for b in range(E.BIT_SIZE)]) if R(v, E) else False)]
        e, b = i
        E = args[e]
        if b >= E.BIT_SIZE:
            return REJECT
        return lambda v: [Clause("R", R(v, bool), "structural"), Clause("value", den(v[1]) == z3.Bool(f"a.{e}.{b}") if R(v, bool) else False)]



class CastCallSk(Skeleton):
    """Call: <TypeName>(const), int(x), float(x)."""
    name = "translate_expression.Call"

    def shapes(self, tier):
        out = []
        for T in QINT_TYPES:
            for v in (0, 1, 2 ** T.BIT_SIZE - 1, 2 ** T.BIT_SIZE, 2 ** T.BIT_SIZE + 3):
                out.append(("ctor", T, v))
        for T in QINT_TYPES + list(QFIXED_TYPES) + [bool, Qchar]:
            out.append(("int", T, None))
            out.append(("float", T, None))
        out.append(("ctor-var", QINT_TYPES[0], None))
        out.append(("unknown-fn", QINT_TYPES[0], None))
        return out

    def shape_str(self, shape):
        return f"{shape[0]},{tname(shape[1])},{shape[2]}"

    def vartypes(self, shape):
        return dict(a=shape[1])

    def node(self, shape):
        kind, T, v = shape
        if kind == "ctor":
            return _parse(f"{T.__name__}({v})")
        if kind == "ctor-var":
            return _parse(f"{T.__name__}(a)")
        if kind == "unknown-fn":
            return _parse("frobnicate(a)")
        return _parse(f"{kind}(a)")

    def expect(self, shape, ctx):
        kind, T, v = shape
        if kind in ("ctor-var", "unknown-fn"):
            return REJECT
        if kind == "ctor":
            return lambda x: [Clause("R", R(x, T), "structural"),
                              Clause("value", bv(x[1]) == z3.BitVecVal(v % 2 ** T.BIT_SIZE, T.BIT_SIZE) if R(x, T) else False)]
        a = self.var("a", T)
        k = klass(T)
        if kind == "int":
            if k == "int":
                return lambda x: [Clause("R", R(x, T), "structural"), Clause("value", bv(x[1]) == bv(a[1]) if R(x, T) else False)]
            if k == "fixed":
                I = T.BIT_SIZE_INTEGER

                def f(x):
                    # int(Qfixed) = its integer part, in some Qint type able to hold it
                    if not (isinstance(x, tuple) and len(x) == 2 and isinstance(x[0], type) and klass(x[0]) == "int" and isinstance(x[1], list) and x[1]):
                        return [Clause("R", False, "structural")]
                    W = max(len(x[1]), I)
                    return [Clause("R", len(x[1]) == x[0].BIT_SIZE, "structural"),
                            Clause("value", ext(bv(x[1]), W) == ext(bv(a[1][:I]), W))]
                return f
            return REJECT
        if kind == "float":
            if k == "fixed":
                return lambda x: [Clause("R", R(x, T), "structural"), Clause("value", bv(x[1]) == bv(a[1]) if R(x, T) else False)]
            if k == "int":
                def f(x):
                    # float(Qint) = a Qfixed whose value is the integer, or rejected (no format wide enough)
                    if not R(x) or klass(x[0]) != "fixed":
                        return [Clause("R", False, "structural")]
                    Fb, Ib = x[0].BIT_SIZE_FRACTIONAL, x[0].BIT_SIZE_INTEGER
                    W = max(T.BIT_SIZE, Ib) + Fb
                    return [Clause("R", True, "structural"),
                            Clause("value", ext(L1.fx_scaled(x[0], x[1]), W) == (ext(bv(a[1]), W) << Fb))]
                return ("may-reject", f)
            return REJECT
        raise ValueError(kind)

    def region_ns(self, shape, ctx):
        kind, T, v = shape
        return dict(kind=kind, k0=klass(T), w0=getattr(T, "BIT_SIZE", 1))


def all_contracts():
    cs = []
    for op in ("Add", "Sub", "Mult", "BitXor", "BitAnd", "BitOr"):
        cs.append(BinOpSk(op))
    for op in CMPOPS:
        cs.append(CompareSk(op))
    for op in ("Add", "Sub", "Mult", "BitXor", "BitAnd", "BitOr", "Mod", "LShift", "RShift", "Eq", "NotEq", "Gt", "Lt", "LtE", "GtE"):
        cs.append(ConstOperandSk(op, "right"))
        if op not in ("Mod", "LShift", "RShift"):
            cs.append(ConstOperandSk(op, "left"))
    cs += [TupleCompareSk("Eq"), TupleCompareSk("NotEq"), TupleCompareSk("Lt")]
    cs += [BoolOpSk("And"), BoolOpSk("Or"), UnarySk("Not"), UnarySk("Invert"), UnarySk("USub"), IfExpSk(), NameSk(), ConstantSk(),
           TupleSk(), SubscriptSk(), CastCallSk()]
    return cs
