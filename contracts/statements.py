"""C01 layer L2 (continued) - contracts on translate_statement and translate_argument(s) (ast2logic/t_statement.py, t_arguments.py).

translate_statement(stmt, env, ret_type) -> (definitions, env)
  Assign  `t = e`   ensures the definitions are [(Symbol(name_k), bit_k)] with name_k = t (bool) / t.k (Qtype) / t.i[.k] (tuple, flattened),
                    each right-hand side denoting bit k of the value of e; env binds t to (type of e, those names) - re-binding included;
                    no other binding changes
  Return `return e` ensures the value is coerced to the declared type: zero-filled when narrower, cropped (low bits kept) when wider, rejected
                    when the classes differ; definitions named _ret / _ret.k; env binds _ret
  anything else     raises (If / While / For / AugAssign / With ... are rewritten away before or are outside the subset); an expression
                    statement yields no definition and leaves env unchanged
translate_argument(annotation, env, base) ensures the Arg has the documented bit names in order (the convention C05 relies on) and the right ttype.
"""
import ast
import typing

import z3

from vlib import pyvc
from vlib.contract import Clause, Contract
from vlib.pyvc import den
from vlib.spec import bv, ext

from contracts import types_ops as L1
from contracts.translator import REJECT, SCALARS, klass
from contracts.types_ops import R, opnd, tname

from qlasskit.ast2logic import Env, translate_statement
from qlasskit.ast2logic.t_arguments import translate_argument
from qlasskit.ast2logic.typing import Arg
from qlasskit.types import QFIXED_TYPES, QINT_TYPES, Qchar, TypeErrorException  # noqa


def bitnames(base, T):
    args = typing.get_args(T)
    if args:
        out = []
        for i, a in enumerate(args):
            out += bitnames(f"{base}.{i}", a)
        return out
    if T is bool:
        return [base]
    return [f"{base}.{i}" for i in range(T.BIT_SIZE)]


class StmtSk(Contract):
    prop, layer = "C01", "L2"

    def fn(self):
        return translate_statement

    def env_for(self, vt):
        env = Env()
        for n, T in vt.items():
            env.bind(Arg(n, T, bitnames(n, T)))
        return env

    def leaves(self, vt):
        out = {}
        for n, T in vt.items():
            for b in bitnames(n, T):
                out[b] = z3.Bool(b)
        return out

    def describe_inputs(self, shape, ctx, vals):
        return dict(statement=ast.unparse(ctx["stmt"]), **{k: v for k, v in sorted(vals.items())})

    def concretise_result(self, out, vals):
        """(definitions, env): only the right-hand sides are formulas"""
        from vlib.contract import concretise
        defs, env = out
        return ([(s, concretise(e, vals)) for s, e in defs], env)

    def defs_ok(self, defs, names):
        """definitions = [(Symbol-like name_k, formula)] in order"""
        if not isinstance(defs, list) or len(defs) != len(names):
            return False
        for (s, e), n in zip(defs, names):
            nm = str(s.z) if isinstance(s, pyvc.SymExpr) else getattr(s, "name", None)
            if nm != n or not pyvc.is_exp(e):
                return False
        return True


def _val_bits(T, name):
    """z3 bits of variable `name` of type T, flattened in encoding order"""
    return [z3.Bool(b) for b in bitnames(name, T)]


class AssignSk(StmtSk):
    """`t = a` and `t = (a, b)` for a, b of every shipped scalar type; rebinding an existing `t`"""
    name = "translate_statement.Assign"

    def shapes(self, tier):
        out = [("name", T, rebind) for T in SCALARS for rebind in (False, True)]
        base = [bool, QINT_TYPES[0], QINT_TYPES[2], QFIXED_TYPES[0]]
        out += [("tuple", (a, b), False) for a in base for b in base]
        out += [("expr", T, False) for T in QINT_TYPES[:4]]
        return out

    def shape_str(self, shape):
        k, T, rb = shape
        return f"{k},{tname(T) if not isinstance(T, tuple) else '+'.join(tname(x) for x in T)},rebind={rb}"

    def instantiate(self, shape, vc):
        k, T, rebind = shape
        if k == "name":
            vt = dict(a=T)
            src = "t = a"
        elif k == "tuple":
            vt = dict(a=T[0], b=T[1])
            src = "t = (a, b)"
        else:
            vt = dict(a=T, b=T)
            src = "t = a ^ b"
        if rebind:
            vt["t"] = QINT_TYPES[1]
        env = self.env_for(vt)
        stmt = ast.parse(src).body[0]
        ctx = dict(leaves=self.leaves(vt), vt=vt, env=env, stmt=stmt, snap={b.name: (b.ttype, list(b.bitvec)) for b in env.bindings})
        return translate_statement, [stmt, env, bool], {}, ctx

    def post(self, shape, ctx, value):
        k, T, rebind = shape
        if not (isinstance(value, tuple) and len(value) == 2):
            return [Clause("R", False, "structural")]
        defs, env = value
        if k == "tuple":
            TT = typing.Tuple[T[0], T[1]]
            names = bitnames("t", TT)
            want = _val_bits(T[0], "a") + _val_bits(T[1], "b")
            ok_t = typing.get_args(env["t"].ttype) == (T[0], T[1]) if "t" in env else False
        elif k == "name":
            names = bitnames("t", T)
            want = _val_bits(T, "a")
            ok_t = "t" in env and env["t"].ttype is T
        else:
            names = bitnames("t", T)
            want = [z3.Xor(x, y) for x, y in zip(_val_bits(T, "a"), _val_bits(T, "b"))]
            ok_t = "t" in env and env["t"].ttype is T
        cl = [Clause("definitions.names", self.defs_ok(defs, names), "structural"),
              Clause("env.binds-target", ok_t and "t" in env and list(env["t"].bitvec) == names, "structural")]
        others = {b.name: (b.ttype, list(b.bitvec)) for b in env.bindings if b.name != "t"}
        cl.append(Clause("frame.other-bindings-unchanged", others == {n: v for n, v in ctx["snap"].items() if n != "t"}, "structural"))
        if self.defs_ok(defs, names):
            for i, ((s, e), w) in enumerate(zip(defs, want)):
                cl.append(Clause(f"value.{i}", den(e) == w))
        return cl


class ReturnSk(StmtSk):
    """`return a` with a: T against the declared return type Rt, every ordered pair of shipped scalar types"""
    name = "translate_statement.Return"

    def shapes(self, tier):
        return [(T, Rt) for T in SCALARS for Rt in SCALARS]

    def instantiate(self, shape, vc):
        T, Rt = shape
        vt = dict(a=T)
        env = self.env_for(vt)
        stmt = ast.parse("return a").body[0]
        ctx = dict(leaves=self.leaves(vt), vt=vt, env=env, stmt=stmt, snap={b.name: (b.ttype, list(b.bitvec)) for b in env.bindings})
        return translate_statement, [stmt, env, Rt], {}, ctx

    def expect(self, shape):
        T, Rt = shape
        if T is Rt:
            return "same"
        kt, kr = klass(T), klass(Rt)
        if kt == "int" and kr == "int":
            return "coerce"
        return REJECT        # different classes, or two different fixed-point formats (raw fill/crop would misalign the binary point)

    def post(self, shape, ctx, value):
        T, Rt = shape
        e = self.expect(shape)
        if e is REJECT:
            return [Clause("rejected", False)]
        defs, env = value
        names = bitnames("_ret", Rt)
        cl = [Clause("definitions.names", self.defs_ok(defs, names), "structural"),
              Clause("env.binds-_ret", "_ret" in env and list(env["_ret"].bitvec) == names, "structural")]
        if self.defs_ok(defs, names):
            if Rt is bool:
                cl.append(Clause("value", den(defs[0][1]) == z3.Bool("a")))
            else:
                W = Rt.BIT_SIZE
                cl.append(Clause("value", bv([d[1] for d in defs]) == ext(bv(_val_bits(T, "a")), W)))
        return cl

    def on_raise(self, shape, ctx, exc):
        return [Clause("rejected", True)] if self.expect(shape) is REJECT else [Clause("accepted", False)]

    def region_ns(self, shape, ctx):
        T, Rt = shape
        return dict(k0=klass(T), k1=klass(Rt), t0=tname(T), t1=tname(Rt), same=T is Rt)


class OtherStmtSk(StmtSk):
    name = "translate_statement.other"

    SRC = {"if": "if a:\n\tb = a", "while": "while a:\n\tb = a", "for": "for i in a:\n\tb = i", "aug": "b += a", "multi": "b = c = a",
           "tuple-target": "b, c = a, a", "with": "with a:\n\tpass", "pass": "pass", "expr": "a"}

    def shapes(self, tier):
        return [(k,) for k in self.SRC]

    def instantiate(self, shape, vc):
        vt = dict(a=bool)
        env = self.env_for(vt)
        stmt = ast.parse(self.SRC[shape[0]]).body[0]
        ctx = dict(leaves=self.leaves(vt), vt=vt, env=env, stmt=stmt, snap=[(b.name, b.ttype, list(b.bitvec)) for b in env.bindings])
        return translate_statement, [stmt, env, bool], {}, ctx

    def post(self, shape, ctx, value):
        if shape[0] == "expr":
            defs, env = value
            return [Clause("no-definition", defs == [], "structural"),
                    Clause("frame.env-unchanged", [(b.name, b.ttype, list(b.bitvec)) for b in env.bindings] == ctx["snap"], "structural")]
        return [Clause("rejected", False)]

    def on_raise(self, shape, ctx, exc):
        return [Clause("rejected", shape[0] != "expr")]


class ArgumentSk(Contract):
    """translate_argument(annotation, env, base): bit names, order and ttype for every annotation shape (post-ast2ast form)"""
    prop, layer = "C01", "L2"
    name = "translate_argument"

    def fn(self):
        return translate_argument

    def shapes(self, tier):
        S = ["bool"] + [t.__name__ for t in QINT_TYPES] + [t.__name__ for t in QFIXED_TYPES[:4]] + ["Qchar"]
        out = [(s,) for s in S]
        small = ["bool", "Qint2", "Qint3", "Qfixed1_2", "Qchar"]
        out += [(f"Tuple[{a}, {b}]",) for a in small for b in small]
        out += [("Tuple[bool, Qint2, bool]",), ("Tuple[Tuple[bool, Qint2], bool]",), ("Tuple[Qint2, Tuple[Qint3, bool]]",),
                ("Tuple[Tuple[Qint2, Qint2], Tuple[Qint2, Qint2]]",), ("Nonsense",), ("Tuple[bool, Nonsense]",)]
        return out

    def shape_str(self, shape):
        return shape[0]

    def pytype(self, s):
        from qlasskit import types as T
        ns = {n: getattr(T, n) for n in dir(T)}
        ns.update(Tuple=typing.Tuple, bool=bool)
        return eval(s, {}, ns)

    def instantiate(self, shape, vc):
        ann = ast.parse(shape[0], mode="eval").body
        return translate_argument, [ann, Env(), "x"], {}, dict(leaves={})

    def post(self, shape, ctx, value):
        if "Nonsense" in shape[0]:
            return [Clause("rejected", False)]
        T = self.pytype(shape[0])
        ok = isinstance(value, Arg) and value.name == "x" and list(value.bitvec) == bitnames("x", T) and \
            (value.ttype is T or (typing.get_args(T) and typing.get_args(value.ttype) == typing.get_args(T)))
        return [Clause("bit-names-order-type", bool(ok), "structural")]

    def on_raise(self, shape, ctx, exc):
        return [Clause("rejected", "Nonsense" in shape[0])]


def all_contracts():
    return [AssignSk(), ReturnSk(), OtherStmtSk(), ArgumentSk()]
