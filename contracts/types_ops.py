"""C01 layer L1 - contracts on the type operations (qlasskit/types/*.py).

Every contract is instantiated over a FINITE, completely enumerated shape space (ordered pairs of
shipped types, shift amounts, constant values) and states, for ALL operand formulas (opaque leaves),
the value of the result as a function of the values of the operands.  Postconditions are taken from
the statement of C01: fixed-width unsigned semantics, exact where the mathematical result fits the
result type, equal modulo 2^w otherwise.
"""
import sympy
import z3

from vlib import pyvc
from vlib.contract import Clause, Contract
from vlib.pyvc import SymExpr, den
from vlib.spec import bv, ext, fx_scaled, py_bv

from qlasskit.types import (QFIXED_TYPES, QINT_TYPES, Qbool, Qchar, Qtype, TypeErrorException)  # noqa
from qlasskit.types.qfixed import QfixedImp
from qlasskit.types.qint import Qint2, Qint4, Qint6, Qint8, Qint12, Qint16, QintImp


# ------------------------------------------------------------------------------------------------
# operands

def opnd(T, tag):
    """symbolic operand of type T with opaque leaf formulas; -> (texp, {leafname: z3var})"""
    from vlib import contract as _c
    if T is bool:
        z = z3.Bool(tag)
        if _c.NATIVE:
            return (bool, sympy.Symbol(tag)), {tag: z}
        return (bool, SymExpr(z, leaf=True)), {tag: z}
    zs = {f"{tag}.{i}": z3.Bool(f"{tag}.{i}") for i in range(T.BIT_SIZE)}
    if _c.NATIVE:
        return (T, [sympy.Symbol(n) for n in zs]), zs
    return (T, [SymExpr(z, leaf=True) for z in zs.values()]), zs


def native_opnd(T, tag):
    if T is bool:
        return (bool, sympy.Symbol(tag))
    return (T, [sympy.Symbol(f"{tag}.{i}") for i in range(T.BIT_SIZE)])


def eval_sympy(e, vals):
    from sympy.logic import boolalg
    if e is True or e is sympy.true:
        return True
    if e is False or e is sympy.false:
        return False
    if isinstance(e, sympy.Symbol):
        return vals[e.name]
    if isinstance(e, boolalg.Not):
        return not eval_sympy(e.args[0], vals)
    if isinstance(e, boolalg.And):
        return all(eval_sympy(a, vals) for a in e.args)
    if isinstance(e, boolalg.Or):
        return any(eval_sympy(a, vals) for a in e.args)
    if isinstance(e, boolalg.Xor):
        return sum(1 for a in e.args if eval_sympy(a, vals)) % 2 == 1
    if isinstance(e, boolalg.ITE):
        return eval_sympy(e.args[1], vals) if eval_sympy(e.args[0], vals) else eval_sympy(e.args[2], vals)
    if isinstance(e, boolalg.Implies):
        return (not eval_sympy(e.args[0], vals)) or eval_sympy(e.args[1], vals)
    raise ValueError(f"eval_sympy: {type(e).__name__}")


def tname(T):
    return getattr(T, "__name__", str(T))


def sizing(k):
    """result type of a product whose operands have k bits in total (the documented table)"""
    for T in (Qint2, Qint4, Qint6, Qint8, Qint12, Qint16):
        if k <= T.BIT_SIZE:
            return T
    return Qint16


def smallest_qint(v):
    for T in (Qint2, Qint4, Qint6, Qint8, Qint12, Qint16):
        if v < 2 ** T.BIT_SIZE:
            return T
    return None


def wider(TL, TR):
    return TL if TL.BIT_SIZE >= TR.BIT_SIZE else TR


def R(value, T=None):
    """representation invariant of a typed expression (proof-structural)"""
    if not (isinstance(value, tuple) and len(value) == 2):
        return False
    t, b = value
    if t is bool:
        return pyvc.is_exp(b) and (T is None or T is bool)
    if not (isinstance(t, type) and issubclass(t, Qtype)):
        return False
    if not (isinstance(b, list) and len(b) == t.BIT_SIZE and all(pyvc.is_exp(x) for x in b)):
        return False
    return T is None or t is T


class L1(Contract):
    prop, layer = "C01", "L1"

    def describe_inputs(self, shape, ctx, vals):
        out = {}
        for tag, T in ctx["opnds"]:
            out[tag] = vals[tag] if T is bool else py_bv([vals[f"{tag}.{i}"] for i in range(T.BIT_SIZE)])
            out[tag + ":type"] = tname(T)
        return out


# ------------------------------------------------------------------------------------------------
# Qint binary arithmetic / bitwise

ZBIN = {"add": lambda a, b: a + b, "sub": lambda a, b: a - b, "mul": lambda a, b: a * b,
        "bitwise_xor": lambda a, b: a ^ b, "bitwise_and": lambda a, b: a & b, "bitwise_or": lambda a, b: a | b}
PBIN = {"add": lambda a, b: a + b, "sub": lambda a, b: a - b, "mul": lambda a, b: a * b,
        "bitwise_xor": lambda a, b: a ^ b, "bitwise_and": lambda a, b: a & b, "bitwise_or": lambda a, b: a | b}


class QintBin(L1):
    """QintImp.<op>(tleft, tright) for two Qint operands.
    requires R(tleft), R(tright), both Qint, cls one of the operand types (the translator's dispatch)
    ensures  R(res); res.T = wider operand type (mul: the sizing table on twice the wider width);
             bv(res) = (zext bv(tleft)) <op> (zext bv(tright))  modulo 2^len(res)
    raises   nothing"""

    def __init__(self, op):
        self.op = op
        self.name = f"QintImp.{op}"
        self.timeout_ms = 60000 if op == "mul" else 20000

    def fn(self):
        return getattr(QintImp, self.op)

    def shapes(self, tier):
        out = []
        for TL in QINT_TYPES:
            for TR in QINT_TYPES:
                for c in sorted({TL, TR}, key=lambda t: t.BIT_SIZE):
                    out.append((c, TL, TR))
        return out

    def res_type(self, TL, TR):
        if self.op == "mul":
            return sizing(2 * max(TL.BIT_SIZE, TR.BIT_SIZE))
        return wider(TL, TR)

    def instantiate(self, shape, vc):
        c, TL, TR = shape
        l, zl = opnd(TL, "l")
        r, zr = opnd(TR, "r")
        return getattr(c, self.op), [l, r], {}, dict(l=l, r=r, leaves={**zl, **zr}, opnds=[("l", TL), ("r", TR)])

    def post(self, shape, ctx, value):
        c, TL, TR = shape
        T = self.res_type(TL, TR)
        if not R(value):
            return [Clause("R", False, "structural")]
        W = T.BIT_SIZE
        cl = [Clause("R", True, "structural"), Clause("type", value[0] is T, "structural")]
        if len(value[1]) != W:
            return cl
        a, b = ext(bv(ctx["l"][1]), W), ext(bv(ctx["r"][1]), W)
        cl.append(Clause("value", bv(value[1]) == ZBIN[self.op](a, b)))
        return cl

    def region_ns(self, shape, ctx):
        c, TL, TR = shape
        return dict(n=TL.BIT_SIZE, m=TR.BIT_SIZE, a=bv(ctx["l"][1]), b=bv(ctx["r"][1]), cls=c.BIT_SIZE)



ZCMP = {"eq": lambda a, b: a == b, "neq": lambda a, b: a != b, "gt": z3.UGT, "lt": z3.ULT, "lte": z3.ULE, "gte": z3.UGE}
PCMP = {"eq": lambda a, b: a == b, "neq": lambda a, b: a != b, "gt": lambda a, b: a > b, "lt": lambda a, b: a < b,
        "lte": lambda a, b: a <= b, "gte": lambda a, b: a >= b}


class QintCmp(L1):
    """QintImp.<cmp>(tleft, tcomp): ensures res = (bool, e) with den(e) = (bv(tleft) <cmp> bv(tcomp)) as
    unsigned integers, exactly, whatever the two widths."""

    def __init__(self, op):
        self.op = op
        self.name = f"QintImp.{op}"

    def fn(self):
        return getattr(QintImp, self.op)

    def shapes(self, tier):
        return [(TL, TR) for TL in QINT_TYPES for TR in QINT_TYPES]

    def instantiate(self, shape, vc):
        TL, TR = shape
        l, zl = opnd(TL, "l")
        r, zr = opnd(TR, "r")
        return getattr(TL, self.op), [l, r], {}, dict(l=l, r=r, leaves={**zl, **zr}, opnds=[("l", TL), ("r", TR)])

    def post(self, shape, ctx, value):
        TL, TR = shape
        if not R(value, bool):
            return [Clause("R", False, "structural")]
        W = max(TL.BIT_SIZE, TR.BIT_SIZE)
        a, b = ext(bv(ctx["l"][1]), W), ext(bv(ctx["r"][1]), W)
        return [Clause("R", True, "structural"), Clause("value", den(value[1]) == ZCMP[self.op](a, b))]

    def region_ns(self, shape, ctx):
        TL, TR = shape
        return dict(n=TL.BIT_SIZE, m=TR.BIT_SIZE, a=bv(ctx["l"][1]), b=bv(ctx["r"][1]))



class QintMulConst(L1):
    """QintImp.mul with one all-literal operand (the path through mul_even_const for even constants).
    Shape: (TL, Tc, v, side).  ensures as QintBin('mul') with the constant's value."""
    name = "QintImp.mul.const"
    timeout_ms = 60000

    def fn(self):
        return QintImp.mul

    def shapes(self, tier):
        out = []
        for TL in QINT_TYPES:
            for Tc in (Qint2, Qint4, Qint6, Qint8, Qint12, Qint16):
                top = 2 ** min(Tc.BIT_SIZE, 8)
                lo = 0
                for v in range(lo, top):
                    canonical = smallest_qint(v) is Tc
                    if tier == "quick" and not canonical and v not in (0, 1, 2, 3, top - 2, top - 1):
                        continue
                    if tier == "quick" and TL.BIT_SIZE >= 12 and v > 40:
                        continue
                    for side in ("right", "left"):
                        out.append((TL, Tc, v, side))
        return out

    def shape_str(self, shape):
        TL, Tc, v, side = shape
        return f"{tname(TL)},{tname(Tc)}({v}),const-{side}"

    def instantiate(self, shape, vc):
        TL, Tc, v, side = shape
        x, zx = opnd(TL, "x")
        k = Tc.const(v)
        args = [x, k] if side == "right" else [k, x]
        c = TL if side == "right" else Tc
        return getattr(c, "mul"), args, {}, dict(x=x, leaves=zx, opnds=[("x", TL)])

    def post(self, shape, ctx, value):
        TL, Tc, v, side = shape
        # the constant is filled to the other operand's width first; operands are then padded to equal width
        T = sizing(2 * max(TL.BIT_SIZE, Tc.BIT_SIZE))
        if not R(value):
            return [Clause("R", False, "structural")]
        W = T.BIT_SIZE
        cl = [Clause("R", True, "structural"), Clause("type", value[0] is T, "structural")]
        if len(value[1]) != W:
            return cl
        cl.append(Clause("value", bv(value[1]) == ext(bv(ctx["x"][1]), W) * z3.BitVecVal(v, W)))
        return cl

    def region_ns(self, shape, ctx):
        TL, Tc, v, side = shape
        return dict(n=TL.BIT_SIZE, m=Tc.BIT_SIZE, v=v, x=bv(ctx["x"][1]))



class QintMulBothConst(L1):
    """QintImp.mul with BOTH operands all-literal (`Qint4(6) * Qint4(3)`, `Qint4(2) * 3`): ensures bv(res) = v1 * v2 modulo 2^W, W the sizing of
    twice the wider width.  Shape: (T1, v1, T2, v2)."""
    name = "QintImp.mul.both-const"

    def fn(self):
        return QintImp.mul

    def shapes(self, tier):
        out = []
        vals = [0, 1, 2, 3, 4, 5, 6, 7, 8, 10, 12, 15]
        for T1 in (Qint2, Qint4):
            for T2 in (Qint2, Qint4):
                for v1 in vals:
                    for v2 in vals:
                        if v1 < 2 ** T1.BIT_SIZE and v2 < 2 ** T2.BIT_SIZE:
                            out.append((T1, v1, T2, v2))
        return out

    def shape_str(self, shape):
        T1, v1, T2, v2 = shape
        return f"{tname(T1)}({v1}),{tname(T2)}({v2})"

    def instantiate(self, shape, vc):
        T1, v1, T2, v2 = shape
        return T1.mul, [T1.const(v1), T2.const(v2)], {}, dict(leaves={}, opnds=[])

    def post(self, shape, ctx, value):
        T1, v1, T2, v2 = shape
        T = sizing(2 * max(T1.BIT_SIZE, T2.BIT_SIZE))
        if not R(value):
            return [Clause("R", False, "structural")]
        W = T.BIT_SIZE
        cl = [Clause("R", True, "structural"), Clause("type", value[0] is T, "structural")]
        if len(value[1]) != W:
            return cl
        cl.append(Clause("value", bv(value[1]) == z3.BitVecVal((v1 * v2) % (2 ** W), W)))
        return cl

    def region_ns(self, shape, ctx):
        return {}

    def describe_inputs(self, shape, ctx, vals):
        T1, v1, T2, v2 = shape
        return {"left": v1, "left:type": tname(T1), "right": v2, "right:type": tname(T2)}



class QintMod(L1):
    """QintImp.mod(tleft, tright).  Python: x % y.  The library implements x & (y - 1), which is x % y exactly when y is a power of two
    ("Modulo operator only works with 2^n values", docs/source/supported.rst).
      shape (TL, Tc, v)   literal modulus v:  v a power of two  -> ensures bv(res) = bv(tleft) mod v, res.T = the wider type
                                              any other v (0, 3, 5, 6, ...) -> raises (outside the subset: rejected, never mistranslated)
      shape (TL, TR, None) symbolic modulus:  ensures bv(res) = bv(tleft) mod bv(tright) wherever bv(tright) != 0   (Python raises for 0)"""
    name = "QintImp.mod"

    def fn(self):
        return QintImp.mod

    def shapes(self, tier):
        out = []
        for TL in QINT_TYPES:
            for v in list(range(0, 18)) + [32, 64, 100, 128, 255, 256]:
                out.append((TL, smallest_qint(v), v))
        small = [t for t in QINT_TYPES if t.BIT_SIZE <= (4 if tier == "quick" else 8)]
        for TL in small:
            for TR in small:
                out.append((TL, TR, None))
        return out

    def shape_str(self, shape):
        if shape[2] is None:
            return f"{tname(shape[0])},{tname(shape[1])}"
        return f"{tname(shape[0])},{tname(shape[1])}({shape[2]})"

    def instantiate(self, shape, vc):
        TL, Tc, v = shape
        x, zx = opnd(TL, "x")
        if v is None:
            r, zr = opnd(Tc, "r")
            return TL.mod, [x, r], {}, dict(x=x, r=r, leaves={**zx, **zr}, opnds=[("x", TL), ("r", Tc)])
        return TL.mod, [x, Tc.const(v)], {}, dict(x=x, leaves=zx, opnds=[("x", TL)])

    @staticmethod
    def pow2(v):
        return v > 0 and v & (v - 1) == 0

    def post(self, shape, ctx, value):
        TL, Tc, v = shape
        if v is not None and not self.pow2(v):
            return [Clause("rejected", False)]
        if not R(value):
            return [Clause("R", False, "structural")]
        T = wider(TL, Tc)
        W = T.BIT_SIZE
        cl = [Clause("R", True, "structural"), Clause("type", value[0] is T, "structural")]
        if len(value[1]) == W:
            if v is None:
                m = ext(bv(ctx["r"][1]), W)
                cl.append(Clause("value", z3.Implies(m != 0, bv(value[1]) == z3.URem(ext(bv(ctx["x"][1]), W), m))))
            else:
                cl.append(Clause("value", bv(value[1]) == z3.URem(ext(bv(ctx["x"][1]), W), z3.BitVecVal(v, W))))
        return cl

    def on_raise(self, shape, ctx, exc):
        TL, Tc, v = shape
        if v is not None and not self.pow2(v):
            return [Clause("rejected", True)]
        return [Clause("R", False, "structural")]

    def region_ns(self, shape, ctx):
        TL, Tc, v = shape
        if v is None:
            b = bv(ctx["r"][1])
            return dict(n=TL.BIT_SIZE, m=Tc.BIT_SIZE, symbolic_modulus=True, b=b, b_pow2=z3.Or(*[b == (1 << k) for k in range(Tc.BIT_SIZE)]))
        return dict(n=TL.BIT_SIZE, m=Tc.BIT_SIZE, symbolic_modulus=False, v=v)



class QtypeUnary(L1):
    """Qtype.bitwise_not / shift_left / shift_right / fill / crop on a Qint operand.
    bitwise_not: bv(res) = ~bv(v) on len(v) bits.  shift_left k: (bv(v) << k) mod 2^w, same type.
    shift_right k: bv(v) >> k.  fill (cls wider): zero extension to cls; crop (cls narrower): low bits."""

    def __init__(self, op):
        self.op = op
        self.name = f"Qtype.{op}"

    def fn(self):
        return getattr(Qtype, self.op)

    def shapes(self, tier):
        if self.op == "bitwise_not":
            return [(T,) for T in QINT_TYPES]
        if self.op in ("shift_left", "shift_right"):
            return [(T, k) for T in QINT_TYPES for k in range(0, T.BIT_SIZE + 2)]
        return [(C, T) for C in QINT_TYPES for T in QINT_TYPES]

    def instantiate(self, shape, vc):
        if self.op == "bitwise_not":
            (T,) = shape
            x, zx = opnd(T, "x")
            return T.bitwise_not, [x], {}, dict(x=x, leaves=zx, opnds=[("x", T)])
        if self.op in ("shift_left", "shift_right"):
            T, k = shape
            x, zx = opnd(T, "x")
            return getattr(T, self.op), [x, k], {}, dict(x=x, leaves=zx, opnds=[("x", T)])
        C, T = shape
        x, zx = opnd(T, "x")
        return getattr(C, self.op), [x], {}, dict(x=x, leaves=zx, opnds=[("x", T)])

    def expect(self, shape):
        """(result type, z3 function of x at result width, python function)"""
        if self.op == "bitwise_not":
            T = shape[0]
            return T, (lambda x: ~x), (lambda v: (~v) % 2 ** T.BIT_SIZE)
        if self.op == "shift_left":
            T, k = shape
            return T, (lambda x: x << k if k < x.size() else z3.BitVecVal(0, x.size())), (lambda v: (v << k) % 2 ** T.BIT_SIZE)
        if self.op == "shift_right":
            T, k = shape
            return T, (lambda x: z3.LShR(x, k) if k < x.size() else z3.BitVecVal(0, x.size())), (lambda v: v >> k)
        C, T = shape
        if self.op == "fill":
            RT = C if C.BIT_SIZE > T.BIT_SIZE else T
            return RT, (lambda x: x), (lambda v: v)
        RT = C if C.BIT_SIZE < T.BIT_SIZE else T
        return RT, (lambda x: x), (lambda v: v % 2 ** RT.BIT_SIZE)

    def post(self, shape, ctx, value):
        RT, zf, _ = self.expect(shape)
        if not R(value):
            return [Clause("R", False, "structural")]
        W = RT.BIT_SIZE
        cl = [Clause("R", True, "structural"), Clause("type", value[0] is RT, "structural")]
        if len(value[1]) == W:
            xin = bv(ctx["x"][1])
            Wi = xin.size()
            if self.op in ("fill", "crop"):
                cl.append(Clause("value", bv(value[1]) == ext(xin, W)))
            else:
                cl.append(Clause("value", bv(value[1]) == ext(zf(ext(xin, max(W, Wi))), W)))
        return cl



# ------------------------------------------------------------------------------------------------
# Qfixed

def fxz(T, bits, F):
    """scaled value at F fractional bits, as a wide bit-vector (24 bits are enough for every shipped format)"""
    x = fx_scaled(T, bits)
    x = z3.ZeroExt(24 - x.size(), x)
    return x << (F - T.BIT_SIZE_FRACTIONAL)


def py_fxs(T, v_bits):
    """python: scaled integer (value * 2^F) of a little-endian pattern given as int"""
    I, F = T.BIT_SIZE_INTEGER, T.BIT_SIZE_FRACTIONAL
    bits = [(v_bits >> i) & 1 for i in range(I + F)]
    ip = sum(b << i for i, b in enumerate(bits[:I]))
    fr = sum(b << (F - 1 - j) for j, b in enumerate(bits[I:]))
    return (ip << F) + fr


class QfixedCmp(L1):
    """QfixedImp.<cmp>(tleft, tcomp), both Qfixed (any two shipped formats):
    ensures den(res) = (fx(tleft) <cmp> fx(tcomp)) as rationals, or raises TypeErrorException."""

    def __init__(self, op):
        self.op = op
        self.name = f"QfixedImp.{op}"

    def fn(self):
        return getattr(QfixedImp, self.op)

    def shapes(self, tier):
        return [(TL, TR) for TL in QFIXED_TYPES for TR in QFIXED_TYPES]

    def instantiate(self, shape, vc):
        TL, TR = shape
        l, zl = opnd(TL, "l")
        r, zr = opnd(TR, "r")
        return getattr(TL, self.op), [l, r], {}, dict(l=l, r=r, leaves={**zl, **zr}, opnds=[("l", TL), ("r", TR)])

    def post(self, shape, ctx, value):
        TL, TR = shape
        if not R(value, bool):
            return [Clause("R", False, "structural")]
        F = max(TL.BIT_SIZE_FRACTIONAL, TR.BIT_SIZE_FRACTIONAL)
        a, b = fxz(TL, ctx["l"][1], F), fxz(TR, ctx["r"][1], F)
        return [Clause("R", True, "structural"), Clause("value", den(value[1]) == ZCMP[self.op](a, b))]

    def on_raise(self, shape, ctx, exc):
        TL, TR = shape
        return [Clause("raises-only-TypeError-on-mixed-formats", isinstance(exc, TypeErrorException) and TL is not TR)]

    def region_ns(self, shape, ctx):
        TL, TR = shape
        return dict(same=TL is TR, k0="fixed", k1="fixed", t0=tname(TL), t1=tname(TR),
                    I1=TL.BIT_SIZE_INTEGER, F1=TL.BIT_SIZE_FRACTIONAL, I2=TR.BIT_SIZE_INTEGER, F2=TR.BIT_SIZE_FRACTIONAL)



class QfixedArith(L1):
    """QfixedImp.add / sub (tleft, tright), both Qfixed:
    ensures R(res), res.T a Qfixed type, and - whenever the exact result is representable with res.T's
    fractional bits - fx(res) = fx(tleft) +/- fx(tright) modulo 2^I(res.T); or raises TypeErrorException
    (mixed formats only)."""

    def __init__(self, op):
        self.op = op
        self.name = f"QfixedImp.{op}"

    def fn(self):
        return getattr(QfixedImp, self.op)

    def shapes(self, tier):
        return [(TL, TR) for TL in QFIXED_TYPES for TR in QFIXED_TYPES]

    def instantiate(self, shape, vc):
        TL, TR = shape
        l, zl = opnd(TL, "l")
        r, zr = opnd(TR, "r")
        return getattr(TL, self.op), [l, r], {}, dict(l=l, r=r, leaves={**zl, **zr}, opnds=[("l", TL), ("r", TR)])

    def post(self, shape, ctx, value):
        TL, TR = shape
        if not R(value) or not issubclass(value[0], QfixedImp):
            return [Clause("R", False, "structural")]
        RT = value[0]
        cl = [Clause("R", True, "structural")]
        if TL is TR:
            cl.append(Clause("type", RT is TL, "structural"))
        F = max(TL.BIT_SIZE_FRACTIONAL, TR.BIT_SIZE_FRACTIONAL, RT.BIT_SIZE_FRACTIONAL)
        a, b, r = fxz(TL, ctx["l"][1], F), fxz(TR, ctx["r"][1], F), fxz(RT, value[1], F)
        exact = a + b if self.op == "add" else a - b
        drop = F - RT.BIT_SIZE_FRACTIONAL
        representable = z3.BoolVal(True) if drop == 0 else z3.Extract(drop - 1, 0, exact) == 0
        Wm = RT.BIT_SIZE_INTEGER + F
        cl.append(Clause("value", z3.Implies(representable, z3.Extract(Wm - 1, 0, r) == z3.Extract(Wm - 1, 0, exact))))
        return cl

    def on_raise(self, shape, ctx, exc):
        TL, TR = shape
        return [Clause("raises-only-TypeError-on-mixed-formats", isinstance(exc, TypeErrorException) and TL is not TR)]

    def region_ns(self, shape, ctx):
        TL, TR = shape
        return dict(same=TL is TR, k0="fixed", k1="fixed", t0=tname(TL), t1=tname(TR),
                    I1=TL.BIT_SIZE_INTEGER, F1=TL.BIT_SIZE_FRACTIONAL, I2=TR.BIT_SIZE_INTEGER, F2=TR.BIT_SIZE_FRACTIONAL)



class QfixedMulConst(L1):
    """QfixedImp.mul(Qfixed operand, integer constant) (either order) - the documented case.
    ensures R(res), res.T = the Qfixed operand's type, fx(res) = v * fx(x) modulo 2^I."""
    name = "QfixedImp.mul.const"

    def fn(self):
        return QfixedImp.mul

    def shapes(self, tier):
        out = []
        for T in QFIXED_TYPES:
            for v in range(0, 8 if tier == "quick" else 17):
                for side in ("right", "left"):
                    out.append((T, smallest_qint(v), v, side))
        return out

    def shape_str(self, shape):
        T, Tc, v, side = shape
        return f"{tname(T)},{tname(Tc)}({v}),const-{side}"

    def instantiate(self, shape, vc):
        T, Tc, v, side = shape
        x, zx = opnd(T, "x")
        k = Tc.const(v)
        args = [x, k] if side == "right" else [k, x]
        return T.mul, args, {}, dict(x=x, leaves=zx, opnds=[("x", T)])

    def post(self, shape, ctx, value):
        T, Tc, v, side = shape
        if not R(value):
            return [Clause("R", False, "structural")]
        cl = [Clause("R", True, "structural"), Clause("type", value[0] is T, "structural")]
        if value[0] is T:
            W = T.BIT_SIZE
            cl.append(Clause("value", fx_scaled(T, value[1]) == fx_scaled(T, ctx["x"][1]) * z3.BitVecVal(v, W)))
        return cl



class QfixedMulVar(L1):
    """QfixedImp.mul(Qfixed, Qint VARIABLE) (either order): only multiplication by an integer constant is
    supported; a variable integer operand must be rejected, not read as a constant."""
    name = "QfixedImp.mul.var"

    def fn(self):
        return QfixedImp.mul

    def shapes(self, tier):
        return [(T, Ti, side) for T in (QFIXED_TYPES[0], QFIXED_TYPES[6]) for Ti in (Qint2, Qint4) for side in ("right", "left")]

    def instantiate(self, shape, vc):
        T, Ti, side = shape
        x, zx = opnd(T, "x")
        y, zy = opnd(Ti, "y")
        args = [x, y] if side == "right" else [y, x]
        return T.mul, args, {}, dict(leaves={**zx, **zy}, opnds=[("x", T), ("y", Ti)])

    def post(self, shape, ctx, value):
        return [Clause("rejected", False)]

    def on_raise(self, shape, ctx, exc):
        return [Clause("rejected", True)]


class SameWidthEq(L1):
    """Qchar.eq/neq, Qbool.eq/neq on two operands of the same type: den(res) = (bits equal / differ)."""

    def __init__(self, owner, op, T):
        self.owner, self.op, self.T = owner, op, T
        self.name = f"{owner.__name__}.{op}"

    def fn(self):
        return getattr(self.owner, self.op)

    def shapes(self, tier):
        return [(self.T, self.T)]

    def instantiate(self, shape, vc):
        T = self.T
        l, zl = opnd(T, "l")
        r, zr = opnd(T, "r")
        return getattr(self.owner, self.op), [l, r], {}, dict(l=l, r=r, leaves={**zl, **zr}, opnds=[("l", T), ("r", T)])

    def post(self, shape, ctx, value):
        if not R(value, bool):
            return [Clause("R", False, "structural")]
        if self.T is bool:
            same = den(ctx["l"][1]) == den(ctx["r"][1])
        else:
            same = bv(ctx["l"][1]) == bv(ctx["r"][1])
        return [Clause("R", True, "structural"), Clause("value", den(value[1]) == (same if self.op == "eq" else z3.Not(same)))]



class CharIntEq(L1):
    """eq / neq between a Qchar and a Qint of any width (what `ord(c) == 48` / `c == chr(n)` become: ord/chr are rewritten away, so the
    character's 8 bits meet an integer's bits): den(res) = (the two unsigned values are equal / differ), whatever the integer's width.
    Dispatch is on the LEFT operand's type: Qchar.eq(Qchar, QintN) and QintImp.eq(QintN, Qchar)."""

    def __init__(self, op, char_left):
        self.op, self.char_left = op, char_left
        self.name = f"{'Qchar' if char_left else 'QintImp'}.{op}.char-int"

    def fn(self):
        return getattr(Qchar if self.char_left else QintImp, self.op)

    def shapes(self, tier):
        return [(Qchar, T) if self.char_left else (T, Qchar) for T in QINT_TYPES]

    def instantiate(self, shape, vc):
        TL, TR = shape
        l, zl = opnd(TL, "l")
        r, zr = opnd(TR, "r")
        return getattr(TL, self.op), [l, r], {}, dict(l=l, r=r, leaves={**zl, **zr}, opnds=[("l", TL), ("r", TR)])

    def post(self, shape, ctx, value):
        TL, TR = shape
        if not R(value, bool):
            return [Clause("R", False, "structural")]
        W = max(TL.BIT_SIZE, TR.BIT_SIZE)
        a, b = ext(bv(ctx["l"][1]), W), ext(bv(ctx["r"][1]), W)
        return [Clause("R", True, "structural"), Clause("value", den(value[1]) == ZCMP[self.op](a, b))]

    def region_ns(self, shape, ctx):
        TL, TR = shape
        return dict(n=TL.BIT_SIZE, m=TR.BIT_SIZE)


class CrossClassRejected(L1):
    """'A program outside the supported subset is rejected, never silently translated into a different
    function': an arithmetic / comparison method handed operands of two different value classes
    (Qint vs Qfixed, Qint vs Qchar, any vs bool) must raise, or compute the numerically right answer.
    Contract: raises (any exception).  Operating on raw bit patterns fails this clause."""

    def __init__(self, owner, op):
        self.owner, self.op = owner, op
        self.name = f"{owner.__name__}.{op}.cross-class"

    def fn(self):
        return getattr(self.owner, self.op)

    def shapes(self, tier):
        from qlasskit.types import Qfixed1_2, Qfixed2_2
        own = {QintImp: Qint4, QfixedImp: Qfixed2_2}[self.owner]
        others = [t for t in (Qint4, Qfixed1_2, Qchar, bool) if not (t is not bool and issubclass(t, self.owner))]
        if self.owner is QintImp and self.op in ("eq", "neq"):
            others = [t for t in others if t is not Qchar]        # Qint == Qchar is ord(c) == n: under the CharIntEq contract
        return [(own, o) for o in others] + ([(o, own) for o in others if o is not bool and self.op in ("add", "sub", "mul")] if False else [])

    def instantiate(self, shape, vc):
        TL, TR = shape
        l, zl = opnd(TL, "l")
        r, zr = opnd(TR, "r")
        return getattr(TL, self.op), [l, r], {}, dict(l=l, r=r, leaves={**zl, **zr}, opnds=[("l", TL), ("r", TR)])

    def post(self, shape, ctx, value):
        return [Clause("rejected", False)]

    def on_raise(self, shape, ctx, exc):
        return [Clause("rejected", True)]

    def region_ns(self, shape, ctx):
        return {}



def all_contracts():
    cs = []
    for op in ("add", "sub", "bitwise_xor", "bitwise_and", "bitwise_or", "mul"):
        cs.append(QintBin(op))
    for op in ("eq", "neq", "gt", "lt", "lte", "gte"):
        cs.append(QintCmp(op))
    cs.append(QintMulConst())
    cs.append(QintMulBothConst())
    cs.append(QintMod())
    for op in ("bitwise_not", "shift_left", "shift_right", "fill", "crop"):
        cs.append(QtypeUnary(op))
    for op in ("eq", "neq", "gt", "lt", "lte", "gte"):
        cs.append(QfixedCmp(op))
    for op in ("add", "sub"):
        cs.append(QfixedArith(op))
    cs.append(QfixedMulConst())
    cs.append(QfixedMulVar())
    for op in ("eq", "neq"):
        cs.append(CharIntEq(op, True))
        cs.append(CharIntEq(op, False))
    cs.append(SameWidthEq(Qchar, "eq", Qchar))
    cs.append(SameWidthEq(Qchar, "neq", Qchar))
    cs.append(SameWidthEq(Qbool, "eq", bool))
    cs.append(SameWidthEq(Qbool, "neq", bool))
    for owner in (QintImp, QfixedImp):
        for op in ("add", "sub", "mul", "eq", "neq", "gt", "lt", "gte", "lte") + (("bitwise_and", "bitwise_or", "bitwise_xor", "mod") if owner is QintImp else ()):
            cs.append(CrossClassRejected(owner, op))
    return cs
