import itertools, time, math
from fractions import Fraction
from qlasskit import qlassf, Qint
from qlasskit.qcircuit import gates
from qlasskit.algorithms import Grover, DeutschJozsa, BernsteinVazirani, Simon, secret_oracle
def asim(qc):
    n=qc.num_qubits; N=1<<n
    v=[0]*N; v[0]=1; h=0
    for g,w,p in qc.gates:
        if isinstance(g,gates.NopGate): continue
        if isinstance(g,gates.H):
            q=w[0]; m=1<<q; nv=v[:]
            for i in range(N):
                if not i&m:
                    a,b=v[i],v[i|m]; nv[i]=a+b; nv[i|m]=a-b
            v=nv; h+=1
        elif isinstance(g,gates.X) and not isinstance(g,gates.QControlledGate):
            m=1<<w[0]; v=[v[i^m] for i in range(N)]
        elif isinstance(g,gates.Z) and not isinstance(g,gates.QControlledGate):
            m=1<<w[0]; v=[-v[i] if i&m else v[i] for i in range(N)]
        elif isinstance(g,gates.QControlledGate) and isinstance(g.gate,gates.X):
            cm=sum(1<<q for q in w[:-1]); t=1<<w[-1]
            v=[v[i^t] if (i&cm)==cm else v[i] for i in range(N)]
        elif isinstance(g,gates.QControlledGate) and isinstance(g.gate,gates.Z):
            cm=sum(1<<q for q in w)
            v=[-v[i] if (i&cm)==cm else v[i] for i in range(N)]
        else: raise Exception(g.name)
    return v,h
def dist(qc,outq):
    v,h=asim(qc); d={}
    for i,a in enumerate(v):
        if a:
            k=tuple((i>>q)&1 for q in outq); d[k]=d.get(k,0)+Fraction(a*a,1<<h)
    return d
t=time.time()
for src in ["def c0(a: Qint[2]) -> bool:\n  return False","def c1(a: Qint[2]) -> bool:\n  return True","def b0(a: Qint[2]) -> bool:\n  return a[0]","def b1(a: Qint[2]) -> bool:\n  return a[0] ^ a[1]","def b2(a: Qint[3]) -> bool:\n  return (a[0] and a[1]) or (not a[0] and a[2])"]:
    qf=qlassf(src); a=DeutschJozsa(qf); d=dist(a.circuit(),a.output_qubits)
    print('DJ',src.split('return')[1].strip(),'P(0..0)=',d.get(tuple([0]*len(a.output_qubits)),0))
for k in (2,3,4):
    for s in range(1<<k):
        a=BernsteinVazirani(secret_oracle(k,s)); d=dist(a.circuit(),a.output_qubits)
        exp=tuple((s>>i)&1 for i in range(k))
        if d.get(exp,0)!=1: print('BV FAIL',k,s,d)
print('BV done')
for src,nm in [("def g1(a: Qint[3]) -> bool:\n  return a == 5",1),("def g2(a: Qint[3]) -> bool:\n  return a[0] and not a[1] and a[2]",1),("def g3(a: Qint[4]) -> bool:\n  return a > 13",2),("def g4(a: Qint[4]) -> bool:\n  return a == 14 or a == 15",2)]:
    qf=qlassf(src); a=Grover(qf,n_matching=nm); t0=time.time(); d=dist(a.circuit(),a.output_qubits)
    top=sorted(d.items(),key=lambda kv:-kv[1])[:3]
    print('Grover',src.split('return')[1].strip(),'q',a.circuit().num_qubits,'gates',len(a.circuit().gates),'iters',a.n_iterations,[(sum(b<<i for i,b in enumerate(k)),float(p)) for k,p in top],f'{time.time()-t0:.2f}s')
f="def sm(a: Qint[2]) -> Qint[2]:\n  return a & 1"   # period s=2 (bit1)
qf=qlassf(f); a=Simon(qf); print('Simon',dist(a.circuit(),a.output_qubits))
print(f'total {time.time()-t:.1f}s')
