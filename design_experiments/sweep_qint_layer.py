import ast, sys, time, itertools, collections
sys.argv=['x']
exec(open(__import__("os").path.join(__import__("os").path.dirname(__import__("os").path.abspath(__file__)),"proto_modular_translate.py")).read().split("# --- contracts of the type layer")[0])
from qlasskit.types import *
from qlasskit.types.qint import QintImp
from qlasskit.types.qfixed import QfixedImp
from fractions import Fraction
def opaque(n,k): return [SymExpr(z3.Bool(f'{n}.{i}')) for i in range(k)]
def bvz(bits,W):
    if not bits: return z3.BitVecVal(0,W)
    bs=[z3.If(den(b),z3.BitVecVal(1,1),z3.BitVecVal(0,1)) for b in bits]
    x=z3.Concat(*reversed(bs)) if len(bs)>1 else bs[0]
    return z3.ZeroExt(W-x.size(),x) if x.size()<W else z3.Extract(W-1,0,x)
def check(claim):
    s=z3.Solver(); s.set('timeout',20000); s.add(z3.Not(claim)); r=s.check()
    return 'ok' if r==z3.unsat else ('FAIL' if r==z3.sat else 'unknown')
res=collections.defaultdict(list)
vc=VC()
QI=[Qint2,Qint3,Qint4,Qint5,Qint6,Qint7,Qint8,Qint12,Qint16]
t0=time.time()
for T1,T2 in itertools.product(QI,QI):
    n,m=T1.BIT_SIZE,T2.BIT_SIZE; a=opaque('a',n); b=opaque('b',m); W=max(n,m)
    A=lambda w:bvz(a,w); Bv=lambda w:bvz(b,w)
    specs={'add':lambda w:A(w)+Bv(w),'sub':lambda w:A(w)-Bv(w),'bitwise_xor':lambda w:A(w)^Bv(w),'bitwise_and':lambda w:A(w)&Bv(w),'bitwise_or':lambda w:A(w)|Bv(w)}
    cmps={'eq':lambda:A(W)==Bv(W),'neq':lambda:A(W)!=Bv(W),'gt':lambda:z3.UGT(A(W),Bv(W)),'lt':lambda:z3.ULT(A(W),Bv(W)),'gte':lambda:z3.UGE(A(W),Bv(W)),'lte':lambda:z3.ULE(A(W),Bv(W))}
    for op,sp in specs.items():
        try:
            T,r=vc.call(getattr(T1,op),(T1,a),(T2,b)); w=len(r)
            v=check(z3.And(w==W, bvz(r,w)==sp(w))) if w>=1 else 'FAIL'
            if T.BIT_SIZE!=w: v+='(R:type %s len %d)'%(T.__name__,w)
        except Exception as ex: v='EXC '+type(ex).__name__
        res[(op,v)].append((n,m))
    for op,sp in cmps.items():
        try:
            T,r=vc.call(getattr(T1,op),(T1,a),(T2,b)); v=check(den(r)==sp())
        except Exception as ex: v='EXC '+type(ex).__name__
        res[(op,v)].append((n,m))
    if n+m<=10:
        try:
            T,r=vc.call(T1.mul,(T1,a),(T2,b)); w=len(r); P=bvz(a,max(w,n+m))*bvz(b,max(w,n+m))
            v=check(bvz(r,w)==z3.Extract(w-1,0,P))+f'(type {T.__name__})' 
        except Exception as ex: v='EXC '+type(ex).__name__
        res[('mul',v)].append((n,m))
print(f'{time.time()-t0:.1f}s')
for (op,v),sh in sorted(res.items()):
    cls='n<m' if all(n<m for n,m in sh) else ('n>m' if all(n>m for n,m in sh) else ('n==m' if all(n==m for n,m in sh) else 'mixed'))
    print(f'{op:12s} {v:28s} {len(sh):3d} shapes [{cls}] e.g. {sh[:3]}')
# mul by constants
bad=collections.defaultdict(list)
for T1 in [Qint2,Qint4,Qint8]:
    n=T1.BIT_SIZE; a=opaque('a',n)
    for cst in range(0,64):
        for side in ('r','l'):
            tc=const_to_qtype(cst)
            try:
                T,r=vc.call(T1.mul,(T1,a),tc) if side=='r' else vc.call(tc[0].mul,tc,(T1,a)); w=len(r)
                P=bvz(a,32)*z3.BitVecVal(cst,32)
                v=check(bvz(r,w)==z3.Extract(w-1,0,P))
            except Exception as ex: v='EXC '+type(ex).__name__+str(ex)[:40]
            if v!='ok': bad[(T1.__name__,side,v)].append(cst)
for k,v in sorted(bad.items()): print('mulconst',k,v)
