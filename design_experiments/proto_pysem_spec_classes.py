"""Prototype reference semantics: spec value classes; user source executed by CPython."""
import itertools, re, glob, sys, collections, inspect, math
from fractions import Fraction
from typing import Tuple, get_args
from sympy import Symbol
from qlasskit import qlassf, Qtype
from qlasskit.qlassfun import UnboundQlassf
from qlasskit.types import Qchar as LQchar
from qlasskit.types.qint import QintImp
from qlasskit.types.qfixed import QfixedImp
SIZES=[2,4,6,8,12,16]
def lit_width(v):
    for s in SIZES:
        if v < 2**s: return s
    raise OverflowError
class Flag:
    overflow=False
def mulsize(s):
    for k in SIZES:
        if s<=k: return k
    return 16
class SInt:
    def __init__(s,w,v): 
        if not (0<=v<2**w): Flag.overflow=True
        s.w=w; s.v=v%2**w
    @staticmethod
    def of(x):
        if isinstance(x,SInt): return x
        if isinstance(x,bool): raise TypeError('bool in arithmetic')
        if isinstance(x,int):
            if x<0: raise TypeError('negative literal')
            return SInt(lit_width(x),x)
        raise TypeError(f'not int: {type(x)}')
    def _bin(s,o,f,wf=max):
        o=SInt.of(o); return SInt(wf(s.w,o.w),f(s.v,o.v))
    def __add__(s,o): return s._bin(o,lambda a,b:a+b)
    def __radd__(s,o): return SInt.of(o)+s
    def __sub__(s,o): return s._bin(o,lambda a,b:a-b)
    def __rsub__(s,o): return SInt.of(o)-s
    def __mul__(s,o): o=SInt.of(o); return SInt(mulsize(s.w+o.w) if True else 0, s.v*o.v)
    def __rmul__(s,o): return SInt.of(o)*s
    def __pow__(s,k):
        assert isinstance(k,int) and k>=0
        if k==0: return SInt(2,1)
        r=s
        for _ in range(k-1): r=r*s
        return r
    def __mod__(s,o): o=SInt.of(o); return SInt(max(s.w,o.w), s.v%o.v)
    def __and__(s,o): return s._bin(o,lambda a,b:a&b)
    def __or__(s,o): return s._bin(o,lambda a,b:a|b)
    def __xor__(s,o): return s._bin(o,lambda a,b:a^b)
    __rand__=__and__; __ror__=__or__; __rxor__=__xor__
    def __invert__(s): return SInt(s.w,(2**s.w-1)^s.v)
    def __lshift__(s,k): return SInt(s.w,(s.v<<k)%2**s.w) if True else None
    def __rshift__(s,k): return SInt(s.w,s.v>>k)
    def _cmp(s,o,f):
        if isinstance(o,SFix): return NotImplemented
        o=SInt.of(o); return f(s.v,o.v)
    def __eq__(s,o): return s._cmp(o,lambda a,b:a==b)
    def __ne__(s,o): return s._cmp(o,lambda a,b:a!=b)
    def __lt__(s,o): return s._cmp(o,lambda a,b:a<b)
    def __le__(s,o): return s._cmp(o,lambda a,b:a<=b)
    def __gt__(s,o): return s._cmp(o,lambda a,b:a>b)
    def __ge__(s,o): return s._cmp(o,lambda a,b:a>=b)
    def __hash__(s): return hash(s.v)
    def __index__(s): return s.v
    def __getitem__(s,i): return bool((s.v>>i)&1)
    def __repr__(s): return f'SInt{s.w}({s.v})'
class SFix:
    def __init__(s,I,F,x):  # x Fraction
        x=Fraction(x)
        sc=x*2**F
        if sc.denominator!=1: sc=Fraction(math.floor(sc)); 
        if not (0<=sc<2**(I+F)): Flag.overflow=True
        s.I=I;s.F=F;s.n=int(sc)%2**(I+F)
    @property
    def x(s): return Fraction(s.n,2**s.F)
    @staticmethod
    def of(o,like):
        if isinstance(o,SFix): return o
        if isinstance(o,float): return SFix(like.I,like.F,Fraction(o))   # spec: literal takes the other operand's format
        if isinstance(o,SInt): raise TypeError('int with fixed')
        if isinstance(o,int) and not isinstance(o,bool): return SFix(like.I,like.F,o)
        raise TypeError
    def _fmt(s,o): return max(s.I,o.I),max(s.F,o.F)
    def __add__(s,o): o=SFix.of(o,s); I,F=s._fmt(o); return SFix(I,F,s.x+o.x)
    def __radd__(s,o): return s+o
    def __sub__(s,o): o=SFix.of(o,s); I,F=s._fmt(o); return SFix(I,F,s.x-o.x)
    def __mul__(s,o):
        if isinstance(o,int) and not isinstance(o,bool): return SFix(s.I,s.F,s.x*o)
        raise TypeError('fixed mul only by int const')
    __rmul__=__mul__
    def _cmp(s,o,f): o=SFix.of(o,s); return f(s.x,o.x)
    def __eq__(s,o): return s._cmp(o,lambda a,b:a==b)
    def __ne__(s,o): return s._cmp(o,lambda a,b:a!=b)
    def __lt__(s,o): return s._cmp(o,lambda a,b:a<b)
    def __le__(s,o): return s._cmp(o,lambda a,b:a<=b)
    def __gt__(s,o): return s._cmp(o,lambda a,b:a>b)
    def __ge__(s,o): return s._cmp(o,lambda a,b:a>=b)
    def __hash__(s): return hash(s.n)
    def __repr__(s): return f'SFix{s.I}_{s.F}({float(s.x)})'
class SChar(str): pass
def s_int(x):
    if isinstance(x,SFix): return SInt(x.I if x.I in (2,3,4,5,6,7,8,12,16) else x.I, x.n>>x.F)
    return SInt.of(x)
def s_float(x):
    if isinstance(x,SFix): return x
    raise TypeError
def s_ord(c): return SInt(8,ord(c))
def s_chr(i): return SChar(chr(SInt.of(i).v))
NS={'Tuple':Tuple,'int':s_int,'float':s_float,'ord':s_ord,'chr':s_chr,'print':lambda *a:None}
class _Sub:
    def __getitem__(s,k): return None
for nm in ['Qint','Qfixed','Qlist','Qmatrix','Qchar','Parameter','List']: NS[nm]=_Sub()
for w in (2,3,4,5,6,7,8,12,16): NS[f'Qint{w}']=(lambda w: lambda v: SInt(w,v%2**w))(w)
for I in (1,2,3,4):
    for F in (2,3,4,6): NS[f'Qfixed{I}_{F}']=(lambda I,F: lambda v: SFix(I,F,Fraction(v)))(I,F)
def to_spec(t,bits):
    if t is bool: return bits[0],1
    if inspect.isclass(t) and issubclass(t,QintImp): n=t.BIT_SIZE; return SInt(n,sum(b<<i for i,b in enumerate(bits[:n]))),n
    if inspect.isclass(t) and issubclass(t,QfixedImp):
        I,F=t.BIT_SIZE_INTEGER,t.BIT_SIZE_FRACTIONAL
        n=sum(b<<(i+F) for i,b in enumerate(bits[:I]))+sum(b<<(F-1-j) for j,b in enumerate(bits[I:I+F]))
        return SFix(I,F,Fraction(n,2**F)),I+F
    if inspect.isclass(t) and issubclass(t,LQchar): return SChar(chr(sum(b<<i for i,b in enumerate(bits[:8])))),8
    vals=[];k=0
    for a in get_args(t):
        v,n=to_spec(a,bits[k:]); vals.append(v); k+=n
    return tuple(vals),k
def to_bits(t,v):
    """coerce spec value to declared type t -> bits"""
    if t is bool:
        if not isinstance(v,bool): raise TypeError(f'ret bool got {v!r}')
        return [v]
    if inspect.isclass(t) and issubclass(t,QintImp):
        v=SInt.of(v); n=t.BIT_SIZE; return [bool((v.v>>i)&1) for i in range(n)]
    if inspect.isclass(t) and issubclass(t,QfixedImp):
        I,F=t.BIT_SIZE_INTEGER,t.BIT_SIZE_FRACTIONAL
        if isinstance(v,float) or (isinstance(v,int) and not isinstance(v,bool)): v=SFix(I,F,Fraction(v))
        if isinstance(v,SInt): v=SFix(I,F,v.v)
        sc=int(v.x*2**F)%2**(I+F)
        return [bool((sc>>(i+F))&1) for i in range(I)]+[bool((sc>>(F-1-j))&1) for j in range(F)]
    if inspect.isclass(t) and issubclass(t,LQchar): return [bool((ord(v)>>i)&1) for i in range(8)]
    out=[]
    for a,x in zip(get_args(t),v): out+=to_bits(a,x)
    return out
def harvest():
    srcs=[]
    for fn in glob.glob('/repo/test/**/*.py',recursive=True):
        t=open(fn).read()
        for m in re.finditer(r'f\s*=\s*\(?\s*((?:f?"(?:[^"\\]|\\.)*"\s*)+)\)?',t):
            parts=re.findall(r'(f?)"((?:[^"\\]|\\.)*)"',m.group(1))
            if any(p[0]=='f' for p in parts): continue
            s=''.join(p[1] for p in parts).encode().decode('unicode_escape')
            if s.startswith('def ') and '->' in s: srcs.append(s)
    return sorted(set(srcs))
if __name__=='__main__':
    stats=collections.Counter(); shown=collections.Counter()
    for src in harvest():
        try: qf=qlassf(src,to_compile=False)
        except Exception as e: stats['lib-rejects']+=1; continue
        if isinstance(qf,UnboundQlassf): continue
        nin=sum(len(a) for a in qf.args)
        if nin>12: stats['big']+=1; continue
        name=re.match(r'def (\w+)',src).group(1)
        ns=dict(NS)
        try: exec(src,ns)
        except Exception as e: stats['spec-exec-fail']+=1; print('EXECFAIL',repr(src),e); continue
        fn=ns[name]; innames=[b for a in qf.args for b in a.bitvec]
        res=collections.Counter(); ex=None
        for row in itertools.product([False,True],repeat=nin):
            env=dict(zip([Symbol(n) for n in innames],row))
            for s,e in qf.expressions: env[s]=bool(e.subs(env)) if hasattr(e,'subs') else bool(e)
            try: got=[env[Symbol(n)] for n in qf.returns.bitvec]
            except KeyError: res['ret-unmapped']+=1; continue
            args=[];k=0
            for a in qf.args:
                v,n=to_spec(a.ttype,list(row[k:k+len(a)])); args.append(v); k+=n
            Flag.overflow=False
            try: val=fn(*args); exp=to_bits(qf.returns.ttype,val)
            except Exception as e: res['spec-raises']+=1; ex=ex or (row,repr(e)); continue
            if got==exp: res['agree']+=1
            elif Flag.overflow: res['differ-overflow']+=1
            else: res['DIFFER']+=1; ex=ex or (row,args,val,got,exp)
        key='ok' if set(res)<={'agree'} else ('ok+overflow-differs' if set(res)<={'agree','differ-overflow'} else ('ret-unmapped' if res['ret-unmapped'] else ('spec-raises' if res['spec-raises'] else 'DIFFER')))
        stats[key]+=1
        if key not in('ok',) and shown[key]<40: shown[key]+=1; print(key,repr(src),dict(res),ex)
    print(stats)
