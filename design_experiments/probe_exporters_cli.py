import io, sys, contextlib, tempfile, os
import numpy as np
from qlasskit import QCircuit, qlassf
from qlasskit.qcircuit import gates
# C13: qiskit read-back
qc=QCircuit(4); qc.h(0); qc.cx(0,2); qc.ccx(0,1,3); qc.mcx([0,1,2],3); qc.mctrl(gates.Z(),[0,1],2); qc.cp(0.785398,1,3); qc.swap(1,2); qc.barrier('b'); qc.x(3); qc.cz(2,0)
q=qc.export('circuit','qiskit')
print([ (inst.operation.name, [q.find_bit(b).index for b in inst.qubits], list(inst.operation.params)) for inst in q.data])
g=qc.export('gate','qiskit'); print(g.name, g.num_qubits, [(i.operation.name,[g.definition.find_bit(b).index for b in i.qubits]) for i in g.definition.data][:3])
from qiskit.quantum_info import Operator
U=Operator(q).data; print(U.shape)
import cirq
qc.gates=[g for g in qc.gates if not g[0].is_nop()]; q=qc.export('circuit','qiskit'); U=Operator(q).data; cc=qc.export('circuit','cirq')
ops=list(cirq.decompose_once(list(cc.all_operations())[0])); print([(str(o.gate),[qq.x for qq in o.qubits]) for o in ops])
Uc=cirq.unitary(cc); print(Uc.shape, np.allclose(U, Uc), 'qiskit little-endian vs cirq big-endian')
# permute cirq to qiskit ordering: reverse bits
n=4; perm=[int(format(i,f'0{n}b')[::-1],2) for i in range(2**n)]
print(np.allclose(U, Uc[np.ix_(perm,perm)]))
qs=QCircuit(3); qs.h(0); qs.cx(0,1); qs.ccx(0,1,2); qs.swap(0,2)
print(qs.export('circuit','sympy')); print(qs.export('gate','sympy'))
# C17 in-process
from qlasskit.tools import py2bexp, py2qasm
script="from qlasskit import qlassf\n@qlassf\ndef aa(a: bool, b: bool) -> bool:\n    return a and b\n@qlassf\ndef zz(a: bool, b: bool, c: bool) -> bool:\n    return (a or b or c)\n"
def run(mod,argv,stdin=''):
    out=io.StringIO(); old=sys.argv,sys.stdin
    sys.argv=argv; sys.stdin=io.StringIO(stdin)
    try:
        with contextlib.redirect_stdout(out): mod.main()
    finally: sys.argv,sys.stdin=old
    return out.getvalue()
for form in ['anf','cnf','dnf','nnf']:
    print(form, repr(run(py2bexp,['py2bexp','-f',form],script)), repr(run(py2bexp,['py2bexp','-f',form,'-e','aa'],script)))
print(repr(run(py2bexp,['py2bexp','-f','cnf','-t','dimacs'],script)))
print(run(py2qasm,['py2qasm','-e','aa','-q','2.0'],script))
import glob; print(len(glob.glob(tempfile.gettempdir()+'/qlassf_*.py')),'leaked temp files')
