"""Prototype 2: translate_expression on AST skeletons; type ops replaced by contracts (modular)."""
import ast, inspect, textwrap, types, sys, time, operator
import z3, sympy
from sympy.logic import boolalg
class Unsupported(Exception): pass
class SymExpr:
    __slots__=('z',)
    def __init__(self,z): self.z=z
    def __bool__(self): raise TypeError('cannot determine truth value of opaque expression')
    def __eq__(self,o): raise Unsupported('structural == on opaque expr')
    def __hash__(self): raise Unsupported('hash of opaque expr')
    def __repr__(self): return f'<E {self.z}>'
def den(x):
    if isinstance(x,SymExpr): return x.z
    if x is True or x is sympy.true: return z3.BoolVal(True)
    if x is False or x is sympy.false: return z3.BoolVal(False)
    raise Unsupported(f'den of {type(x)} {x!r}')
def isexp(x): return isinstance(x,SymExpr) or x is True or x is False or x is sympy.true or x is sympy.false
def mk(z):
    z=z3.simplify(z)
    if z3.is_true(z): return sympy.true
    if z3.is_false(z): return sympy.false
    return SymExpr(z)
def xor_all(zs):
    r=zs[0]
    for a in zs[1:]: r=z3.Xor(r,a)
    return r
MODELS={
 boolalg.And: lambda *a: mk(z3.And(*map(den,a))) if a else sympy.true,
 boolalg.Or: lambda *a: mk(z3.Or(*map(den,a))) if a else sympy.false,
 boolalg.Not: lambda a: mk(z3.Not(den(a))),
 boolalg.Xor: lambda *a: mk(xor_all(list(map(den,a)))),
 boolalg.ITE: lambda c,t,e: mk(z3.If(den(c),den(t),den(e))),
 sympy.Symbol: lambda name: SymExpr(z3.Bool(name)),
}
OPS={'Add':operator.add,'Sub':operator.sub,'Mult':operator.mul,'Pow':operator.pow,'Mod':operator.mod,'BitAnd':operator.and_,'BitOr':operator.or_,'BitXor':operator.xor,'Div':operator.truediv,'FloorDiv':operator.floordiv,'LShift':operator.lshift,'RShift':operator.rshift}
CMP={'Eq':operator.eq,'NotEq':operator.ne,'Lt':operator.lt,'LtE':operator.le,'Gt':operator.gt,'GtE':operator.ge,'Is':operator.is_,'IsNot':operator.is_not,'In':lambda a,b:a in b,'NotIn':lambda a,b:a not in b}
class VC:
    def __init__(self): self.cache={}; self.contracts={}; self.assumed=[]; self.log=[]
    def call(self,f,*a,**k):
        if f in MODELS: return MODELS[f](*a,**k)
        key=getattr(f,'__func__',f)
        if key in self.contracts: return self.contracts[key](self,f,*a,**k)
        if f is map: return [self.call(a[0],*xs) for xs in zip(*a[1:])]
        if f is filter: return [x for x in a[1] if self.truth(self.call(a[0],x))]
        if f is isinstance and isinstance(a[0],SymExpr):
            if a[1] in (boolalg.BooleanTrue,boolalg.BooleanFalse): return False
            if a[1] in (list,tuple,ast.Constant) or a[1] is __import__('typing').List: return False
            raise Unsupported(f'isinstance(opaque,{a[1]})')
        return self.instr(f)(*a,**k)
    def binop(self,op,l,r):
        if isinstance(l,SymExpr) or isinstance(r,SymExpr):
            if not (isexp(l) and isexp(r)): raise Unsupported(f'{op} {type(l)} {type(r)}')
            return mk({'BitAnd':z3.And,'BitOr':z3.Or,'BitXor':z3.Xor}[op](den(l),den(r)))
        return OPS[op](l,r)
    def compare(self,op,l,r):
        if isinstance(l,SymExpr) or isinstance(r,SymExpr):
            if op in('Is','IsNot'): return CMP[op](l,r)
            raise Unsupported(f'compare {op} on opaque')
        return CMP[op](l,r)
    def truth(self,x):
        if isinstance(x,SymExpr): raise TypeError('truth of opaque expr')
        return bool(x)
    def instr(self,f):
        if isinstance(f,types.MethodType): return types.MethodType(self.instr(f.__func__),f.__self__)
        if not isinstance(f,types.FunctionType) or not (f.__module__ or '').startswith('qlasskit'): return f
        if f.__code__.co_filename.startswith('<vc:'): return f
        if f in self.cache: return self.cache[f]
        lines,start=inspect.getsourcelines(f)
        tree=ast.parse(textwrap.dedent(''.join(lines)))
        ast.increment_lineno(tree,start-1)
        fd=tree.body[0]; fd.decorator_list=[]
        tree=Instr().visit(tree); ast.fix_missing_locations(tree)
        g=dict(f.__globals__); g['__vc']=self
        code=compile(tree,'<vc:'+inspect.getsourcefile(f)+'>','exec'); exec(code,g)
        nf=g[fd.name]; self.cache[f]=nf; return nf
def hook(name,*args): return ast.Call(func=ast.Attribute(value=ast.Name(id='__vc',ctx=ast.Load()),attr=name,ctx=ast.Load()),args=list(args),keywords=[])
class Instr(ast.NodeTransformer):
    def visit_Call(self,n):
        self.generic_visit(n)
        if isinstance(n.func,ast.Name) and n.func.id=='super': return n
        return ast.Call(func=ast.Attribute(value=ast.Name(id='__vc',ctx=ast.Load()),attr='call',ctx=ast.Load()),args=[n.func]+n.args,keywords=n.keywords)
    def visit_BinOp(self,n): self.generic_visit(n); return hook('binop',ast.Constant(type(n.op).__name__),n.left,n.right)
    def visit_Compare(self,n):
        self.generic_visit(n)
        if len(n.ops)==1: return hook('compare',ast.Constant(type(n.ops[0]).__name__),n.left,n.comparators[0])
        return n
    def visit_If(self,n): self.generic_visit(n); n.test=hook('truth',n.test); return n
    def visit_IfExp(self,n): self.generic_visit(n); n.test=hook('truth',n.test); return n
    def visit_While(self,n): self.generic_visit(n); n.test=hook('truth',n.test); return n

from qlasskit.types import *
from qlasskit.types.qint import QintImp
from qlasskit.ast2logic import Env, translate_expression
from qlasskit.ast2logic.typing import Arg
def bv(bits):
    bs=[z3.If(den(b),z3.BitVecVal(1,1),z3.BitVecVal(0,1)) for b in bits]
    return z3.Concat(*reversed(bs)) if len(bs)>1 else bs[0]
def ext(x,W): return z3.ZeroExt(W-x.size(),x) if x.size()<W else (z3.Extract(W-1,0,x) if x.size()>W else x)
def prove(name,claim,assume=[]):
    s=z3.Solver(); s.set('timeout',30000); [s.add(a) for a in assume]; s.add(z3.Not(claim)); t=time.time(); r=s.check()
    print(f'  {name}: {"PROVED" if r==z3.unsat else r} {time.time()-t:.2f}s',(s.model() if r==z3.sat else ''),flush=True)

# --- contracts of the type layer, used INSTEAD of the bodies (modular) -------------
fresh=[0]
def fresh_bits(n,tag):
    fresh[0]+=1; return [SymExpr(z3.Bool(f'{tag}{fresh[0]}.{i}')) for i in range(n)]
def c_add(vc,f,tl,tr):
    cls=f.__self__
    assert issubclass(tl[0],QintImp) and issubclass(tr[0],QintImp), 'pre: Qint operands'
    assert len(tl[1])==tl[0].BIT_SIZE and len(tr[1])==tr[0].BIT_SIZE, 'pre: R'
    W=max(len(tl[1]),len(tr[1])); T=tl[0] if len(tl[1])>=len(tr[1]) else tr[0]
    res=fresh_bits(W,'add')
    vc.assumed.append(bv(res)==ext(bv(tl[1]),W)+ext(bv(tr[1]),W)); vc.log.append(('contract',f'{cls.__name__}.add'))
    return (T,res)
def c_gt(vc,f,tl,tr):
    res=SymExpr(z3.Bool(f'gt{fresh[0]}')); fresh[0]+=1
    W=max(len(tl[1]),len(tr[1])); vc.assumed.append(res.z==z3.UGT(ext(bv(tl[1]),W),ext(bv(tr[1]),W))); vc.log.append(('contract','gt'))
    return (bool,res)

def run_skeleton(node, vartypes, modular):
    vc=VC()
    if modular:
        vc.contracts[QintImp.add.__func__]=c_add; vc.contracts[QintImp.gt]=c_gt
    env=Env()
    for n,T in vartypes.items():
        env.bind(Arg(n,T,[f'{n}.{i}' for i in range(T.BIT_SIZE)] if T is not bool else [n]))
    t=time.time(); res=vc.call(translate_expression,node,env); return vc,res,time.time()-t

def var(n,T): return [SymExpr(z3.Bool(f'{n}.{i}')) for i in range(T.BIT_SIZE)]
for T1,T2 in [(Qint2,Qint4),(Qint8,Qint8),(Qint16,Qint12)]:
    for modular in (True,False):
        node=ast.parse('a + b',mode='eval').body
        vc,(T,bits),g=run_skeleton(node,{'a':T1,'b':T2},modular)
        W=len(bits); print(T1.__name__,'+',T2.__name__,'modular' if modular else 'inlined','->',T.__name__,W,f'gen {g:.2f}s',vc.log)
        prove('BinOp.Add post', z3.And(W==T.BIT_SIZE, bv(bits)==ext(bv(var('a',T1)),W)+ext(bv(var('b',T2)),W)), vc.assumed)
        node=ast.parse('(a + b) if a > b else b',mode='eval').body
        vc,(T,bits),g=run_skeleton(node,{'a':T1,'b':T2},modular)
        W=len(bits); A=ext(bv(var('a',T1)),W); B=ext(bv(var('b',T2)),W)
        print('  ifexp ->',T.__name__,W,vc.log)
        prove('IfExp(Compare.Gt, BinOp.Add, Name) post', bv(bits)==z3.If(z3.UGT(A,B),A+B,B), vc.assumed)
# rejection / unsupported
for src,vt in [('a + c',{'a':Qint2,'c':bool}),('a < b < c',{'a':Qint2,'b':Qint2,'c':Qint2}),('a // b',{'a':Qint2,'b':Qint2}),('a and b',{'a':Qint2,'b':bool})]:
    try:
        vc,res,g=run_skeleton(ast.parse(src,mode='eval').body,vt,False); print(src,'ACCEPTED',res)
    except Exception as ex: print(src,'->',type(ex).__name__,str(ex)[:80])
