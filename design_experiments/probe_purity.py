from qlasskit import qlassf
import qlasskit.qlassfun as m
g=qlassf("def g1(a: bool) -> bool:\n  return not a")
print('before', g.truth_table_header())
h=qlassf("def flatten(a: bool) -> bool:\n  return a")
try: print('after', g.truth_table_header())
except Exception as ex: print('after EXC', repr(ex))
print(type(m.flatten))
# Grover mutates oracle
from qlasskit.algorithms import Grover
import importlib; importlib.reload(m)
from qlasskit import qlassf as q2, Qint
o=q2("def orc(a: Qint[2]) -> bool:\n  return a == 2")
n0=(o.circuit().num_qubits,len(o.circuit().gates))
Grover(o); n1=(o.circuit().num_qubits,len(o.circuit().gates))
Grover(o); n2=(o.circuit().num_qubits,len(o.circuit().gates))
print(n0,n1,n2)
print(o.decode_output(5) if False else '')
r=q2("def r4(a: Qint[4]) -> Qint[4]:\n  return a")
print('decode int 5 ->', r.decode_output(5), ' decode "0101" ->', r.decode_output("0101"))
l=[True,False,True]; r.decode_output(l); print('list arg after call', l)
