import ast, glob, sys
MUT={'append','extend','insert','pop','remove','clear','add','update','sort','reverse','discard','setdefault','popitem'}
flagged=[];defaults=[];globs=[]
for fn in sorted(glob.glob('/repo/qlasskit/**/*.py',recursive=True)):
    tree=ast.parse(open(fn).read())
    for node in ast.walk(tree):
        if isinstance(node,(ast.FunctionDef,ast.Lambda)):
            if isinstance(node,ast.Lambda): continue
            args=[a.arg for a in node.args.args+node.args.kwonlyargs]
            recv=args[0] if args and args[0] in('self','cls') else None
            # mutable defaults
            for a,d in zip(node.args.args[::-1],node.args.defaults[::-1]):
                if isinstance(d,(ast.List,ast.Dict,ast.Set)): defaults.append((fn,node.name,a.arg,node.lineno))
            taint=set(a for a in args if a!=recv)
            # flow-insensitive taint
            changed=True
            def names(e): return {n.id for n in ast.walk(e) if isinstance(n,ast.Name)}
            while changed:
                changed=False
                for st in ast.walk(node):
                    if isinstance(st,ast.Assign) and names(st.value)&taint:
                        # calls producing fresh values: deepcopy/copy/list()/dict()
                        v=st.value
                        if isinstance(v,ast.Call) and isinstance(v.func,(ast.Name,ast.Attribute)):
                            fname=v.func.id if isinstance(v.func,ast.Name) else v.func.attr
                            if fname in('deepcopy','copy','list','dict','set','tuple','sorted','map','filter','zip','len','str','int','reduce','flatten','format_outcome','reversed','range','join','type_repr'): continue
                        for t in st.targets:
                            for n in ast.walk(t):
                                if isinstance(n,ast.Name) and n.id not in taint: taint.add(n.id); changed=True
                    if isinstance(st,(ast.For,ast.comprehension)) and names(st.iter)&taint:
                        for n in ast.walk(st.target):
                            if isinstance(n,ast.Name) and n.id not in taint: taint.add(n.id); changed=True
            def root(e):
                while isinstance(e,(ast.Attribute,ast.Subscript)): e=e.value
                return e.id if isinstance(e,ast.Name) else None
            for st in ast.walk(node):
                if isinstance(st,(ast.Assign,ast.AugAssign)):
                    tg=st.targets if isinstance(st,ast.Assign) else [st.target]
                    for t in tg:
                        if isinstance(t,(ast.Attribute,ast.Subscript)) and root(t) in taint: flagged.append((fn,node.name,st.lineno,'store',ast.unparse(t)))
                        if isinstance(st,ast.AugAssign) and isinstance(t,ast.Name) and t.id in taint: flagged.append((fn,node.name,st.lineno,'augassign',t.id))
                if isinstance(st,ast.Call) and isinstance(st.func,ast.Attribute) and st.func.attr in MUT and root(st.func.value) in taint:
                    flagged.append((fn,node.name,st.lineno,'call',ast.unparse(st.func)))
                if isinstance(st,ast.Global): globs.append((fn,node.name,st.lineno))
                if isinstance(st,ast.Call) and isinstance(st.func,ast.Name) and st.func.id in('exec','eval'): globs.append((fn,node.name,st.lineno,ast.unparse(st)))
print('mutable defaults',len(defaults)); [print(' ',d) for d in defaults]
print('global/exec',len(globs)); [print(' ',g) for g in globs]
print('flagged param mutations',len(flagged)); [print(' ',f[0].replace('/repo/qlasskit/',''),f[1:]) for f in flagged]
