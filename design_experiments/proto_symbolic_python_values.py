"""Prototype 3: symbolic Python values (SymBool / SymStr) through the hooks: QlassF.encode_input / decode_output."""
import ast, inspect, textwrap, types, sys, time, operator
import z3
class Unsupported(Exception): pass
class SymBool:
    def __init__(s,z): s.z=z
    def __bool__(s): raise Unsupported('native truth test of SymBool')
    def __repr__(s): return f'<b {s.z}>'
class SymChar:
    """a character that is '1' if z else '0'"""
    def __init__(s,z): s.z=z
    def __repr__(s): return f"<c {s.z}>"
class SymStr(list):
    def __getitem__(s,i):
        r=list.__getitem__(s,i); return SymStr(r) if isinstance(i,slice) else r
    def __add__(s,o): return SymStr(list(s)+list(o))
    def __radd__(s,o): return SymStr(list(o)+list(s))
    def __iadd__(s,o): return SymStr(list(s)+list(o))
def zb(x): return x.z if isinstance(x,SymBool) else z3.BoolVal(bool(x))
OPS={'Add':operator.add,'Sub':operator.sub,'Mult':operator.mul,'Pow':operator.pow,'Mod':operator.mod}
class Fork(Exception): pass
class VC:
    def __init__(self): self.cache={}; self.contracts={}; self.decisions=[]; self.pos=0; self.pc=[]
    def call(self,f,*a,**k):
        key=getattr(f,'__func__',f)
        if key in self.contracts: return self.contracts[key](self,f,*a,**k)
        if f is isinstance and isinstance(a[0],SymStr) and a[1] is str: return True
        if f is isinstance and isinstance(a[0],SymStr): return a[1] in (list,) and False
        if f is len: return len(a[0])
        return self.instr(f)(*a,**k)
    def binop(self,op,l,r):
        if isinstance(l,(SymStr,SymChar)) or isinstance(r,(SymStr,SymChar)):
            assert op=='Add'
            co=lambda x: [x] if isinstance(x,SymChar) else list(x)
            return SymStr(co(l)+co(r))
        return OPS[op](l,r)
    def compare(self,op,l,r):
        if isinstance(l,SymChar) and r in ('0','1') and op in ('Eq','NotEq'):
            z=l.z if r=='1' else z3.Not(l.z); return SymBool(z if op=='Eq' else z3.Not(z))
        if isinstance(l,(SymBool,SymChar,SymStr)) or isinstance(r,(SymBool,SymChar)): 
            if op in ('Eq',) and r is bool: return False
            raise Unsupported(f'compare {op} {l!r} {r!r}')
        return {'Eq':operator.eq,'NotEq':operator.ne,'Lt':operator.lt,'Gt':operator.gt,'LtE':operator.le,'GtE':operator.ge,'Is':operator.is_,'IsNot':operator.is_not}[op](l,r)
    def truth(self,x):
        if isinstance(x,SymBool):
            if self.pos<len(self.decisions): d=self.decisions[self.pos]
            else: self.decisions.append(True); d=True
            self.pos+=1; self.pc.append(x.z if d else z3.Not(x.z)); return d
        return bool(x)
    def ite(self,c,t,e):   # merged IfExp for constant arms
        if isinstance(c,SymBool):
            if (t,e)==('1','0'): return SymChar(c.z)
            if (t,e)==('0','1'): return SymChar(z3.Not(c.z))
            if (t,e)==(True,False): return c
            if (t,e)==(False,True): return SymBool(z3.Not(c.z))
            raise Unsupported('ite arms')
        return t if c else e
    def sub(self,o,i):
        return o[i]
    def instr(self,f):
        if isinstance(f,types.MethodType): return types.MethodType(self.instr(f.__func__),f.__self__)
        if not isinstance(f,types.FunctionType) or not (f.__module__ or '').startswith('qlasskit'): return f
        if f.__code__.co_filename.startswith('<vc:'): return f
        if f in self.cache: return self.cache[f]
        lines,start=inspect.getsourcelines(f)
        tree=ast.parse(textwrap.dedent(''.join(lines))); ast.increment_lineno(tree,start-1)
        fd=tree.body[0]; fd.decorator_list=[]
        tree=Instr().visit(tree); ast.fix_missing_locations(tree)
        g=dict(f.__globals__); g['__vc']=self
        exec(compile(tree,'<vc:'+inspect.getsourcefile(f)+'>','exec'),g)
        nf=g[fd.name]; self.cache[f]=nf; return nf
def hook(name,*args): return ast.Call(func=ast.Attribute(value=ast.Name(id='__vc',ctx=ast.Load()),attr=name,ctx=ast.Load()),args=list(args),keywords=[])
class Instr(ast.NodeTransformer):
    def visit_Call(self,n):
        self.generic_visit(n)
        return ast.Call(func=ast.Attribute(value=ast.Name(id='__vc',ctx=ast.Load()),attr='call',ctx=ast.Load()),args=[n.func]+n.args,keywords=n.keywords)
    def visit_BinOp(self,n): self.generic_visit(n); return hook('binop',ast.Constant(type(n.op).__name__),n.left,n.right)
    def visit_AugAssign(self,n):
        self.generic_visit(n)
        return ast.Assign(targets=[n.target],value=hook('binop',ast.Constant(type(n.op).__name__),ast.Name(id=n.target.id,ctx=ast.Load()) if isinstance(n.target,ast.Name) else n.target,n.value))
    def visit_Compare(self,n):
        self.generic_visit(n)
        return hook('compare',ast.Constant(type(n.ops[0]).__name__),n.left,n.comparators[0]) if len(n.ops)==1 else n
    def visit_If(self,n): self.generic_visit(n); n.test=hook('truth',n.test); return n
    def visit_IfExp(self,n):
        self.generic_visit(n)
        if isinstance(n.body,ast.Constant) and isinstance(n.orelse,ast.Constant): return hook('ite',n.test,n.body,n.orelse)
        n.test=hook('truth',n.test); return n

from typing import Tuple
from qlasskit import qlassf, Qint
from qlasskit.types import Qint2, Qint4, Qtype
from qlasskit.types.qint import QintImp
qf=qlassf("def rt(a: Tuple[Qint[2], bool], b: Qint[4], c: bool) -> Tuple[bool, Qint[2]]:\n  return (c, a[0])", to_compile=False)
vc=VC()
# value objects: opaque; to_bin replaced by its C09 contract
class SpecVal:
    def __init__(s,T,name): s.T=T; s.bits=[z3.Bool(f'{name}.{i}') for i in range(T.BIT_SIZE)]
def c_to_bin(vc,f,*a): 
    v=f.__self__; return SymStr([SymChar(b) for b in v.bits])
class ValProxy:
    def __init__(s,sv): s.sv=sv
    @property
    def to_bin(s): return types.MethodType(lambda self: SymStr([SymChar(b) for b in self.sv.bits]), s)
a0=ValProxy(SpecVal(Qint2,'a0')); a1=SymBool(z3.Bool('a1')); b=ValProxy(SpecVal(Qint4,'b')); c=SymBool(z3.Bool('c'))
enc=vc.call(qf.encode_input,(a0,a1),b,c)
print('encode_input ->',enc)
flat=a0.sv.bits+[a1.z]+b.sv.bits+[c.z]
ok=all(z3.eq(enc[len(enc)-1-k].z,flat[k]) for k in range(len(flat))) and len(enc)==len(flat)
print('encode contract (char k-from-right = flattened bit k):',ok)
# decode_output on a symbolic reading of 3 chars; from_bool replaced by C09 contract returning ghost bits
reading=SymStr([SymChar(z3.Bool(f'r{j}')) for j in range(3)])   # r0 leftmost
def c_from_bool(vc,f,v): return ('Qint2-value-with-bits',[zb(x) for x in v])
vc.contracts[QintImp.from_bool.__func__]=c_from_bool
dec=vc.call(qf.decode_output,reading)
print('decode_output ->',dec)
