from typing import Tuple
import traceback
from qlasskit import qlassf, Qint, Qint2, Qint4, Qfixed, Qlist, QCircuit
from qlasskit.types import *
from qlasskit.qcircuit import QCircuitEnhanced, gates
print("== C09 qfixed roundtrip")
for T in QFIXED_TYPES:
    bad=[]
    for i in range(2**T.BIT_SIZE):
        bits=[bool((i>>k)&1) for k in range(T.BIT_SIZE)]
        v=T.from_bool(bits)
        if v.to_bool()!=bits: bad.append((bits,float(v),v.to_bool()))
    print(T.__name__, len(bad), bad[:1])
for T in QINT_TYPES[:7]+[Qchar]:
    bad=[]
    for i in range(2**T.BIT_SIZE):
        bits=[bool((i>>k)&1) for k in range(T.BIT_SIZE)]
        try:
            v=T.from_bool(bits)
            if v.to_bool()!=bits: bad.append((bits,v,v.to_bool()))
            if T is not Qchar and T.const(int(v.value))[1]!=bits: bad.append(('const',bits))
            am=v.to_amplitudes()
            if am.index(1)!=i or sum(am)!=1: bad.append(('ampl',i))
        except Exception as ex: bad.append((i,repr(ex)))
    print(T.__name__, len(bad), bad[:1])
print("== C05 tuple return var")
try:
    qf=qlassf("def t1(a: Tuple[bool,bool]) -> Tuple[bool,bool]:\n  b = (a[1], a[0])\n  return b")
    print(qf.expressions, qf.returns.bitvec, qf.circuit().qubit_map)
    print(qf.output_qubits)
except Exception as ex: traceback.print_exc()
print("== C14 remove_identities")
qc=QCircuitEnhanced(2); qc.x(0); qc.x(0); qc.cx(0,1)
try:
    qc.remove_identities(); print(qc.gates)
except Exception as ex: print('EXC',repr(ex))
qc=QCircuitEnhanced(2); qc.cx(0,1); qc.append(gates.T(),[0]); qc.append(gates.T(),[0])
qc.remove_identities(); print([ (g.name,w) for g,w,p in qc.gates])
print("== C13 qasm alias")
qf=qlassf("def t2(a: bool, b: bool) -> bool:\n  c = a and b\n  return c")
print(qf.circuit().qubit_map, qf.circuit().num_qubits)
print(qf.export('qasm'))
print("== C17 dimacs")
from qlasskit.tools.py2bexp import convert_to_dimacs, convert_to_bool_expression
from sympy import symbols, Or, And, Not
a,b,c=symbols('a b c')
print(convert_to_dimacs(Or(a,b,c)))
print(convert_to_dimacs(And(Or(a,b),c)))
print(convert_to_dimacs(a))
print(convert_to_dimacs(Not(a)))
