import itertools, random, time, collections, sys
from qlasskit import qlassf
from qlasskit.qcircuit import gates
from qlasskit.boolopt import defaultOptimizer, fastOptimizer
from sympy import Symbol
from sympy.logic.boolalg import And,Or,Not,Xor,BooleanTrue,BooleanFalse
random.seed(int(sys.argv[1]) if len(sys.argv)>1 else 0)
V=['a','b','c','d']
def gen(d):
    if d==0 or random.random()<0.2: return random.choice(V)
    k=random.random()
    if k<0.15: return f'(not {gen(d-1)})'
    if k<0.4: return f'({gen(d-1)} and {gen(d-1)})'
    if k<0.6: return f'({gen(d-1)} or {gen(d-1)})'
    if k<0.75: return f'({gen(d-1)} ^ {gen(d-1)})'
    if k<0.82: return f'({gen(d-1)} == {gen(d-1)})'
    if k<0.9: return f'({gen(d-1)} if {gen(d-1)} else {gen(d-1)})'
    return f'({gen(d-1)} and {gen(d-1)} and {gen(d-1)})' if random.random()<0.5 else f'({gen(d-1)} or {gen(d-1)} or {gen(d-1)})'
def tables(qc,nin,yinit=None):
    N=1<<nin; full=(1<<N)-1; st=[0]*qc.num_qubits
    for i in range(nin): st[i]=sum(1<<x for x in range(N) if (x>>i)&1)
    if yinit is not None: st[yinit]=full
    for g,w,p in qc.gates:
        if isinstance(g,gates.NopGate): continue
        c=full
        for q in w[:-1]: c&=st[q]
        st[w[-1]]^=c
    return st,full
def den(e,env,full):
    if isinstance(e,BooleanTrue) or e is True: return full
    if isinstance(e,BooleanFalse) or e is False: return 0
    if isinstance(e,Symbol): return env[e.name]
    if isinstance(e,Not): return full^den(e.args[0],env,full)
    vs=[den(a,env,full) for a in e.args]; r=vs[0]
    for v in vs[1:]: r = r&v if isinstance(e,And) else (r|v if isinstance(e,Or) else r^v)
    return r
stats=collections.Counter(); ex=collections.defaultdict(list)
t0=time.time(); seen=set()
for it in range(int(sys.argv[2]) if len(sys.argv)>2 else 400):
    body=gen(3)
    two = random.random()<0.3
    src=f"def tf(a: bool, b: bool, c: bool, d: bool) -> bool:\n" + (f"  t = {gen(2)}\n  return {body} ^ t if t else {gen(1)}" if two else f"  return {body}")
    if src in seen: continue
    seen.add(src)
    for oname,opt in (('default',defaultOptimizer),('fast',fastOptimizer)):
        for unc in (True,False):
            try: qf=qlassf(src,bool_optimizer=opt,uncompute=unc)
            except Exception as e: stats[(oname,unc,'EXC '+type(e).__name__)]+=1; ex[(oname,unc,'EXC')].append((src,repr(e)[:80])); continue
            qc=qf.circuit(); nin=4
            st,full=tables(qc,nin)
            env={v:st[i] for i,v in enumerate(V)}
            for s,e in qf.expressions: env[s.name]=den(e,env,full)
            if '_ret' not in qc.qubit_map: stats[(oname,unc,'unmapped')]+=1; continue
            r=qc['_ret']; kind='ok'
            if st[r]!=env['_ret']: kind='C02-wrong'
            elif unc:
                if any(st[i]!=env[V[i]] for i in range(4)) : kind='C03-input-changed'
                elif any(st[q]!=0 for q in range(4,qc.num_qubits) if q!=r): kind='C03-dirty'
                else:
                    st2,_=tables(qc,nin,yinit=r)
                    if r<4: kind='C06-ret-is-input'
                    elif st2[r]!=full^env['_ret'] or any(st2[q]!=0 for q in range(4,qc.num_qubits) if q!=r) or any(st2[i]!=env[V[i]] for i in range(4)): kind='C06-not-xor'
            stats[(oname,unc,kind)]+=1
            if kind!='ok' and len(ex[(oname,unc,kind)])<2: ex[(oname,unc,kind)].append((src,str(qf.expressions)))
print(f'{len(seen)} programs {time.time()-t0:.0f}s')
for k,v in sorted(stats.items()): print(k,v)
for k,v in ex.items():
    for s in v: print(k,repr(s[0]),'|',s[1][:200])
