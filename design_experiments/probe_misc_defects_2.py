from typing import Tuple
import traceback, copy
from qlasskit import qlassf, Qint, Qint2, Qint4, Qfixed, Qlist, QCircuit, Parameter
from qlasskit.types import *
from qlasskit.qcircuit import QCircuitEnhanced, gates, CNotSim
print("== C14 remove_identities same object")
qc=QCircuitEnhanced(2); g=gates.X(); qc.append(g,[0]); qc.append(g,[0]); qc.cx(0,1)
try:
    qc.remove_identities(); print(qc.gates)
except Exception as ex: print('EXC',repr(ex))
print("== C13 alias")
qf=qlassf("def t3(a: bool, b: bool) -> bool:\n  c = a ^ b\n  d = c\n  return d")
print(qf.expressions, qf.circuit().qubit_map, qf.circuit().num_qubits)
print(qf.export('qasm'))
qf=qlassf("def t4(a: Qint[2]) -> Qint[2]:\n  return a + 1")
print(qf.expressions, qf.circuit().qubit_map, qf.circuit().num_qubits)
print(qf.export('qasm'))
print("== C07 tuple element int arg")
g=qlassf("def g(x: Qint[2]) -> bool:\n  return x == 1", to_compile=False)
try:
    h=qlassf("def h(t: Tuple[Qint[2], Qint[2]]) -> bool:\n  return g(t[1])", defs=[g], to_compile=False)
    print(h.expressions, [e.free_symbols for s,e in h.expressions])
except Exception as ex: traceback.print_exc()
h=qlassf("def h2(a: Qint[2], b: Qint[2]) -> bool:\n  return g(b) and g(a)", defs=[g], to_compile=False)
print(h.expressions)
print("== C08 bind twice")
u=qlassf("def pb(a: Parameter[Qint[2]], b: Qint[2]) -> Qint[2]:\n  return a + b", to_compile=False)
import ast
d0=ast.dump(u.fun_ast)
f1=u.bind(a=1); f2=u.bind(a=2)
print(f1.expressions); print(f2.expressions); print(ast.dump(u.fun_ast)==d0)
print("== C12 swap")
from qlasskit.decompiler import circuit_boolean_optimizer, Decompiler
qc=QCircuit(2); qc.cx(0,1); qc.cx(1,0); qc.cx(0,1)
o=circuit_boolean_optimizer(qc)
print([(g.name,w) for g,w,p in o.gates])
print(Decompiler().decompile(qc))
qc=QCircuit(3); qc.h(0); qc.cx(0,1); qc.barrier(); qc.cx(1,2); qc.h(2); qc.x(0); 
print(Decompiler().decompile(qc))
