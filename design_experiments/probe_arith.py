import itertools, inspect
from typing import Tuple
from qlasskit import qlassf, Qint, Qint2, Qint4, Qfixed, Qlist
from qlasskit.types import *
from qlasskit.boolopt.bool_optimizer import merge_expressions
from sympy import Symbol

def eval_qf(qf, argvals):
    """evaluate expressions on concrete args; returns ret bits"""
    env={}
    for a,v in zip(qf.args,argvals):
        if a.ttype==bool: bits=[v]
        else: bits=v.to_bool() if hasattr(v,'to_bool') else None
        for n,b in zip(a.bitvec,bits): env[Symbol(n)]=b
    for s,e in qf.expressions:
        val=e.subs(env) if hasattr(e,'subs') else e
        env[s]=bool(val)
    return [env[Symbol(n)] for n in qf.returns.bitvec]

def check(src, name=None):
    qf=qlassf(src,to_compile=False)
    doms=[]
    for a in qf.args:
        if a.ttype==bool: doms.append([False,True])
        else: doms.append([a.ttype.from_bool([bool((i>>k)&1) for k in range(a.ttype.BIT_SIZE)]) for i in range(2**a.ttype.BIT_SIZE)])
    bad=[]
    for vals in itertools.product(*doms):
        got=eval_qf(qf,vals)
        exp=qf.original_f(*vals)
        rt=qf.returns.ttype
        if rt==bool: expb=[bool(exp)]
        else:
            expb=rt(exp).to_bool() if not hasattr(exp,'to_bool') else rt.fill((rt,exp.to_bool()))[1][:rt.BIT_SIZE]
        if got!=expb: bad.append((vals,got,expb,exp))
    print(src.strip().splitlines()[-1].strip(), '->', 'OK' if not bad else f'BAD {len(bad)} e.g. {bad[0]}')

check("def tf(a: Qint[2], b: Qint[4]) -> bool:\n  return a > b")
check("def tf(a: Qint[4], b: Qint[2]) -> bool:\n  return a > b")
check("def tf(a: Qint[2], b: Qint[4]) -> bool:\n  return a < b")
check("def tf(a: Qint[2], b: Qint[4]) -> bool:\n  return a >= b")
check("def tf(a: Qint[2], b: Qint[4]) -> bool:\n  return a <= b")
check("def tf(a: Qint[2], b: Qint[4]) -> bool:\n  return a == b")
check("def tf(a: Qint[2], b: Qint[4]) -> bool:\n  return a != b")
check("def tf(a: Qint[2], b: Qint[4]) -> Qint[4]:\n  return a + b")
check("def tf(a: Qint[4], b: Qint[2]) -> Qint[4]:\n  return a - b")
check("def tf(a: Qint[2], b: Qint[4]) -> Qint[4]:\n  return a - b")
check("def tf(a: Qint[4], b: Qint[4]) -> Qint[4]:\n  return a - b")
for c in [2,3,4,5,6,7,8,10,12]:
    check(f"def tf(a: Qint[4]) -> Qint[8]:\n  return a * {c}")
check("def tf(a: Qint[2], b: Qint[2]) -> Qint[4]:\n  return a * b")
check("def tf(a: Qint[2], b: Qint[4]) -> Qint[8]:\n  return a * b")
check("def tf(a: Qint[4]) -> Qint[4]:\n  return a % 4")
check("def tf(a: Qint[4]) -> Qint[4]:\n  return a << 1")
check("def tf(a: Qint[4]) -> Qint[4]:\n  return a >> 1")
