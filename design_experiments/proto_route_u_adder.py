import z3, time
# Route U feasibility: inductive step of QintImp.add's loop, arbitrary width.
I=z3.IntSort(); B=z3.BoolSort()
L=z3.Function('L',I,B); R=z3.Function('R',I,B)          # operand bit denotations
S=z3.Array('S',I,B); S2=z3.Array('S2',I,B)               # sums list before/after append (content), length i / i+1
pow2=z3.Function('pow2',I,I)
bvF=z3.Function('bvF',z3.ArraySort(I,B),I,I)             # bvint of array prefix
bvL=z3.Function('bvL',I,I); bvR=z3.Function('bvR',I,I)
i=z3.Int('i'); c=z3.Bool('c')
b2i=lambda b: z3.If(b,1,0)
ax=[]
k=z3.Int('k'); A=z3.Array('A',I,B); A2=z3.Array('A2',I,B)
ax.append(pow2(0)==1); ax.append(z3.ForAll([k],z3.Implies(k>=0,z3.And(pow2(k+1)==2*pow2(k),pow2(k)>0))))
ax.append(bvL(0)==0); ax.append(z3.ForAll([k],z3.Implies(k>=0,bvL(k+1)==bvL(k)+b2i(L(k))*pow2(k))))
ax.append(bvR(0)==0); ax.append(z3.ForAll([k],z3.Implies(k>=0,bvR(k+1)==bvR(k)+b2i(R(k))*pow2(k))))
ax.append(z3.ForAll([A],bvF(A,0)==0)); ax.append(z3.ForAll([A,k],z3.Implies(k>=0,bvF(A,k+1)==bvF(A,k)+b2i(A[k])*pow2(k))))
# lemma (congruence below i): storing at index i does not change the value of the prefix of length i
v=z3.Bool('v')
ax.append(z3.ForAll([A,k,v],z3.Implies(k>=0,bvF(z3.Store(A,k,v),k)==bvF(A,k))))
inv=lambda S,i,c: bvF(S,i)+b2i(c)*pow2(i)==bvL(i)+bvR(i)
# loop body (as symbolically executed from the real source): carry,sum=_full_adder(carry,L[i],R[i]); sums.append(sum)
a,b=L(i),R(i)
c2=z3.Xor(z3.And(a,b),z3.And(z3.Xor(a,b),c)); s=z3.Xor(z3.Xor(a,b),c)
S2=z3.Store(S,i,s)
p=z3.Int('p')
def prove(name,hyps,goal,tmo=30000):
    sol=z3.Solver(); sol.set('timeout',tmo); [sol.add(x) for x in ax+hyps]; sol.add(z3.Not(goal)); t=time.time(); r=sol.check()
    print(name,'PROVED' if r==z3.unsat else r,f'{time.time()-t:.2f}s')
prove('init', [], inv(S,z3.IntVal(0),z3.BoolVal(False)))
prove('step', [i>=0, inv(S,i,c)], inv(S2,i+1,c2))
# exit: at i==n, result value mod 2^n equals (l+r) mod 2^n: bvF(S,n) = bvL(n)+bvR(n) - carry*2^n, and 0<=bvF<2^n (range lemma)
n=z3.Int('n')
prove('post (sum = l + r - carry*2^n)', [n>=0, inv(S,n,c)], bvF(S,n)==bvL(n)+bvR(n)-b2i(c)*pow2(n))
# broken body canary: carry without the (a^b)&c term must NOT prove
c_bad=z3.And(a,b)
prove('canary (broken carry) must not prove', [i>=0, inv(S,i,c)], inv(S2,i+1,c_bad), tmo=10000)
