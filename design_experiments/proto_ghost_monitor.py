import itertools, sys
from typing import Tuple
from qlasskit import qlassf
from qlasskit.qcircuit import gates
from qlasskit.compiler.internalcompiler import InternalCompiler
from qlasskit.qcircuit.qcircuitenhanced import QCircuitEnhanced
from sympy import Symbol
from sympy.logic.boolalg import And,Or,Not,Xor,BooleanTrue,BooleanFalse

class Ghost:
    def __init__(self): self.n=None
G=Ghost()
def tables(qc, nin):
    """truth table (int bitset over 2^nin inputs) per qubit"""
    N=1<<nin; full=(1<<N)-1
    st=[0]*qc.num_qubits
    for i in range(nin):
        m=0
        for x in range(N):
            # input i is the i-th arg bit; row x: bit i of x
            if (x>>i)&1: m|=1<<x
        st[i]=m
    for g,w,p in qc.gates:
        if isinstance(g,gates.NopGate): continue
        c=full
        for q in w[:-1]: c&=st[q]
        st[w[-1]]^=c
    return st,full
def den(e,env,full):
    if isinstance(e,BooleanTrue) or e is True: return full
    if isinstance(e,BooleanFalse) or e is False: return 0
    if isinstance(e,Symbol): return env[e.name]
    if isinstance(e,Not): return full^den(e.args[0],env,full)
    vs=[den(a,env,full) for a in e.args]
    r=vs[0]
    for v in vs[1:]:
        r = r&v if isinstance(e,And) else (r|v if isinstance(e,Or) else r^v)
    return r
log=[]
def check_inv(self,qc,where):
    st,full=tables(qc,G.nin)
    env=dict(G.env)
    bad=[]
    for q in qc.free_ancilla_lst:
        if st[q]!=0: bad.append(('free_ancilla_not_zero',q))
    for e,q in self.expqmap.exp_map.items():
        try: d=den(e,env,full)
        except KeyError: continue
        if st[q]!=d: bad.append(('expqmap_stale',str(e),q))
    if bad: log.append((where,bad))
orig_ce=InternalCompiler.compile_expr
depth=[0]
def ce(self,qc,expr,dest=None,sym=None):
    depth[0]+=1
    st0,full=tables(qc,G.nin)
    r=orig_ce(self,qc,expr,dest,sym)
    depth[0]-=1
    st1,_=tables(qc,G.nin)
    try:
        d=den(expr,G.env,full)
        exp = d if dest is None else (st0[dest]^d if dest<len(st0) else d)
        if st1[r]!=exp and st1[r]!=d: log.append((f'compile_expr.post expr={expr} dest={dest} ret={r}',['value']))
        if dest is not None and r!=dest: log.append((f'compile_expr.post ret!=dest expr={expr} dest={dest} ret={r}',['dest']))
    except KeyError: pass
    check_inv(self,qc,f'after compile_expr({expr})')
    return r
InternalCompiler.compile_expr=ce
orig_unc=QCircuitEnhanced.uncompute
def unc(self,to_mark=[]):
    r=orig_unc(self,to_mark)
    st,full=tables(self,G.nin)
    for q in r:
        if st[q]!=0: log.append(('uncompute.post: returned qubit not zero',[q]))
    for q in self.free_ancilla_lst:
        if st[q]!=0: log.append(('uncompute.post: free ancilla not zero',[q]))
    return r
QCircuitEnhanced.uncompute=unc
orig_compile=InternalCompiler.compile
def comp(self,name,args,returns,exprs,uncompute=True):
    G.nin=sum(len(a) for a in args)
    N=1<<G.nin; full=(1<<N)-1
    env={}
    i=0
    for a in args:
        for b in a.bitvec:
            m=0
            for x in range(N):
                if (x>>i)&1: m|=1<<x
            env[b]=m; i+=1
    for s,e in exprs: env[s.name]=den(e,env,full)
    G.env=env
    return orig_compile(self,name,args,returns,exprs,uncompute)
InternalCompiler.compile=comp
for p in ['def test(a: Qint[4], b: Qint[4]) -> Qint[4]:\n\treturn a + b - 12',
          'def test(a: Qfixed[1,4], b: Qfixed[1,4]) -> Qfixed[1,4]:\n\treturn a + b',
          'def test(a: Qint[2], b: Qint[4]) -> Qint[4]:\n\treturn (a * 3) + b']:
    log.clear()
    qf=qlassf(p)
    print(repr(p)); print(' exprs',len(qf.expressions),'violations',len(log))
    for w,b in log[:4]: print('  ',w[:150],b[:3])
