import ast, sys, time, itertools, collections
exec(open(__import__("os").path.join(__import__("os").path.dirname(__import__("os").path.abspath(__file__)),"proto_modular_translate.py")).read().split("# --- contracts of the type layer")[0])
from qlasskit.types import *
def opaque(n,k): return [SymExpr(z3.Bool(f'{n}.{i}')) for i in range(k)]
def check(claim):
    s=z3.Solver(); s.set('timeout',20000); s.add(z3.Not(claim)); r=s.check()
    return 'ok' if r==z3.unsat else ('FAIL '+str(s.model())[:0] if r==z3.sat else 'unknown')
def scaled(T,bits,F,W):
    """value * 2^F as W-bit bitvector; T has I int bits (LE) then Ft frac bits (MSB first)"""
    I,Ft=T.BIT_SIZE_INTEGER,T.BIT_SIZE_FRACTIONAL
    tot=z3.BitVecVal(0,W)
    for k in range(I): tot=tot+z3.If(den(bits[k]),z3.BitVecVal(1<<(k+F),W),z3.BitVecVal(0,W))
    for j in range(Ft):
        sh=F-(j+1)
        assert sh>=0
        tot=tot+z3.If(den(bits[I+j]),z3.BitVecVal(1<<sh,W),z3.BitVecVal(0,W))
    return tot
res=collections.defaultdict(list); vc=VC()
for T1,T2 in itertools.product(QFIXED_TYPES,QFIXED_TYPES):
    a=opaque('a',T1.BIT_SIZE); b=opaque('b',T2.BIT_SIZE)
    F=max(T1.BIT_SIZE_FRACTIONAL,T2.BIT_SIZE_FRACTIONAL); W=24
    A=scaled(T1,a,F,W); B=scaled(T2,b,F,W)
    same = 'same' if T1 is T2 else ('sameI' if T1.BIT_SIZE_INTEGER==T2.BIT_SIZE_INTEGER else ('sameF' if T1.BIT_SIZE_FRACTIONAL==T2.BIT_SIZE_FRACTIONAL else 'diff'))
    for op,sp in {'eq':A==B,'neq':A!=B,'gt':z3.UGT(A,B),'lt':z3.ULT(A,B),'gte':z3.UGE(A,B),'lte':z3.ULE(A,B)}.items():
        try: T,r=vc.call(getattr(T1,op),(T1,a),(T2,b)); v=check(den(r)==sp)
        except Exception as ex: v='EXC '+type(ex).__name__
        res[(op,same,v)].append((T1.__name__,T2.__name__))
    for op in ('add','sub'):
        try:
            T,r=vc.call(getattr(T1,op),(T1,a),(T2,b))
            if len(r)!=T.BIT_SIZE: v='R-broken'
            else:
                Fr=max(F,T.BIT_SIZE_FRACTIONAL); A2=scaled(T1,a,Fr,W); B2=scaled(T2,b,Fr,W); Rr=scaled(T,r,Fr,W)
                mod=T.BIT_SIZE_INTEGER+Fr
                e=(A2+B2) if op=='add' else (A2-B2)
                v=check(z3.Extract(mod-1,0,Rr)==z3.Extract(mod-1,0,e))+f' ->{T.__name__}'
        except Exception as ex: v='EXC '+type(ex).__name__
        res[(op,same,v[:40])].append((T1.__name__,T2.__name__))
for k,sh in sorted(res.items()): print(k,len(sh),sh[:2])
# Qfixed vs Qint comparisons / arithmetic: accepted?
for T1,T2 in [(Qfixed1_2,Qint2),(Qint2,Qfixed1_2),(Qchar,Qint8),(Qint8,Qchar)]:
    a=opaque('a',T1.BIT_SIZE); b=opaque('b',T2.BIT_SIZE)
    for op in ['eq','gt','add','sub','mul','bitwise_and']:
        if not hasattr(T1,op): print(T1.__name__,op,'no attr'); continue
        try: T,r=vc.call(getattr(T1,op),(T1,a),(T2,b)); print(T1.__name__,op,T2.__name__,'ACCEPTED ->',T if T is bool else T.__name__)
        except Exception as ex: print(T1.__name__,op,T2.__name__,'raises',type(ex).__name__,str(ex)[:50])
