import itertools, time
from sympy import Symbol, symbols
from sympy.logic.boolalg import And, Or, Not, Xor, ITE, Implies, true, false
from qlasskit.boolopt.exp_transformers import *
from qlasskit.boolopt.bool_optimizer import *
a,b,c=symbols('a b c'); V=[a,b,c]
def tt(e,extra={}):
    out=[]
    for vals in itertools.product([False,True],repeat=3):
        env=dict(zip(V,vals)); 
        out.append(bool(e.subs(env)) if hasattr(e,'subs') else bool(e))
    return tuple(out)
lits=V+[Not(v) for v in V]
lvl1=set(lits)
for x,y in itertools.combinations(lits,2):
    for op in (And,Or,Xor,Implies): lvl1.add(op(x,y))
for x,y,z in itertools.combinations(lits,3):
    for op in (And,Or,Xor): lvl1.add(op(x,y,z))
    lvl1.add(ITE(x,y,z))
lvl1=[e for e in lvl1 if e not in (true,false)]
print(len(lvl1))
import random; random.seed(1)
lvl2=set()
for x,y in itertools.combinations(lvl1,2):
    if random.random()<0.02:
        for op in (And,Or,Xor): lvl2.add(op(x,y))
        lvl2.add(Not(op(x,y)))
lvl2=list(lvl2); print(len(lvl2))
steps={'remove_ITE':remove_ITE(),'remove_Implies':remove_Implies(),'or2xor':transform_or2xor(),'or2and':transform_or2and(),'obvious':remove_obvious_expr()}
for name,st in steps.items():
    bad=[]
    for e in lvl1+lvl2:
        try:
            r=st.visit(e)
            if tt(r)!=tt(e): bad.append((e,r))
            elif not (r.free_symbols<=e.free_symbols if hasattr(r,'free_symbols') else True): bad.append(('fs',e,r))
        except Exception as ex: bad.append((e,'EXC',repr(ex)))
    print(name,len(bad),bad[:3])
R=Symbol('_ret')
for pname,prof in (('default',defaultOptimizer),('fast',fastOptimizer)):
    bad=[]
    t0=time.time()
    for e in lvl1+lvl2[:400]:
        try:
            out=prof.apply([(R,e)])
            env0=None
            ok=True
            for vals in itertools.product([False,True],repeat=3):
                env=dict(zip(V,vals))
                for s,ex in out: env[s]=bool(ex.subs(env)) if hasattr(ex,'subs') else bool(ex)
                if env[R]!=bool(e.subs(dict(zip(V,vals)))): ok=False
            if not ok: bad.append((e,out))
        except Exception as ex: bad.append((e,'EXC',repr(ex)))
    print(pname,len(bad),f'{time.time()-t0:.1f}s',bad[:3])
