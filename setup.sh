#!/bin/bash
# Build the overlay interpreter used by every check (offline, from the wheelhouse).
set -e
cd "$(dirname "$0")"
V=.venv
if [ ! -x $V/bin/python ] || ! $V/bin/python -c "import z3, jsonschema, sympy, qlasskit" 2>/dev/null; then
  rm -rf $V
  /venv/bin/python -m venv $V
  echo "import site; site.addsitedir('/venv/lib/python3.12/site-packages')" > $V/lib/python3.12/site-packages/_overlay.pth
  PIP_NO_INDEX=1 $V/bin/pip install -q --no-index --find-links /opt/veriftools/wheels z3-solver cvc5 jsonschema >/dev/null
fi
$V/bin/python -c "import z3, jsonschema, sympy, qlasskit; print('setup ok: z3', z3.get_version_string(), 'sympy', sympy.__version__)"
