"""STUB of PyQUBO (the real package is not installed in the sandbox) - ASSUMED CONTRACT A6, used by the C18 check only.

Polynomial semantics over 0/1 variables as documented by PyQUBO ("Logical Gate" and "Logical Constraint" sections):
  Binary(label) = x;  Not(a) = 1 - a;  And(a, b) = a*b;  Or(a, b) = a + b - a*b;  Xor(a, b) = a + b - 2*a*b
  NotConst(a, b, label)    = 2ab - a - b + 1                       (0 iff b = not a)
  AndConst(a, b, c, label) = ab - 2(a + b)c + 3c                    (0 iff c = a and b)
  OrConst(a, b, c, label)  = ab + (a + b)(1 - 2c) + c               (0 iff c = a or b)
  XorConst(a, b, c, label) = 2ab - 2(a+b)c - 4(a+b)aux + 4 aux c + a + b + c + 4 aux   (min over aux is 0 iff c = a xor b)
Expressions are polynomials (dict: frozenset of labels -> integer coefficient; x*x = x).  compile() does NOT reduce the degree: the model is
the polynomial itself, which is exactly 'the expression tree handed to the modelling library, evaluated as a polynomial' (C18 observe_at)."""


class Poly:
    def __init__(self, terms=None, mentions=frozenset()):
        self.terms = {k: v for k, v in (terms or {}).items() if v != 0}
        # every Binary label of the expression TREE, also those whose terms cancel (PyQUBO's model.variables lists the tree's leaves)
        self.mentions = frozenset(mentions) | frozenset(x for k in self.terms for x in k)

    @staticmethod
    def of(x):
        if isinstance(x, Poly):
            return x
        if isinstance(x, bool):
            return Poly({frozenset(): 1 if x else 0})
        if isinstance(x, (int, float)):
            return Poly({frozenset(): x})
        raise TypeError(f"not an expression: {type(x).__name__}")

    def __add__(self, o):
        o = Poly.of(o)
        t = dict(self.terms)
        for k, v in o.terms.items():
            t[k] = t.get(k, 0) + v
        return Poly(t, self.mentions | o.mentions)

    __radd__ = __add__

    def __neg__(self):
        return Poly({k: -v for k, v in self.terms.items()}, self.mentions)

    def __sub__(self, o):
        return self + (-Poly.of(o))

    def __rsub__(self, o):
        return Poly.of(o) - self

    def __mul__(self, o):
        o = Poly.of(o)
        t = {}
        for k1, v1 in self.terms.items():
            for k2, v2 in o.terms.items():
                k = k1 | k2
                t[k] = t.get(k, 0) + v1 * v2
        return Poly(t, self.mentions | o.mentions)

    __rmul__ = __mul__

    def variables(self):
        return sorted({x for k in self.terms for x in k})

    def mentioned(self):
        return sorted(self.mentions)

    def energy(self, sample):
        return sum(v * all(sample[x] for x in k) for k, v in self.terms.items())

    def compile(self, strength=5.0):
        return Model(self)


def Binary(label):
    return Poly({frozenset([label]): 1})


def Not(a):
    return 1 - Poly.of(a)


def And(a, b):
    return Poly.of(a) * Poly.of(b)


def Or(a, b):
    a, b = Poly.of(a), Poly.of(b)
    return a + b - a * b


def Xor(a, b):
    a, b = Poly.of(a), Poly.of(b)
    return a + b - 2 * a * b


def NotConst(a, b, label):
    a, b = Poly.of(a), Poly.of(b)
    return 2 * a * b - a - b + 1


def AndConst(a, b, c, label):
    a, b, c = Poly.of(a), Poly.of(b), Poly.of(c)
    return a * b - 2 * (a + b) * c + 3 * c


def OrConst(a, b, c, label):
    a, b, c = Poly.of(a), Poly.of(b), Poly.of(c)
    return a * b + (a + b) * (1 - 2 * c) + c


def XorConst(a, b, c, label):
    a, b, c = Poly.of(a), Poly.of(b), Poly.of(c)
    aux = Binary("aux_" + label)
    return 2 * a * b - 2 * (a + b) * c - 4 * (a + b) * aux + 4 * aux * c + a + b + c + 4 * aux


class Decoded:
    def __init__(self, sample, energy):
        self.sample, self.energy = sample, energy


class Model:
    def __init__(self, poly):
        self.poly = poly
        self.variables = poly.mentioned()

    def to_bqm(self):
        return ("bqm", self.poly)

    def to_qubo(self):
        return ("qubo", self.poly)

    def to_ising(self):
        return ("ising", self.poly)

    def decode_sampleset(self, sampleset):
        return [Decoded(dict(s), self.poly.energy({**{v: 0 for v in self.variables}, **s})) for s in sampleset]
